"""C11 translator, part: which static-prop format the reader and the writer use (Fmt/BspPropVersion.v).

The static-prop game lump has a header number, but several engine branches reuse numbers: the format is chosen from
(header number, record size, BSP version) by `_lmp_read_props`, stored in `bsp.static_prop_version`, and `_lmp_write_props`
writes in whatever is stored there - state carried from the READ of one file to the WRITE of the next.  For an EMPTY lump there
is no record size: the reader guesses from the header number alone, and nothing in that file can contradict the guess.

This module does not match statement shapes.  It EXECUTES the head of both functions (everything before the loop over the
records) with a small interpreter over the `ast`, for every point of the finite domain

    BSP version (every value of `VERSIONS` + one unnamed number)  x  header number 0..15  x  record size (every size of a
    member, + one that no member has)  x  format named beforehand by the caller (none = UNKNOWN, or any member),

and tabulates what comes out: an error, or the format recorded in `static_prop_version` and the format / ladder number the
record loop is entered with.  The enum members (in definition order, aliases resolved), their `__init__`, their properties and
the module-level lookup table are read from the source and evaluated by the same interpreter.  Because the tables are
behaviour, not syntax, a behaviour-preserving rewrite (helper extracted, loop replaced by a dict, `break` added where only one
member can match ...) gives the same tables; `checks/c11.py` compares them EXHAUSTIVELY with the running implementation
(correspondence `prop_version_choice`), so the interpreter is checked, not trusted.

Fail-closed: any statement or expression outside the small language below -> TranslateError.
"""
from __future__ import annotations

import ast
from typing import Any

from harness.common import TranslateError

HDRS = list(range(0, 16))
LAST_TABLES: dict[str, Any] | None = None


class Member:
    def __init__(self, cls: str, name: str, attrs: dict[str, Any]) -> None:
        self.cls, self.name, self.attrs = cls, name, attrs

    def __repr__(self) -> str:
        return f'{self.cls}.{self.name}'


class Opaque:
    """a value the interpreter does not follow (file positions, lists of records ...)"""
    def __repr__(self) -> str:
        return '<opaque>'


OPAQUE = Opaque()


class GameLumps:
    """`self.game_lumps`"""


class GameLumpRef:
    """`self.game_lumps[<id>]`"""
    def __init__(self, key: bytes) -> None:
        self.key = key


GAME_LUMPS = GameLumps()


class _Break(Exception):
    pass


class _Continue(Exception):
    pass


class _Return(Exception):
    def __init__(self, value: Any = None) -> None:
        self.value = value


class _Stop(Exception):
    """the record loop is reached"""


class _Raise(Exception):
    def __init__(self, kind: str) -> None:
        self.kind = kind


class EnumClass:
    def __init__(self, name: str) -> None:
        self.name = name
        self.members: list[Member] = []         # definition order, no aliases
        self.by_name: dict[str, Member] = {}    # incl. aliases
        self.props: dict[str, ast.expr] = {}


def read_int_enum(tree: ast.Module, cname: str) -> EnumClass:
    """`class VERSIONS(Enum)`: NAME = int; a later name with a value seen before is an alias of the first (Enum semantics)."""
    for n in tree.body:
        if isinstance(n, ast.ClassDef) and n.name == cname:
            ec = EnumClass(cname)
            by_val: dict[int, Member] = {}
            for st in n.body:
                if isinstance(st, ast.Expr) and isinstance(st.value, ast.Constant):
                    continue
                if isinstance(st, ast.Assign) and len(st.targets) == 1 and isinstance(st.targets[0], ast.Name):
                    v = st.value
                    if isinstance(v, ast.Constant) and isinstance(v.value, int):
                        m = by_val.get(v.value)
                        if m is None:
                            m = Member(cname, st.targets[0].id, {'value': v.value})
                            by_val[v.value] = m
                            ec.members.append(m)
                        ec.by_name[st.targets[0].id] = m
                        continue
                    if isinstance(v, ast.Name) and v.id in ec.by_name:
                        ec.by_name[st.targets[0].id] = ec.by_name[v.id]
                        continue
                if isinstance(st, ast.FunctionDef):
                    continue        # helper methods of VERSIONS are not used by the code interpreted here (fail-closed at the call)
                raise TranslateError(f'class {cname}: line {st.lineno}: statement not recognised')
            return ec
    raise TranslateError(f'class {cname} not found')


class Interp:
    """The small language: if / for over an enum / break / continue / return / raise / try-except / assignments; expressions:
    names, attributes, constants, comparisons, and/or/not, tuples, subscripts of dicts, `.startswith`, dict comprehensions."""

    def __init__(self, tree: ast.Module) -> None:
        self.tree = tree
        self.enums: dict[str, EnumClass] = {}
        self.consts: dict[str, Any] = {}
        self.versions = read_int_enum(tree, 'VERSIONS')
        self.enums['VERSIONS'] = self.versions
        self.spv = self.read_tuple_enum('StaticPropVersion')
        self.enums['StaticPropVersion'] = self.spv
        self.module_values: dict[str, ast.expr] = {}
        for n in tree.body:
            tgt = val = None
            if isinstance(n, ast.Assign) and len(n.targets) == 1 and isinstance(n.targets[0], ast.Name):
                tgt, val = n.targets[0].id, n.value
            elif isinstance(n, ast.AnnAssign) and isinstance(n.target, ast.Name) and n.value is not None:
                tgt, val = n.target.id, n.value
            if tgt is not None:
                self.module_values[tgt] = val if tgt not in self.module_values else None    # assigned twice: unusable
        self.module_cache: dict[str, Any] = {}
        self.module_functions = {n.name for n in tree.body if isinstance(n, ast.FunctionDef)}
        self.cur_env: dict[str, Any] = {}
        self.depth = 0
        self.bsp_class = next((n for n in tree.body if isinstance(n, ast.ClassDef) and n.name == 'BSP'), None)
        if self.bsp_class is None:
            raise TranslateError('class BSP not found')

    # ------------------------------------------------------------------ the enum with tuple values
    def read_tuple_enum(self, cname: str) -> EnumClass:
        for n in self.tree.body:
            if isinstance(n, ast.ClassDef) and n.name == cname:
                ec = EnumClass(cname)
                init = next((st for st in n.body if isinstance(st, ast.FunctionDef) and st.name == '__init__'), None)
                if init is None:
                    raise TranslateError(f'{cname}.__init__ not found')
                params = [a.arg for a in init.args.args[1:]]
                defaults = init.args.defaults
                if init.args.vararg or init.args.kwarg or init.args.kwonlyargs:
                    raise TranslateError(f'{cname}.__init__: parameter list not recognised')
                stores: list[tuple[str, ast.expr]] = []
                for st in init.body:
                    if isinstance(st, ast.Expr) and isinstance(st.value, ast.Constant):
                        continue
                    if isinstance(st, ast.Assign) and len(st.targets) == 1 and isinstance(st.targets[0], ast.Attribute) \
                            and isinstance(st.targets[0].value, ast.Name) and st.targets[0].value.id == 'self':
                        stores.append((st.targets[0].attr, st.value))
                        continue
                    raise TranslateError(f'{cname}.__init__: line {st.lineno}: statement not recognised')
                seen_values: dict[tuple, Member] = {}
                for st in n.body:
                    if isinstance(st, ast.Expr) and isinstance(st.value, ast.Constant):
                        continue
                    if isinstance(st, ast.FunctionDef):
                        if st.name == '__init__':
                            continue
                        is_prop = any(isinstance(d, ast.Name) and d.id == 'property' for d in st.decorator_list)
                        body = [s for s in st.body if not (isinstance(s, ast.Expr) and isinstance(s.value, ast.Constant))]
                        if is_prop and len(body) == 1 and isinstance(body[0], ast.Return) and body[0].value is not None:
                            ec.props[st.name] = body[0].value
                        continue    # other methods: fail-closed where they are used
                    if isinstance(st, ast.Assign) and len(st.targets) == 1 and isinstance(st.targets[0], ast.Name):
                        name = st.targets[0].id
                        if isinstance(st.value, ast.Name) and st.value.id in ec.by_name:
                            ec.by_name[name] = ec.by_name[st.value.id]      # alias (DEFAULT = V5)
                            continue
                        if isinstance(st.value, ast.Tuple) and all(isinstance(e, ast.Constant) for e in st.value.elts):
                            vals = tuple(e.value for e in st.value.elts)
                            if vals in seen_values:                         # equal value: Enum makes it an alias
                                ec.by_name[name] = seen_values[vals]
                                continue
                            if len(vals) > len(params) or len(vals) < len(params) - len(defaults):
                                raise TranslateError(f'{cname}.{name}: {len(vals)} values for __init__{tuple(params)}')
                            env: dict[str, Any] = dict(zip(params, vals))
                            for k, p in enumerate(params):
                                if p not in env:
                                    d = defaults[k - (len(params) - len(defaults))]
                                    if not isinstance(d, ast.Constant):
                                        raise TranslateError(f'{cname}.__init__: default of {p} is not a constant')
                                    env[p] = d.value
                            attrs = {}
                            for a, e in stores:
                                attrs[a] = self.ev(e, env)
                            m = Member(cname, name, attrs)
                            seen_values[vals] = m
                            ec.members.append(m)
                            ec.by_name[name] = m
                            continue
                    raise TranslateError(f'class {cname}: line {st.lineno}: statement not recognised')
                return ec
        raise TranslateError(f'class {cname} not found')

    # ------------------------------------------------------------------ expressions
    def module_value(self, name: str) -> Any:
        if name in self.module_cache:
            return self.module_cache[name]
        e = self.module_values.get(name)
        if e is None:
            raise TranslateError(f'name {name}: not a local, not an enum, not a module-level value assigned once')
        v = self.ev(e, {})
        self.module_cache[name] = v
        return v

    def ev(self, e: ast.expr, env: dict[str, Any]) -> Any:
        if isinstance(e, ast.Constant):
            return e.value
        if isinstance(e, ast.Name):
            if e.id in env:
                return env[e.id]
            if e.id in self.enums:
                return self.enums[e.id]
            return self.module_value(e.id)
        if isinstance(e, ast.Attribute):
            if isinstance(e.value, ast.Name) and e.value.id == 'self' and 'self' not in env:
                key = 'self.' + e.attr
                if key in env:
                    return env[key]
                if e.attr == 'game_lumps':
                    return GAME_LUMPS
                raise TranslateError(f'line {e.lineno}: self.{e.attr} is not followed by the interpreter')
            base = self.ev(e.value, env)
            if isinstance(base, EnumClass):
                if e.attr in base.by_name:
                    return base.by_name[e.attr]
                raise TranslateError(f'line {e.lineno}: {base.name}.{e.attr} is not a member')
            if isinstance(base, Member):
                if e.attr == 'name':
                    return base.name
                if e.attr in base.attrs:
                    return base.attrs[e.attr]
                ec = self.enums[base.cls]
                if e.attr in ec.props:
                    return self.ev(ec.props[e.attr], {'self': base})
                raise TranslateError(f'line {e.lineno}: attribute {e.attr} of {base.cls} not recognised')
            raise TranslateError(f'line {e.lineno}: attribute {e.attr} of {ast.unparse(e.value)} not followed')
        if isinstance(e, ast.Tuple):
            return tuple(self.ev(x, env) for x in e.elts)
        if isinstance(e, ast.UnaryOp) and isinstance(e.op, ast.Not):
            return not self.truth(self.ev(e.operand, env), e)
        if isinstance(e, ast.BoolOp):
            v: Any = None
            for x in e.values:
                v = self.ev(x, env)
                t = self.truth(v, x)
                if isinstance(e.op, ast.And) and not t:
                    return v
                if isinstance(e.op, ast.Or) and t:
                    return v
            return v
        if isinstance(e, ast.Compare):
            left = self.ev(e.left, env)
            for op, rc in zip(e.ops, e.comparators):
                right = self.ev(rc, env)
                if not self.compare(op, left, right, e):
                    return False
                left = right
            return True
        if isinstance(e, ast.IfExp):
            return self.ev(e.body if self.truth(self.ev(e.test, env), e.test) else e.orelse, env)
        if isinstance(e, ast.Subscript):
            base = self.ev(e.value, env)
            key = self.ev(e.slice, env)
            if isinstance(base, GameLumps) and isinstance(key, bytes):
                return GameLumpRef(key)
            if isinstance(base, dict):
                self.known(key, e)
                if key in base:
                    return base[key]
                raise _Raise('KeyError')
            if isinstance(base, EnumClass) and isinstance(key, str):
                if key in base.by_name:
                    return base.by_name[key]
                raise _Raise('KeyError')
            raise TranslateError(f'line {e.lineno}: subscript of {ast.unparse(e.value)} not followed')
        if isinstance(e, ast.DictComp) and len(e.generators) == 1 and not e.generators[0].is_async:
            g = e.generators[0]
            out: dict[Any, Any] = {}
            for item in self.iterate(g.iter, env):
                env2 = dict(env)
                self.bind(g.target, item, env2)
                if all(self.truth(self.ev(c, env2), c) for c in g.ifs):
                    k = self.ev(e.key, env2)
                    self.known(k, e)
                    out[k] = self.ev(e.value, env2)     # a key met again: the later entry wins, as in Python
            return out
        if isinstance(e, ast.Dict) and all(k is not None for k in e.keys):
            return {self.ev(k, env): self.ev(v, env) for k, v in zip(e.keys, e.values)}      # type: ignore[arg-type]
        if isinstance(e, ast.Call):
            m = self.followed_method(e)
            if m is not None:
                return self.call_method(m, e, env)
            if isinstance(e.func, ast.Attribute) and e.func.attr in ('startswith', 'endswith') and len(e.args) == 1 and not e.keywords:
                try:
                    s = self.ev(e.func.value, env)
                    a = self.ev(e.args[0], env)
                except TranslateError:
                    return OPAQUE
                if isinstance(s, str) and isinstance(a, (str, tuple)):
                    return getattr(s, e.func.attr)(a)
            if isinstance(e.func, ast.Attribute) and e.func.attr == 'get' and len(e.args) in (1, 2) and not e.keywords:
                try:
                    base = self.ev(e.func.value, env)
                except TranslateError:
                    return OPAQUE
                if isinstance(base, dict):
                    k = self.ev(e.args[0], env)
                    self.known(k, e)
                    return base.get(k, self.ev(e.args[1], env) if len(e.args) == 2 else None)
            if isinstance(e.func, ast.Name) and e.func.id in ('int', 'bool') and len(e.args) == 1 and not e.keywords:
                v = self.ev(e.args[0], env)
                self.known(v, e)
                if isinstance(v, (int, float, bool)):
                    return int(v) if e.func.id == 'int' else bool(v)
            return OPAQUE
        if isinstance(e, ast.BinOp):
            l, r = self.ev(e.left, env), self.ev(e.right, env)
            if isinstance(l, Opaque) or isinstance(r, Opaque):
                return OPAQUE
            if isinstance(l, (int, float)) and isinstance(r, (int, float)) and not isinstance(l, bool) and not isinstance(r, bool):
                try:
                    if isinstance(e.op, ast.Add):
                        return l + r
                    if isinstance(e.op, ast.Sub):
                        return l - r
                    if isinstance(e.op, ast.Mult):
                        return l * r
                    if isinstance(e.op, ast.Div):
                        return l / r
                    if isinstance(e.op, ast.FloorDiv):
                        return l // r
                except ZeroDivisionError:
                    raise _Raise('ZeroDivisionError') from None
        if isinstance(e, (ast.JoinedStr, ast.List, ast.ListComp, ast.GeneratorExp, ast.Starred)):
            return OPAQUE
        raise TranslateError(f'line {e.lineno}: expression {ast.unparse(e)[:60]!r} not in the interpreted language')

    def followed_method(self, c: ast.Call) -> ast.FunctionDef | None:
        """`self.m(...)` where m is a method of BSP that reads or writes what is followed: its body is interpreted (a helper extracted
        from the reader / writer)."""
        if isinstance(c.func, ast.Attribute) and isinstance(c.func.value, ast.Name) and c.func.value.id == 'self':
            m = next((x for x in self.bsp_class.body if isinstance(x, ast.FunctionDef) and x.name == c.func.attr), None)
            if m is not None and any(isinstance(x, ast.Attribute) and x.attr in self.TRACKED_SELF for x in ast.walk(m)):
                return m
        return None

    def call_method(self, m: ast.FunctionDef, c: ast.Call, env: dict[str, Any]) -> Any:
        if self.depth > 4:
            raise TranslateError(f'line {c.lineno}: helper methods nested too deeply')
        if m.args.vararg or m.args.kwarg or m.args.kwonlyargs or any(isinstance(a, ast.Starred) for a in c.args) \
                or any(isinstance(d, ast.Name) and d.id in ('staticmethod', 'classmethod', 'property') for d in m.decorator_list):
            raise TranslateError(f'line {c.lineno}: call of self.{m.name} not followed')
        if any(isinstance(x, (ast.Yield, ast.YieldFrom)) for x in ast.walk(m)):
            raise TranslateError(f'line {c.lineno}: self.{m.name} is a generator')
        params = [a.arg for a in m.args.args[1:]]
        env2: dict[str, Any] = {k: v for k, v in env.items() if k.startswith('self.')}
        env2['!pinned'], env2['!tracked'] = (), tuple(params)
        vals = [self.ev(a, env) for a in c.args]
        kw = {k.arg: self.ev(k.value, env) for k in c.keywords if k.arg}
        defaults = m.args.defaults
        for i, p in enumerate(params):
            if i < len(vals):
                env2[p] = vals[i]
            elif p in kw:
                env2[p] = kw[p]
            elif i >= len(params) - len(defaults):
                env2[p] = self.ev(defaults[i - (len(params) - len(defaults))], {})
            else:
                raise TranslateError(f'line {c.lineno}: call of self.{m.name}: parameter {p} not given')
        self.depth += 1
        saved = self.cur_env
        self.cur_env = env2
        ret = None
        try:
            self.run(m.body, env2)
        except _Return as r:
            ret = r.value
        except _Stop:
            raise TranslateError(f'self.{m.name}: a loop that is not over an enum reads a followed value') from None
        finally:
            self.depth -= 1
            self.cur_env = saved
        for k, v in env2.items():
            if k.startswith('self.'):
                env[k] = v
        return ret

    def known(self, v: Any, e: ast.AST) -> None:
        vs = v if isinstance(v, tuple) else (v,)
        if any(isinstance(x, Opaque) for x in vs):
            raise TranslateError(f'line {getattr(e, "lineno", 0)}: {ast.unparse(e)[:60]!r} depends on a value the interpreter does not follow')

    def truth(self, v: Any, e: ast.AST) -> bool:
        self.known(v, e)
        if isinstance(v, (Member, EnumClass)):
            return True
        return bool(v)

    def compare(self, op: ast.cmpop, a: Any, b: Any, e: ast.AST) -> bool:
        self.known(a, e)
        self.known(b, e)
        if isinstance(op, (ast.Is, ast.IsNot, ast.Eq, ast.NotEq)):
            if isinstance(a, Member) or isinstance(b, Member):
                same = a is b                  # enum members: identity = equality; a member never equals a number
            elif isinstance(op, (ast.Is, ast.IsNot)):
                if a is None or b is None or isinstance(a, bool) or isinstance(b, bool):
                    same = a is b
                else:
                    raise TranslateError(f'line {e.lineno}: `is` between values that are not enum members / None / bool')     # type: ignore[attr-defined]
            else:
                same = a == b
            return same if isinstance(op, (ast.Is, ast.Eq)) else not same
        if isinstance(op, (ast.In, ast.NotIn)):
            if isinstance(b, (tuple, dict)):
                r = any((a is x) if isinstance(x, Member) or isinstance(a, Member) else a == x for x in b)
                return r if isinstance(op, ast.In) else not r
            raise TranslateError(f'line {e.lineno}: `in` over {type(b).__name__}')     # type: ignore[attr-defined]
        if isinstance(a, (int, float)) and isinstance(b, (int, float)):
            if isinstance(op, ast.Lt):
                return a < b
            if isinstance(op, ast.LtE):
                return a <= b
            if isinstance(op, ast.Gt):
                return a > b
            if isinstance(op, ast.GtE):
                return a >= b
        raise TranslateError(f'line {e.lineno}: comparison {ast.unparse(e)[:60]!r} not in the interpreted language')     # type: ignore[attr-defined]

    def iterate(self, it: ast.expr, env: dict[str, Any]) -> list[Any]:
        if isinstance(it, ast.Call) and isinstance(it.func, ast.Name) and it.func.id in ('list', 'tuple', 'iter') and len(it.args) == 1:
            return self.iterate(it.args[0], env)
        if isinstance(it, ast.Call) and isinstance(it.func, ast.Name) and it.func.id == 'reversed' and len(it.args) == 1:
            return list(reversed(self.iterate(it.args[0], env)))
        v = self.ev(it, env)
        if isinstance(v, EnumClass):
            return list(v.members)
        if isinstance(v, (tuple, list)):
            return list(v)
        if isinstance(v, dict):
            return list(v)
        raise TranslateError(f'line {it.lineno}: iteration over {ast.unparse(it)[:50]!r} not followed')

    def bind(self, t: ast.expr, v: Any, env: dict[str, Any]) -> None:
        if isinstance(t, ast.Name):
            if t.id in env.get('!pinned', ()) and isinstance(v, Opaque):
                return      # an input of the table (record count, record size): its value is the table's coordinate
            env[t.id] = v
        elif isinstance(t, ast.Attribute) and isinstance(t.value, ast.Name) and t.value.id == 'self':
            if isinstance(v, Opaque):
                raise TranslateError(f'line {t.lineno}: self.{t.attr} receives a value the interpreter does not follow')
            env['self.' + t.attr] = v
        elif isinstance(t, ast.Attribute) and isinstance(self.ev(t.value, env), GameLumpRef):
            # the header number of a game lump, as it will be written by save()
            k = self.ev(t.value, env).key
            if t.attr != 'version' or isinstance(v, Opaque) or not isinstance(v, int) or isinstance(v, bool):
                raise TranslateError(f'line {t.lineno}: {ast.unparse(t)[:50]} receives a value the interpreter does not follow')
            env['self.game_lumps.version:' + k.decode('ascii', 'replace')] = v
        elif isinstance(t, (ast.Tuple, ast.List)):
            if isinstance(v, Opaque):
                for x in t.elts:
                    self.bind(x, OPAQUE, env)
            elif isinstance(v, tuple) and len(v) == len(t.elts):
                for x, y in zip(t.elts, v):
                    self.bind(x, y, env)
            else:
                raise TranslateError(f'line {t.lineno}: unpacking not followed')
        else:
            raise TranslateError(f'line {t.lineno}: assignment target {ast.unparse(t)[:40]!r} not followed')

    # ------------------------------------------------------------------ statements
    TRACKED_SELF = ('static_prop_version',)

    def mentions_tracked(self, st: ast.AST, env: dict[str, Any]) -> tuple[bool, bool]:
        """(reads, writes) a followed value: self.static_prop_version, or a local that currently holds an enum member / is an input"""
        reads = writes = False
        for n in ast.walk(st):
            if isinstance(n, ast.Attribute) and isinstance(n.value, ast.Name) and n.value.id == 'self' and n.attr in self.TRACKED_SELF:
                if isinstance(n.ctx, ast.Store):
                    writes = True
                else:
                    reads = True
            if isinstance(n, ast.Name) and n.id in env and (isinstance(env[n.id], Member) or n.id in env.get('!tracked', ())):
                if isinstance(n.ctx, ast.Store):
                    writes = True
                else:
                    reads = True
        return reads, writes

    def run(self, body: list[ast.stmt], env: dict[str, Any]) -> None:
        for st in body:
            self.stmt(st, env)

    def stmt(self, st: ast.stmt, env: dict[str, Any]) -> None:
        if isinstance(st, ast.Expr):
            if isinstance(st.value, ast.Constant):
                return
            if isinstance(st.value, ast.Call) and self.followed_method(st.value) is not None:
                self.ev(st.value, env)
                return
            r, w = self.mentions_tracked(st, env)
            if isinstance(st.value, ast.Call) and not w:
                self.opaque_calls_in(st.value)
                return
            raise TranslateError(f'line {st.lineno}: expression statement not followed')
        if isinstance(st, ast.Pass):
            return
        if isinstance(st, ast.Assign):
            v = self.ev(st.value, env)
            if isinstance(v, Opaque):
                self.opaque_calls_in(st.value)
            for t in st.targets:
                self.bind(t, v, env)
            return
        if isinstance(st, ast.AnnAssign):
            if st.value is not None:
                v = self.ev(st.value, env)
                if isinstance(v, Opaque):
                    self.opaque_calls_in(st.value)
                self.bind(st.target, v, env)
            return
        if isinstance(st, ast.If):
            self.run(st.body if self.truth(self.ev(st.test, env), st.test) else st.orelse, env)
            return
        if isinstance(st, ast.For):
            is_enum = False
            try:
                items = self.iterate(st.iter, env)
                is_enum = all(isinstance(x, Member) for x in items) and bool(items)
            except TranslateError:
                items = []
            if is_enum:
                broke = False
                for x in items:
                    self.bind(st.target, x, env)
                    try:
                        self.run(st.body, env)
                    except _Break:
                        broke = True
                        break
                    except _Continue:
                        continue
                if not broke:
                    self.run(st.orelse, env)
                return
            r, w = self.mentions_tracked(st, env)
            if w:
                raise TranslateError(f'line {st.lineno}: a loop that is not over an enum assigns a followed value')
            if r:
                raise _Stop()        # the loop over the records: entered with the state reached here
            self.opaque_calls_in(st)
            for n in ast.walk(st):
                if isinstance(n, ast.Name) and isinstance(n.ctx, ast.Store):
                    self.bind(n, OPAQUE, env)
            return
        if isinstance(st, ast.Break):
            raise _Break()
        if isinstance(st, ast.Continue):
            raise _Continue()
        if isinstance(st, ast.Return):
            raise _Return(self.ev(st.value, env) if st.value is not None else None)
        if isinstance(st, ast.Raise):
            kind = 'Exception'
            if isinstance(st.exc, ast.Call) and isinstance(st.exc.func, ast.Name):
                kind = st.exc.func.id
            elif isinstance(st.exc, ast.Name):
                kind = st.exc.id
            raise _Raise(kind)
        if isinstance(st, ast.Try) and not st.finalbody:
            try:
                self.run(st.body, env)
            except _Raise as r:
                for h in st.handlers:
                    names = []
                    if h.type is None:
                        names = [r.kind]
                    elif isinstance(h.type, ast.Name):
                        names = [h.type.id]
                    elif isinstance(h.type, ast.Tuple):
                        names = [x.id for x in h.type.elts if isinstance(x, ast.Name)]
                    if r.kind in names or 'Exception' in names or (r.kind == 'KeyError' and 'LookupError' in names):
                        self.run(h.body, env)
                        return
                raise
            else:
                self.run(st.orelse, env)
            return
        raise TranslateError(f'line {st.lineno}: statement {type(st).__name__} not in the interpreted language')

    # calls whose result is not followed must not be able to change what is followed
    OPAQUE_FUNCS = {'struct_read', 'BytesIO', 'list', 'map', 'len', 'sorted', 'zip', 'find_or_insert', 'find_or_extend', 'write_array', 'print',
                    'struct.pack', 'struct.unpack', 'struct.calcsize', 'range', 'enumerate', 'tuple', 'set', 'iter', 'next', 'min', 'max'}
    OPAQUE_METHODS = {'tell', 'read', 'write', 'append', 'extend', 'seek', 'getvalue', '__getitem__', 'format', 'pack', 'unpack', 'debug', 'info', 'warning'}

    def opaque_calls_in(self, node: ast.AST) -> None:
        for n in ast.walk(node):
            if isinstance(n, ast.Call):
                self.opaque_call_ok(n)

    def opaque_call_ok(self, c: ast.Call) -> None:
        f = ast.unparse(c.func)
        if f in self.OPAQUE_FUNCS:
            return
        if isinstance(c.func, ast.Name):
            if isinstance(self.cur_env.get(c.func.id), Opaque):
                return      # a local closure (find_or_insert ...): made by a call that was itself admitted
            if c.func.id in self.module_functions and not any(isinstance(a, ast.Name) and a.id == 'self' for a in c.args):
                return      # a module-level function that is not handed the BSP object
        if isinstance(c.func, ast.Attribute) and isinstance(c.func.value, ast.Name) and c.func.value.id == 'self':
            # a method of BSP: it may not touch what is followed
            m = next((x for x in self.bsp_class.body if isinstance(x, ast.FunctionDef) and x.name == c.func.attr), None)
            if m is not None and not any(isinstance(x, ast.Attribute) and x.attr in self.TRACKED_SELF for x in ast.walk(m)):
                return
            raise TranslateError(f'line {c.lineno}: call of self.{c.func.attr}: may change the recorded static-prop format')
        if isinstance(c.func, ast.Attribute) and c.func.attr in self.OPAQUE_METHODS:
            return
        raise TranslateError(f'line {c.lineno}: call of {f[:40]} not followed')


def _fn(cls: ast.ClassDef, name: str) -> ast.FunctionDef:
    for n in cls.body:
        if isinstance(n, ast.FunctionDef) and n.name == name:
            return n
    raise TranslateError(f'BSP.{name} not found')


def _reader_inputs(fn: ast.FunctionDef) -> tuple[str, str, str]:
    """names of the header-number parameter, the record-count variable and the record-size variable of `_lmp_read_props`"""
    params = [a.arg for a in fn.args.args]
    if len(params) != 3 or params[0] != 'self':
        raise TranslateError('_lmp_read_props: parameters are not (self, version number, data)')
    hdr = params[1]
    count = None
    for n in ast.walk(fn):
        if isinstance(n, ast.For) and isinstance(n.iter, ast.Call) and ast.unparse(n.iter.func) == 'range' and len(n.iter.args) == 1 \
                and isinstance(n.iter.args[0], ast.Name) and any(isinstance(x, ast.Call) and ast.unparse(x.func) == 'struct_read' for x in ast.walk(n)):
            count = n.iter.args[0].id
    if count is None:
        raise TranslateError('_lmp_read_props: the loop `for i in range(<count>)` over the records not found')
    size = None
    for n in ast.walk(fn):
        if isinstance(n, ast.Assign) and len(n.targets) == 1 and isinstance(n.targets[0], ast.Name) and isinstance(n.value, ast.BinOp) \
                and isinstance(n.value.op, (ast.Div, ast.FloorDiv)) and isinstance(n.value.right, ast.Name) and n.value.right.id == count \
                and 'len(' in ast.unparse(n.value.left) and '.tell()' in ast.unparse(n.value.left):
            if size is not None:
                raise TranslateError('_lmp_read_props: the record size is computed twice')
            size = n.targets[0].id
    if size is None:
        raise TranslateError('_lmp_read_props: record size `(len(data) - pos) / <count>` not found')
    return hdr, count, size


def name_of(v: Any) -> str:
    if isinstance(v, Member):
        return v.name
    if v is None:
        return ''
    raise TranslateError(f'a followed value is {v!r}, not a static-prop format')


def tables(tree: ast.Module) -> dict[str, Any]:
    ip = Interp(tree)
    cls = ip.bsp_class
    rfn, wfn = _fn(cls, '_lmp_read_props'), _fn(cls, '_lmp_write_props')
    hdr_name, count_name, size_name = _reader_inputs(rfn)
    unknown = ip.spv.by_name.get('UNKNOWN')
    if unknown is None:
        raise TranslateError('StaticPropVersion.UNKNOWN not found')
    members = [m for m in ip.spv.members if m is not unknown]
    for m in members:
        for a in ('version', 'size'):
            if not isinstance(m.attrs.get(a), int):
                raise TranslateError(f'StaticPropVersion.{m.name}.{a} is not an integer')
    bsp_versions: list[Any] = list(ip.versions.members)
    other = max(m.attrs['value'] for m in ip.versions.members) + 1000        # a number VERSIONS does not name: BSP keeps the plain int
    sizes = sorted({m.attrs['size'] for m in members}) + [1]
    named = [unknown] + members

    def run_reader(bv: Any, hdr: int, count: int, size: int, pre: Member) -> tuple[str, str, str, int]:
        env: dict[str, Any] = {'self.static_prop_version': pre, 'self.version': bv, hdr_name: hdr, count_name: count, size_name: size,
                               '!pinned': (count_name, size_name), '!tracked': (hdr_name,), rfn.args.args[2].arg: OPAQUE}
        ip.cur_env = env
        try:
            ip.run(rfn.body, env)
            if count:
                raise TranslateError('_lmp_read_props: the record loop is not reached for a lump with records')
        except _Return:
            if count:
                raise TranslateError('_lmp_read_props: returns before the record loop for a lump with records') from None
        except _Stop:
            if not count:
                raise TranslateError('_lmp_read_props: the record loop is entered for an empty lump') from None
        except _Raise as r:
            return ('!' + r.kind, '', '', 0)
        except (_Break, _Continue):
            raise TranslateError('_lmp_read_props: break / continue outside a loop') from None
        rec = env['self.static_prop_version']
        if not count:
            return (name_of(rec) if rec is not unknown else '', '', '', 0)
        dec = [v for k, v in env.items() if isinstance(v, Member) and not k.startswith('self.') and not k.startswith('!') and k != hdr_name]
        # the format the record loop decodes with: the local(s) holding a format at that point must agree
        dn = {name_of(v) for v in dec if v.cls == 'StaticPropVersion'}
        if len(dn) != 1:
            raise TranslateError(f'_lmp_read_props: the record loop is entered with {len(dn)} different formats in locals')
        h = env[hdr_name]
        if not isinstance(h, int):
            raise TranslateError('_lmp_read_props: the ladder number is not an integer at the record loop')
        return (name_of(rec) if rec is not unknown else '', dn.pop().replace(unknown.name, ''), 'ok', h)

    empty_rows, sized_rows = [], []
    for bv in bsp_versions + [other]:
        bvn = bv.attrs['value'] if isinstance(bv, Member) else bv
        for hdr in HDRS:
            for pre in named:
                r = run_reader(bv, hdr, 0, 0, pre)
                empty_rows.append((bvn, hdr, '' if pre is unknown else pre.name, r[0]))
                for size in sizes:
                    if pre is not unknown and (size != pre.attrs['size'] or hdr != pre.attrs['version']):
                        continue        # a format named by the caller: only its own (header number, size) is tabulated
                    r = run_reader(bv, hdr, 1, size, pre)
                    sized_rows.append((bvn, hdr, size, '' if pre is unknown else pre.name, r[0], r[1], r[3]))
    writer_rows = []
    for pre in named:
        env = {'self.static_prop_version': pre, 'self.version': bsp_versions[0], '!pinned': (), '!tracked': ()}
        for a in wfn.args.args[1:]:
            env[a.arg] = OPAQUE
        ip.cur_env = env
        try:
            ip.run(wfn.body, env)
            raise TranslateError('_lmp_write_props: the loop over the records is not reached')
        except _Stop:
            pass
        except _Return:
            raise TranslateError('_lmp_write_props: returns before the records are written') from None
        except _Raise as r:
            writer_rows.append(('' if pre is unknown else pre.name, '!' + r.kind, '', 0, 255))
            continue
        rec = env['self.static_prop_version']
        dn = {name_of(v) for k, v in env.items() if isinstance(v, Member) and not k.startswith('self.') and v.cls == 'StaticPropVersion'}
        if len(dn) != 1:
            raise TranslateError(f'_lmp_write_props: the record loop is entered with {len(dn)} different formats in locals')
        nums = {k: v for k, v in env.items() if isinstance(v, int) and not isinstance(v, bool) and not k.startswith('!') and not k.startswith('self.')}
        if len(nums) != 1:
            raise TranslateError(f'_lmp_write_props: expected one integer local (the ladder number) at the record loop, found {sorted(nums)}')
        # the header number save() will write: set by the writer, or left as the file that was opened had it (255)
        hw = env.get('self.game_lumps.version:sprp', 255)
        if [k for k in env if k.startswith('self.game_lumps.version:') and k != 'self.game_lumps.version:sprp']:
            raise TranslateError('_lmp_write_props: sets the header number of another game lump')
        writer_rows.append(('' if pre is unknown else pre.name, name_of(rec), dn.pop(), next(iter(nums.values())), hw))
    return {'members': [(m.name, m.attrs['version'], m.attrs['size'], m.attrs.get('variant', '')) for m in members],
            'bsp_versions': [m.attrs['value'] for m in ip.versions.members] + [other],
            'bsp_version_names': {m.attrs['value']: sorted(k for k, v in ip.versions.by_name.items() if v is m) for m in ip.versions.members},
            'sizes': sizes, 'empty': empty_rows, 'sized': sized_rows, 'writer': writer_rows, 'unknown': unknown.name,
            'default': name_of(ip.spv.by_name['DEFAULT']) if 'DEFAULT' in ip.spv.by_name else ''}


def generate(tree: ast.Module) -> tuple[str, dict[str, Any]]:
    t = tables(tree)
    # formats as numbers: 0 = none (UNKNOWN), k = k-th member in definition order, 255 = the call raises
    idx = {n: k + 1 for k, (n, _, _, _) in enumerate(t['members'])}
    idx[''] = 0

    def f(nm: str) -> str:
        return '255' if nm.startswith('!') else str(idx[nm])
    if len(idx) > 200:
        raise TranslateError('more than 200 static-prop formats')

    def rows(rs: list[str], per: int) -> str:
        return ';\n'.join('  ' + '; '.join(rs[i:i + per]) for i in range(0, len(rs), per))
    L = ['(* static-prop format selection, tabulated by translate/c11_propver.py by executing the heads of _lmp_read_props / _lmp_write_props *)',
         '(* formats: 0 = none (UNKNOWN), k = k-th member below, 255 = raises *)',
         'Definition pv_members : list pv_member := [' + '; '.join(f'("{n}", {v}, {sz})' for n, v, sz, _ in t['members']) + ']%N.',
         'Definition pv_bsp_versions : list N := [' + '; '.join(str(v) for v in t['bsp_versions']) + ']%N.',
         '(* BSP version, header number, format named beforehand, format recorded afterwards *)',
         'Definition pv_empty : list pv_empty_row := [', rows([f'({b}, {h}, {f(p)}, {f(r)})' for b, h, p, r in t['empty']], 10), ']%N.',
         '(* BSP version, header number, record size, format named beforehand, format recorded, format the records are decoded with, ladder number *)',
         'Definition pv_sized : list pv_sized_row := [',
         rows([f'({b}, {h}, {sz}, {f(p)}, {f(r)}, {f(d)}, {n})' for b, h, sz, p, r, d, n in t['sized']], 6), ']%N.',
         '(* format recorded before, format recorded afterwards, format the records are written in, ladder number, header number set (255 = left as it was) *)',
         'Definition pv_writer : list pv_writer_row := [' + '; '.join(f'({f(p)}, {f(r)}, {f(w)}, {n}, {hw})' for p, r, w, n, hw in t['writer']) + ']%N.',
         'Definition pv_tables : pv_cfg := (pv_members, pv_bsp_versions, pv_empty, pv_sized, pv_writer).']
    # the full tables stay in this module (checks/c11.py compares them with the implementation); the evidence gets a summary
    global LAST_TABLES
    LAST_TABLES = t
    summary = {'members': t['members'], 'bsp_versions': t['bsp_versions'], 'sizes': t['sizes'], 'writer': t['writer'], 'unknown': t['unknown'],
               'default': t['default'], 'rows': {'empty': len(t['empty']), 'sized': len(t['sized']), 'writer': len(t['writer'])},
               'empty_lump_guess(bsp version, header number -> format; nothing named)':
                   [(b, h, r) for b, h, p, r in t['empty'] if not p and not r.startswith('!') and b in (20, 21)]}
    return '\n'.join(L), {'prop_version_choice': summary}
