"""C06 round 5: aliases between containers of a map object, read from vmf.py.

`VMF.brushes` and `VMF.spawn.solids` must be ONE list object: the public adders work on the first, `export` writes the second.
Until round 4 this was a hand table (`ALIAS_ATTRS` in c06_lite.py).  Here it becomes a generated object:

  * every constructor (`__init__`) of the object-level classes is executed symbolically over abstract object identities
    (Fmt/VmfAlias.v: rexp); two access paths `self.a` / `self.b.c` that hold the same NEW object when the constructor returns
    are an alias pair the constructor establishes  (gen_alias_pairs; compared with the hand table by the check);
  * every function of the class that hands out an instance (the constructor itself; static / class methods that call the class,
    such as `VMF.parse`) is executed the same way; for each alias pair the two reference expressions the paths hold at every
    `return` are emitted (gen_alias_rows).  The obligation `alias_same l r` (all worlds over the atoms of the two expressions,
    evaluated in the kernel) says the two paths hold the same object whatever is truthy and whichever opaque condition holds --
    `x or []`, `list(x)`, `x[:]`, a comprehension or `x.copy()` on one side break it;
  * every statement of the module that rebinds an attribute named in an alias pair, with the function it is in
    (gen_alias_rebinds): only functions that make a map, and constructors, may do that.

Symbolic execution: locals and attribute stores are tracked; reading an attribute that was not stored gives "the value it had"
(one object per (object, attribute), so reading twice gives the same object); `a or b`, `a and b`, `a if c else b` and `if`
statements become conditionals (truthiness of a tracked object, or an opaque condition with a number of its own per
occurrence); a read or a store through a conditional reference distributes over its branches; every other expression (calls,
displays, comprehensions, slices, subscripts ...) is a NEW object; loops and `try` are joined with an opaque condition; a path
that raises is dropped.  Assumed (listed in the evidence): a call does not rebind attributes of objects that already exist
(gen_alias_rebinds checks that for the attributes that matter), and the truthiness of an object does not change between two
tests inside one of these functions.  Fail-closed: statement kinds that are not understood raise TranslateError."""
from __future__ import annotations

import ast
from typing import Any, Callable

from harness.common import TranslateError, src_text

CLASSES = ('VMF', 'Entity', 'Solid', 'Side', 'VisGroup', 'EntityGroup', 'Camera', 'Cordon')
R = tuple   # ('L', n) | ('T', c, a, b) | ('O', k, a, b)


def mk_t(c: R, a: R, b: R) -> R:
    return a if a == b else ('T', c, a, b)


def mk_o(k: int, a: R, b: R) -> R:
    return a if a == b else ('O', k, a, b)


class State:
    def __init__(self, env: dict[str, R] | None = None, heap: dict[tuple[int, str], R] | None = None) -> None:
        self.env = dict(env or {})
        self.heap = dict(heap or {})

    def copy(self) -> 'State':
        return State(self.env, self.heap)


class Exec:
    """Symbolic execution of one function body."""

    def __init__(self, fname: str) -> None:
        self.fname = fname
        self.desc: list[str] = []          # loc -> description
        self.kind: list[str] = []          # loc -> 'new' | 'old' (value an attribute had) | 'name' (parameter / global) | 'const'
        self.memo: dict[Any, R] = {}
        self.nopq = 0
        self.exits: list[tuple[State, R | None]] = []

    # -- objects
    def loc(self, desc: str, kind: str, key: Any = None) -> R:
        if key is not None and key in self.memo:
            return self.memo[key]
        self.desc.append(desc)
        self.kind.append(kind)
        r = ('L', len(self.desc) - 1)
        if key is not None:
            self.memo[key] = r
        return r

    def opaque(self) -> int:
        self.nopq += 1
        return self.nopq - 1

    def read(self, st: State, base: R, attr: str) -> R:
        if base[0] == 'L':
            key = (base[1], attr)
            if key in st.heap:
                return st.heap[key]
            return self.loc(f'{self.desc[base[1]]}.{attr}', 'old', ('init', key))
        if base[0] == 'T':
            return mk_t(base[1], self.read(st, base[2], attr), self.read(st, base[3], attr))
        return mk_o(base[1], self.read(st, base[2], attr), self.read(st, base[3], attr))

    def store(self, st: State, base: R, attr: str, val: R, guard: Callable[[R, R], R] = lambda new, old: new) -> None:
        if base[0] == 'L':
            old = self.read(st, base, attr)
            st.heap[(base[1], attr)] = guard(val, old)
        elif base[0] == 'T':
            c = base[1]
            self.store(st, base[2], attr, val, lambda new, old: guard(mk_t(c, new, old), old))
            self.store(st, base[3], attr, val, lambda new, old: guard(mk_t(c, old, new), old))
        else:
            k = base[1]
            self.store(st, base[2], attr, val, lambda new, old: guard(mk_o(k, new, old), old))
            self.store(st, base[3], attr, val, lambda new, old: guard(mk_o(k, old, new), old))

    # -- expressions
    def ev(self, st: State, e: ast.AST) -> R:
        if isinstance(e, ast.Name):
            if e.id in st.env:
                return st.env[e.id]
            return self.loc(e.id, 'name', ('name', e.id))
        if isinstance(e, ast.Attribute):
            return self.read(st, self.ev(st, e.value), e.attr)
        if isinstance(e, ast.Constant):
            return self.loc(repr(e.value), 'const', ('const', repr(e.value)))
        if isinstance(e, ast.BoolOp):
            vals = [self.ev(st, v) for v in e.values]
            out = vals[-1]
            for v in reversed(vals[:-1]):
                out = mk_t(v, v, out) if isinstance(e.op, ast.Or) else mk_t(v, out, v)
            return out
        if isinstance(e, ast.IfExp):
            return self.cond(st, e.test)(self.ev(st, e.body), self.ev(st, e.orelse))
        if isinstance(e, ast.NamedExpr) and isinstance(e.target, ast.Name):
            v = self.ev(st, e.value)
            st.env[e.target.id] = v
            return v
        if any(isinstance(x, ast.NamedExpr) for x in ast.walk(e)):
            raise TranslateError(f'{self.fname}: assignment expression inside {ast.unparse(e)[:60]!r}')
        # calls, displays, comprehensions, slices, subscripts, arithmetic, f-strings ...: a new object
        return self.loc(ast.unparse(e)[:48], 'new')

    def cond(self, st: State, t: ast.AST) -> Callable[[R, R], R]:
        """test expression -> function (value when true, value when false) -> conditional value"""
        if isinstance(t, ast.UnaryOp) and isinstance(t.op, ast.Not):
            f = self.cond(st, t.operand)
            return lambda a, b: f(b, a)
        if isinstance(t, ast.BoolOp):
            fs = [self.cond(st, v) for v in t.values]
            if isinstance(t.op, ast.And):
                def f_and(a: R, b: R) -> R:
                    out = a
                    for f in reversed(fs):
                        out = f(out, b)
                    return out
                return f_and

            def f_or(a: R, b: R) -> R:
                out = b
                for f in reversed(fs):
                    out = f(a, out)
                return out
            return f_or
        if isinstance(t, (ast.Name, ast.Attribute)):
            c = self.ev(st, t)
            return lambda a, b: mk_t(c, a, b)
        k = self.opaque()
        return lambda a, b: mk_o(k, a, b)

    # -- statements
    def merge(self, f: Callable[[R, R], R], s1: State | None, s2: State | None) -> State | None:
        if s1 is None:
            return s2
        if s2 is None:
            return s1
        out = State()
        for k in set(s1.env) | set(s2.env):
            a = s1.env.get(k) or self.loc(k, 'name', ('name', k))
            b = s2.env.get(k) or self.loc(k, 'name', ('name', k))
            out.env[k] = f(a, b)
        for key in set(s1.heap) | set(s2.heap):
            a = s1.heap.get(key) or self.read(s1, ('L', key[0]), key[1])
            b = s2.heap.get(key) or self.read(s2, ('L', key[0]), key[1])
            out.heap[key] = f(a, b)
        return out

    def assign(self, st: State, target: ast.AST, val: R | None) -> None:
        if isinstance(target, ast.Name):
            st.env[target.id] = val if val is not None else self.loc(target.id, 'new')
        elif isinstance(target, ast.Attribute):
            self.store(st, self.ev(st, target.value), target.attr, val if val is not None else self.loc(ast.unparse(target), 'new'))
        elif isinstance(target, (ast.Tuple, ast.List)):
            for t in target.elts:
                self.assign(st, t.value if isinstance(t, ast.Starred) else t, None)
        elif isinstance(target, ast.Subscript):
            pass          # an item of a container, not an attribute
        else:
            raise TranslateError(f'{self.fname}: assignment target {ast.unparse(target)!r}')

    def block(self, st: State | None, body: list[ast.stmt]) -> State | None:
        for s in body:
            if st is None:
                return None
            st = self.stmt(st, s)
        return st

    def stmt(self, st: State, s: ast.stmt) -> State | None:
        if isinstance(s, ast.Assign):
            v = self.ev(st, s.value)
            for t in s.targets:
                self.assign(st, t, v)
            return st
        if isinstance(s, ast.AnnAssign):
            if s.value is not None:
                self.assign(st, s.target, self.ev(st, s.value))
            return st
        if isinstance(s, ast.AugAssign):
            self.assign(st, s.target, None)
            return st
        if isinstance(s, ast.Expr):
            self.ev(st, s.value)
            return st
        if isinstance(s, (ast.Pass, ast.Assert, ast.Import, ast.ImportFrom, ast.FunctionDef, ast.ClassDef)):
            return st
        if isinstance(s, ast.Delete):
            for t in s.targets:
                if isinstance(t, ast.Name):
                    st.env.pop(t.id, None)
                else:
                    self.assign(st, t, None)
            return st
        if isinstance(s, ast.Return):
            self.exits.append((st.copy(), None if s.value is None else self.ev(st, s.value)))
            return None
        if isinstance(s, ast.Raise):
            return None
        if isinstance(s, ast.If):
            f = self.cond(st, s.test)
            return self.merge(f, self.block(st.copy(), s.body), self.block(st.copy(), s.orelse))
        if isinstance(s, (ast.For, ast.While)):
            k = self.opaque()
            once = st.copy()
            if isinstance(s, ast.For):
                self.assign(once, s.target, None)
            once = self.block(once, s.body)
            joined = self.merge(lambda a, b: mk_o(k, a, b), once, st.copy())
            return self.block(joined, s.orelse)
        if isinstance(s, ast.With):
            for it in s.items:
                if it.optional_vars is not None:
                    self.assign(st, it.optional_vars, None)
            return self.block(st, s.body)
        if isinstance(s, ast.Try):
            outs = [self.block(self.block(st.copy(), s.body), s.orelse)]
            for h in s.handlers:
                hs = st.copy()
                if h.name:
                    hs.env[h.name] = self.loc(h.name, 'new')
                outs.append(self.block(hs, h.body))
            cur = outs[0]
            for o in outs[1:]:
                k = self.opaque()
                cur = self.merge(lambda a, b, k=k: mk_o(k, a, b), cur, o)
            return self.block(cur, s.finalbody)
        raise TranslateError(f'{self.fname}: statement {type(s).__name__} not understood')


def _classes(tree: ast.Module) -> dict[str, ast.ClassDef]:
    return {n.name: n for n in tree.body if isinstance(n, ast.ClassDef)}


def _methods(c: ast.ClassDef) -> dict[str, ast.FunctionDef]:
    out: dict[str, ast.FunctionDef] = {}
    for m in c.body:
        if isinstance(m, ast.FunctionDef):
            # the implementation of an overloaded method is the last definition
            out[m.name] = m
    return out


def _decorators(fn: ast.FunctionDef) -> set[str]:
    return {ast.unparse(d).split('.')[-1] for d in fn.decorator_list}


def run_function(cname: str, fn: ast.FunctionDef) -> tuple[Exec, list[tuple[State, R]]]:
    """Execute a constructor (`self` is the object made) or a static / class method; returns the exits with the object handed out."""
    ex = Exec(f'{cname}.{fn.name}')
    st = State()
    params = [a.arg for a in fn.args.posonlyargs + fn.args.args + fn.args.kwonlyargs]
    if fn.args.vararg:
        params.append(fn.args.vararg.arg)
    if fn.args.kwarg:
        params.append(fn.args.kwarg.arg)
    for p in params:
        st.env[p] = ex.loc(p, 'new' if (fn.name == '__init__' and p == params[0]) else 'name')
    end = ex.block(st, fn.body)
    exits: list[tuple[State, R]] = []
    if fn.name == '__init__':
        me = st.env[params[0]] if params else None
        for s, _v in ex.exits + ([(end, None)] if end is not None else []):
            exits.append((s, me))       # type: ignore[arg-type]
    else:
        if end is not None:
            ex.exits.append((end, None))
        for s, v in ex.exits:
            if v is None:
                raise TranslateError(f'{cname}.{fn.name}: a path returns nothing')
            exits.append((s, v))
    if not exits:
        raise TranslateError(f'{cname}.{fn.name}: no path reaches a return')
    return ex, exits


def paths_of(ex: Exec, st: State, obj: R) -> dict[tuple[str, ...], R]:
    """Access paths of length 1 and 2 from a definite object, with the reference expression each holds."""
    out: dict[tuple[str, ...], R] = {}
    if obj[0] != 'L':
        return out
    for (n, a), v in st.heap.items():
        if n == obj[1]:
            out[(a,)] = v
            if v[0] == 'L':
                for (m, b), w in st.heap.items():
                    if m == v[1]:
                        out[(a, b)] = w
    return out


def _is_new(ex: Exec, r: R) -> bool:
    return r[0] == 'L' and ex.kind[r[1]] == 'new'


def discover_pairs(cname: str, init: ast.FunctionDef) -> list[tuple[tuple[str, ...], tuple[str, ...]]]:
    ex, exits = run_function(cname, init)
    found: set[tuple[tuple[str, ...], tuple[str, ...]]] | None = None
    for st, me in exits:
        ps = paths_of(ex, st, me)
        here = set()
        items = sorted(ps.items(), key=lambda kv: (len(kv[0]), kv[0]))
        for i, (p, v) in enumerate(items):
            for q, w in items[i + 1:]:
                if v == w and _is_new(ex, v) and p[0] != q[0]:
                    here.add((p, q))
        found = here if found is None else (found & here)
    return sorted(found or ())


def coq_r(r: R) -> str:
    if r[0] == 'L':
        return f'(RLoc {r[1]})'
    if r[0] == 'T':
        return f'(RIteT {coq_r(r[1])} {coq_r(r[2])} {coq_r(r[3])})'
    return f'(RIteO {r[1]} {coq_r(r[2])} {coq_r(r[3])})'


def show_r(ex: Exec, r: R) -> str:
    if r[0] == 'L':
        return f'<{ex.desc[r[1]]}#{r[1]}:{ex.kind[r[1]]}>'
    if r[0] == 'T':
        return f'({show_r(ex, r[2])} if truthy {show_r(ex, r[1])} else {show_r(ex, r[3])})'
    return f'({show_r(ex, r[2])} if cond{r[1]} else {show_r(ex, r[3])})'


def _cs(s: str) -> str:
    return '"' + s.replace('"', '""') + '"'


def makers_of(cname: str, c: ast.ClassDef) -> dict[str, ast.FunctionDef]:
    """The functions of a class that hand out an instance: the constructor, and static / class methods that call the class."""
    out: dict[str, ast.FunctionDef] = {}
    for name, m in _methods(c).items():
        if name == '__init__':
            out[name] = m
        elif _decorators(m) & {'staticmethod', 'classmethod'}:
            calls = {ast.unparse(x.func) for x in ast.walk(m) if isinstance(x, ast.Call)}
            if cname in calls or 'cls' in calls:
                out[name] = m
    return out


def translate() -> tuple[str, dict]:
    tree = ast.parse(src_text('vmf.py'))
    classes = _classes(tree)
    pairs_all: list[tuple[str, str, str]] = []
    rows: list[str] = []
    info_rows: list[dict] = []
    fns: list[str] = []
    tracked: set[str] = set()
    for cname in CLASSES:
        c = classes.get(cname)
        if c is None:
            raise TranslateError(f'class {cname} not found in vmf.py')
        meths = _methods(c)
        if '__init__' not in meths:
            continue            # attrs class: the generated constructor stores its arguments, no aliasing of its own
        pairs = discover_pairs(cname, meths['__init__'])
        if not pairs:
            continue
        for p, q in pairs:
            pairs_all.append((cname, '.'.join(p), '.'.join(q)))
            tracked |= set(p) | set(q)
        for mname, m in makers_of(cname, c).items():
            ex, exits = run_function(cname, m)
            label = f'{cname}.{mname}'
            fns.append(label)
            for i, (st, obj) in enumerate(exits):
                for p, q in pairs:
                    def at(path: tuple[str, ...]) -> R:
                        r = obj
                        for a in path:
                            r = ex.read(st, r, a)
                        return r
                    l, r = at(p), at(q)
                    rows.append(f'mk_aliasrow {_cs(label)} {_cs(".".join(p))} {_cs(".".join(q))} {coq_r(l)} {coq_r(r)}')
                    info_rows.append({'fn': label, 'exit': i, 'left': '.'.join(p), 'right': '.'.join(q),
                                      'l': show_r(ex, l), 'r': show_r(ex, r), 'same_text': l == r})
    # every statement of the module that rebinds an attribute named in an alias pair
    rebinds: list[tuple[str, str]] = []

    def scan(owner: str, node: ast.AST) -> None:
        for ch in ast.iter_child_nodes(node):
            if isinstance(ch, ast.ClassDef):
                scan(ch.name, ch)
                continue
            if isinstance(ch, (ast.FunctionDef, ast.AsyncFunctionDef)):
                scan(f'{owner}.{ch.name}' if owner else ch.name, ch)
                continue
            targets: list[ast.AST] = []
            if isinstance(ch, ast.Assign):
                targets = list(ch.targets)
            elif isinstance(ch, (ast.AnnAssign, ast.AugAssign)) and (isinstance(ch, ast.AugAssign) or ch.value is not None):
                targets = [ch.target]
            elif isinstance(ch, ast.Delete):
                targets = list(ch.targets)
            elif isinstance(ch, (ast.For, ast.AsyncFor)):
                targets = [ch.target]
            elif isinstance(ch, ast.NamedExpr):
                targets = [ch.target]
            flat: list[ast.AST] = []
            while targets:
                t = targets.pop()
                if isinstance(t, (ast.Tuple, ast.List)):
                    targets.extend(t.elts)
                elif isinstance(t, ast.Starred):
                    targets.append(t.value)
                else:
                    flat.append(t)
            for t in flat:
                if isinstance(t, ast.Attribute) and t.attr in tracked:
                    rebinds.append((owner or '<module>', t.attr))
            # setattr(x, 'brushes', ...) rebinds as well
            if isinstance(ch, ast.Call) and ast.unparse(ch.func) in ('setattr', 'object.__setattr__') and len(ch.args) >= 2:
                a = ch.args[1]
                if not isinstance(a, ast.Constant) or a.value in tracked:
                    rebinds.append((owner or '<module>', str(getattr(a, 'value', '?'))))
            scan(owner, ch)
    scan('', tree)
    allowed = sorted(set(fns) | {f'{c}.__init__' for c in classes})
    lines = ['(* generated by translate/c06_alias.py from vmf.py -- do not edit *)',
             'From Coq Require Import List String NArith.', 'From SV Require Import Fmt.VmfAlias.', 'Import ListNotations.',
             'Open Scope string_scope.', 'Open Scope N_scope.', '',
             'Definition gen_alias_pairs : list (string * string) :=\n  [' + '; '.join(f'({_cs(a)}, {_cs(b)})' for _c, a, b in pairs_all) + '].',
             'Definition gen_alias_makers : list string :=\n  [' + '; '.join(_cs(f) for f in fns) + '].',
             'Definition gen_alias_rows : list aliasrow :=\n  [' + ';\n   '.join(rows) + '].',
             'Definition gen_alias_rebinds : list (string * string) :=\n  [' + '; '.join(f'({_cs(f)}, {_cs(a)})' for f, a in rebinds) + '].',
             'Definition gen_alias_may_rebind : list string :=\n  [' + '; '.join(_cs(f) for f in allowed) + '].']
    return '\n'.join(lines) + '\n', {'pairs': [list(p) for p in pairs_all], 'makers': fns, 'rows': info_rows,
                                     'rebinds': [list(x) for x in rebinds]}


GEN = {'VmfAlias_gen': translate}
