"""C04 translator: MatrixBase.inverse (Gauss-Jordan elimination) of srctools/math.py -> Gen/RotInverse_gen.v.

The method is a fixed schedule of elementary row operations on the augmented block [L | R] whose only data dependence is
the choice of the pivot row.  All its loops run over literal lists / range() of constants, so they are UNROLLED here and
the method becomes a straight list of three kinds of operation (the constructors of `gj_op` in rocq/Rot/RotGJ.v):

    OPivotSwap col n rows cmp init   la = init; pivrow = <none>
                                     for m in rows: va = abs(L[m][col]); if va `cmp` la: pivrow = m; la = va
                                     if pivrow is <none>: raise; if pivrow != n: swap rows n, pivrow of L and of R
    OElim m p c                      v = L[m][c] / L[p][c];  L[m] -= L[p] * v;  R[m] -= R[p] * v
    OElimSkip m p c cmp thr          v = L[m][c] / L[p][c];  if abs(v) `cmp` thr: continue;  L[m] -= L[p] * v;  R[m] -= R[p] * v
                                     (`v == 0`, `not v`, `abs(v) == 0` are read as abs(v) <= 0; the kernel accepts a skip
                                     guard only when it fires for a multiplier that IS zero: skip_exact)
    OScale r c cmp thr               v = L[r][c]; if abs(v) `cmp` thr: raise;  L[r] /= v;  R[r] /= v

plus how L and R are initialised (which slot of self / which constant) and which entries of which block are returned.
Nothing is assumed about the schedule: the columns and rows visited, their order, the indexes used by every multiplier,
the comparison operators and the constants are read from the source, and the kernel decides (gj_prog_ok, by abstract
interpretation) whether the schedule turns L into the identity.  The interpreter of the generated program is compared
bit for bit (IEEE binary64) with the running method by the check.

Fail closed: any statement that is not one of the recognised shapes, a row operation applied to one block only, a
multiplier used with other rows than it was computed for, an index outside 0..2 ... raises TranslateError.
"""
from __future__ import annotations

import ast
from fractions import Fraction
from typing import Any

from harness.common import TranslateError, ast_digest, src_text
from translate.c04_formulas import Classes, MAT_FIELDS, _fld, _is_docstring, _params

CMP = {'Gt': 'CGt', 'GtE': 'CGe', 'Lt': 'CLt', 'LtE': 'CLe'}


def _q(v: Any, where: str) -> Fraction:
    """A numeric literal as the exact rational of its decimal text, if float(num)/float(den) reproduces the double."""
    if isinstance(v, bool) or not isinstance(v, (int, float)):
        raise TranslateError(f'{where}: not a numeric literal: {v!r}')
    fr = Fraction(repr(v)) if isinstance(v, float) else Fraction(v)
    if abs(fr.numerator) >= 2 ** 53 or fr.denominator >= 2 ** 53 or float(fr.numerator) / float(fr.denominator) != float(v):
        raise TranslateError(f'{where}: literal {v!r} is not reproduced by one correctly rounded division')
    return fr


class Row:
    """One row object (a Vec created by the method): which block it belongs to and what it holds initially."""
    def __init__(self, kind: str, content: list) -> None:
        self.kind, self.content = kind, content      # kind 'slots' (indexes into MAT_FIELDS) or 'consts' (Fractions)


class InverseExec:
    def __init__(self, fn: ast.FunctionDef, consts: dict[str, Any] | None = None) -> None:
        self.fn = fn
        self.consts = consts or {}      # module-level numeric constants bound once (Classes.consts)
        self.selfname = _params(fn)[0]
        self.env: dict[str, Any] = {}
        self.ops: list[tuple] = []
        self.pending: dict | None = None       # a row operation seen on one block, waiting for the other block
        self.out: dict[str, tuple] = {}
        self.outname: str | None = None
        self.returned = False
        self.blocks: dict[str, str] = {}       # list name -> 'L' / 'R'

    def err(self, node: ast.AST, msg: str):
        raise TranslateError(f'inverse: line {getattr(node, "lineno", "?")}: {msg}: `{ast.unparse(node)[:90]}`')

    # ------------------------------------------------------------------ small evaluators
    def const(self, n: ast.expr) -> Any:
        if isinstance(n, ast.Constant) and isinstance(n.value, (int, float)) and not isinstance(n.value, bool):
            return n.value
        if isinstance(n, ast.UnaryOp) and isinstance(n.op, ast.USub):
            v = self.const(n.operand)
            return None if v is None else -v
        if isinstance(n, ast.Name) and n.id not in self.env and n.id in self.consts:
            return self.consts[n.id]
        return None

    def int_of(self, n: ast.expr) -> int:
        c = self.const(n)
        if isinstance(c, int):
            return c
        if isinstance(n, ast.Name) and isinstance(self.env.get(n.id), tuple) and self.env[n.id][0] == 'int':
            return self.env[n.id][1]
        if isinstance(n, ast.BinOp) and isinstance(n.op, (ast.Add, ast.Sub)):
            a, b = self.int_of(n.left), self.int_of(n.right)
            return a + b if isinstance(n.op, ast.Add) else a - b
        self.err(n, 'index is not a compile-time integer')

    def idx(self, n: ast.expr) -> int:
        k = self.int_of(n)
        if not 0 <= k <= 2:
            self.err(n, f'index {k} outside 0..2')
        return k

    def iter_values(self, n: ast.expr) -> list[int]:
        if isinstance(n, (ast.List, ast.Tuple)):
            return [self.int_of(e) for e in n.elts]
        if isinstance(n, ast.Call) and isinstance(n.func, ast.Name) and not n.keywords:
            if n.func.id == 'range' and 1 <= len(n.args) <= 3:
                return list(range(*[self.int_of(a) for a in n.args]))
            if n.func.id == 'reversed' and len(n.args) == 1:
                return list(reversed(self.iter_values(n.args[0])))
        self.err(n, 'loop is not over a literal list or range of constants')

    def rowref(self, n: ast.expr) -> tuple[str, int]:
        """`NAME[i]` with NAME one of the two working lists -> (block, i)."""
        if isinstance(n, ast.Subscript) and isinstance(n.value, ast.Name) and n.value.id in self.blocks:
            return self.blocks[n.value.id], self.idx(n.slice)
        self.err(n, 'expected a row of one of the two working lists')

    def cell(self, n: ast.expr) -> tuple[str, int, int]:
        """`NAME[i][j]` (or `.x/.y/.z`) -> (block, i, j)."""
        if isinstance(n, ast.Subscript):
            b, i = self.rowref(n.value)
            return b, i, self.idx(n.slice)
        if isinstance(n, ast.Attribute) and n.attr in ('x', 'y', 'z'):
            b, i = self.rowref(n.value)
            return b, i, 'xyz'.index(n.attr)
        self.err(n, 'expected an entry NAME[i][j]')

    # ------------------------------------------------------------------ initialisation
    def new_row(self, n: ast.expr) -> Row:
        if not (isinstance(n, ast.Call) and isinstance(n.func, ast.Name) and n.func.id in ('Vec', 'Py_Vec')
                and len(n.args) == 3 and not n.keywords):
            self.err(n, 'a row must be built as Vec(a, b, c)')
        slots, consts = [], []
        for a in n.args:
            c = self.const(a)
            if c is not None:
                consts.append(_q(c, 'inverse: initial constant'))
            elif isinstance(a, ast.Attribute) and isinstance(a.value, ast.Name) and a.value.id == self.selfname \
                    and _fld(a.attr) in MAT_FIELDS:
                slots.append(MAT_FIELDS.index(_fld(a.attr)))
            else:
                self.err(a, 'row entry is neither a slot of self nor a constant')
        if len(slots) == 3:
            return Row('slots', slots)
        if len(consts) == 3:
            return Row('consts', consts)
        self.err(n, 'row mixes slots of self and constants')

    def list_value(self, n: ast.expr) -> list[Row] | None:
        if isinstance(n, ast.Name) and isinstance(self.env.get(n.id), list):
            return list(self.env[n.id])
        if isinstance(n, ast.List) and len(n.elts) == 3:
            rows = []
            for e in n.elts:
                if isinstance(e, ast.Subscript) and isinstance(e.value, ast.Name) and isinstance(self.env.get(e.value.id), list):
                    rows.append(self.env[e.value.id][self.idx(e.slice)])
                else:
                    rows.append(self.new_row(e))
            if len({id(r) for r in rows}) != 3:
                self.err(n, 'the same row object occurs twice in a working list')
            return rows
        return None

    def fix_blocks(self, at: ast.AST) -> None:
        """Called at the first operation: the list of slot rows is L, the list of constant rows is R; both must by
        now be the only live lists that are operated on (decided by the names the operations use)."""
        if self.blocks:
            return
        lists = {k: v for k, v in self.env.items() if isinstance(v, list)}
        for name, rows in lists.items():
            kinds = {r.kind for r in rows}
            if len(kinds) != 1:
                self.err(at, f'list {name} mixes matrix rows and constant rows')
        self._lists = lists

    def block_of(self, name: str, at: ast.AST) -> str:
        v = self.env.get(name)
        if not isinstance(v, list):
            self.err(at, f'{name} is not a list of rows')
        kind = v[0].kind
        b = 'L' if kind == 'slots' else 'R'
        for other, ob in self.blocks.items():
            if other != name and ob == b:
                self.err(at, f'two different lists ({other}, {name}) are used as block {b}')
        self.blocks[name] = b
        return b

    # ------------------------------------------------------------------ statements
    def flush(self, at: ast.AST) -> None:
        if self.pending is not None:
            self.err(at, f'row operation `{self.pending["text"]}` is applied to one block only')

    def two_sided(self, key: tuple, block: str, at: ast.AST, emit) -> None:
        """Row operations come in pairs (same operation on L and on R).  `key` identifies the operation."""
        if self.pending is None:
            self.pending = {'key': key, 'block': block, 'text': ast.unparse(at)}
            return
        if self.pending['key'] != key or self.pending['block'] == block:
            self.err(at, f'row operation does not pair with `{self.pending["text"]}`')
        self.pending = None
        emit()

    def note_names(self, n: ast.AST) -> None:
        """Register every working-list name used in a statement (first use decides L / R by the initial contents)."""
        for sub in ast.walk(n):
            if isinstance(sub, ast.Subscript) and isinstance(sub.value, ast.Name) and isinstance(self.env.get(sub.value.id), list) \
                    and sub.value.id not in self.blocks:
                self.block_of(sub.value.id, sub)

    def block(self, stmts: list[ast.stmt]) -> None:
        i = 0
        while i < len(stmts):
            s = stmts[i]
            i += 1
            if self.returned:
                self.err(s, 'statement after return')
            if _is_docstring(s) or isinstance(s, ast.Pass) or (isinstance(s, ast.AnnAssign) and s.value is None):
                continue
            if isinstance(s, (ast.Assign, ast.AnnAssign)):
                tgt = s.targets[0] if isinstance(s, ast.Assign) and len(s.targets) == 1 else getattr(s, 'target', None)
                if tgt is None:
                    self.err(s, 'chained assignment')
                self.assign(tgt, s.value, s)
            elif isinstance(s, ast.AugAssign):
                self.note_names(s)
                self.augassign(s)
            elif isinstance(s, ast.For):
                if s.orelse:
                    self.err(s, 'for/else')
                if self.try_pivot_search(s):
                    continue
                self.flush(s)
                if not isinstance(s.target, ast.Name):
                    self.err(s, 'loop variable')
                for k in self.iter_values(s.iter):
                    self.env[s.target.id] = ('int', k)
                    self.block(s.body)
                    self.flush(s)
            elif isinstance(s, ast.If) and len(s.body) == 1 and isinstance(s.body[0], ast.Continue) and not s.orelse \
                    and self.skip_test(s.test) is not None:
                # if <test on the multiplier v>: continue  -- only the row operations with v may follow in this iteration
                self.flush(s)
                name, cmp_, thr = self.skip_test(s.test)
                mv = self.env[name]
                if len(mv) != 4:
                    self.err(s, 'multiplier guarded twice')
                self.env[name] = mv + ((cmp_, thr),)
                for rest in stmts[i:]:
                    if not (isinstance(rest, ast.AugAssign) and isinstance(rest.op, ast.Sub)
                            and any(isinstance(x, ast.Name) and x.id == name for x in ast.walk(rest.value))):
                        self.err(rest, 'a statement other than the guarded row operation follows a conditional `continue`')
            elif isinstance(s, ast.If):
                self.flush(s)
                self.note_names(s)
                self.if_stmt(s)
            elif isinstance(s, ast.Return):
                self.flush(s)
                if not (isinstance(s.value, ast.Name) and s.value.id == self.outname):
                    self.err(s, 'must return the new matrix')
                self.returned = True
            else:
                self.err(s, f'unsupported statement {type(s).__name__}')

    def assign(self, tgt: ast.expr, val: ast.expr, s: ast.stmt) -> None:
        # tuple targets: row swap (handled inside the pivot idiom only) or output slots
        if isinstance(tgt, ast.Tuple):
            if not (isinstance(val, ast.Tuple) and len(val.elts) == len(tgt.elts)):
                self.err(s, 'tuple assignment from a non-tuple')
            if all(isinstance(t, ast.Attribute) for t in tgt.elts):
                self.flush(s)
                self.note_names(s)
                for t, v in zip(tgt.elts, val.elts):
                    self.out_store(t, v, s)
                return
            self.err(s, 'row swap outside the pivot idiom')
        if isinstance(tgt, ast.Attribute):
            self.flush(s)
            self.note_names(s)
            self.out_store(tgt, val, s)
            return
        if not isinstance(tgt, ast.Name):
            self.err(s, 'unsupported assignment target')
        name = tgt.id
        c = self.const(val)
        if c is not None:
            self.env[name] = ('num', c)
            return
        if isinstance(val, ast.Constant) and val.value is None:
            self.env[name] = ('num', None)
            return
        lv = self.list_value(val)
        if lv is not None:
            if self.blocks:
                self.err(s, 'a working list is rebuilt after the first row operation')
            self.env[name] = lv
            return
        # cls = type(self); out = cls.__new__(cls)
        if isinstance(val, ast.Call) and isinstance(val.func, ast.Name) and val.func.id == 'type' and len(val.args) == 1 \
                and isinstance(val.args[0], ast.Name) and val.args[0].id == self.selfname:
            self.env[name] = ('cls',)
            return
        if isinstance(val, ast.Call) and isinstance(val.func, ast.Attribute) and val.func.attr == '__new__' and len(val.args) == 1:
            def is_cls(e: ast.expr) -> bool:
                return (isinstance(e, ast.Name) and self.env.get(e.id) == ('cls',)) or \
                       (isinstance(e, ast.Call) and isinstance(e.func, ast.Name) and e.func.id == 'type' and len(e.args) == 1
                        and isinstance(e.args[0], ast.Name) and e.args[0].id == self.selfname)
            if is_cls(val.func.value) and is_cls(val.args[0]):
                self.env[name] = ('out',)
                self.outname = name
                return
            self.err(s, '__new__ of something other than type(self)')
        self.note_names(s)
        # v = L[m][c] / L[p][c]
        if isinstance(val, ast.BinOp) and isinstance(val.op, ast.Div):
            self.flush(s)
            b1, m, c1 = self.cell(val.left)
            b2, p, c2 = self.cell(val.right)
            if b1 != 'L' or b2 != 'L' or c1 != c2:
                self.err(s, 'multiplier is not L[m][c] / L[p][c]')
            self.env[name] = ('mult', m, p, c1)
            return
        # v = L[r][c]
        if isinstance(val, (ast.Subscript, ast.Attribute)):
            self.flush(s)
            b, r, c = self.cell(val)
            if b != 'L':
                self.err(s, 'diagonal value read from the right block')
            self.env[name] = ('diag', r, c, None)
            return
        self.err(s, 'unsupported assignment')

    def out_store(self, t: ast.expr, v: ast.expr, s: ast.stmt) -> None:
        if not (isinstance(t, ast.Attribute) and isinstance(t.value, ast.Name) and t.value.id == self.outname
                and _fld(t.attr) in MAT_FIELDS):
            self.err(s, 'store to something other than a slot of the new matrix')
        b, i, j = self.cell(v)
        if b != 'R':
            self.err(s, 'result entry is read from the left block')
        if _fld(t.attr) in self.out:
            self.err(s, f'slot {t.attr} stored twice')
        self.out[_fld(t.attr)] = (i, j)

    def augassign(self, s: ast.AugAssign) -> None:
        b, m = self.rowref(s.target)
        if isinstance(s.op, ast.Sub):
            # X[m] -= X[p] * v
            v = s.value
            if not (isinstance(v, ast.BinOp) and isinstance(v.op, ast.Mult)):
                self.err(s, 'expected X[m] -= X[p] * v')
            rowside, mult = (v.left, v.right) if isinstance(v.right, ast.Name) else (v.right, v.left)
            if not (isinstance(mult, ast.Name) and isinstance(self.env.get(mult.id), tuple) and self.env[mult.id][0] == 'mult'):
                self.err(s, 'the factor is not a multiplier computed as L[m][c] / L[p][c]')
            b2, p = self.rowref(rowside)
            _, mm, pp, c = self.env[mult.id][:4]
            guard = self.env[mult.id][4] if len(self.env[mult.id]) > 4 else None
            if b2 != b:
                self.err(s, 'row of one block updated with a row of the other block')
            if (mm, pp) != (m, p):
                self.err(s, f'multiplier was computed for rows ({mm}, {pp}) but is applied to rows ({m}, {p})')
            self.two_sided(('elim', mult.id, m, p, c), b, s, lambda: self.ops.append(
                ('OElim', m, p, c) if guard is None else ('OElimSkip', m, p, c, guard[0], guard[1])))
        elif isinstance(s.op, ast.Div):
            v = s.value
            if not (isinstance(v, ast.Name) and isinstance(self.env.get(v.id), tuple) and self.env[v.id][0] == 'diag'):
                self.err(s, 'expected X[r] /= v with v = L[r][c]')
            _, r, c, chk = self.env[v.id]
            if r != m:
                self.err(s, f'row {m} divided by an entry of row {r}')
            if chk is None:
                self.err(s, 'row divided by a value that was not compared with the threshold')
            self.two_sided(('scale', v.id, r, c), b, s, lambda: self.ops.append(('OScale', r, c, chk[0], chk[1])))
        else:
            self.err(s, 'unsupported augmented assignment')

    def abs_of(self, n: ast.expr) -> ast.expr | None:
        if isinstance(n, ast.Call) and isinstance(n.func, ast.Name) and n.func.id == 'abs' and len(n.args) == 1 and not n.keywords:
            return n.args[0]
        return None

    def skip_test(self, t: ast.expr) -> tuple[str, str, Fraction] | None:
        """A test on a multiplier v (computed as L[m][c] / L[p][c]) normalised to `abs(v) CMP literal`:
        abs(v) CMP lit, lit CMP abs(v) (mirrored), v == 0 / abs(v) == 0 / not v (all: abs(v) <= 0, also for -0.0 and nan)."""
        def mult_name(e: ast.expr) -> str | None:
            if isinstance(e, ast.Name) and isinstance(self.env.get(e.id), tuple) and self.env[e.id][0] == 'mult':
                return e.id
            return None
        if isinstance(t, ast.UnaryOp) and isinstance(t.op, ast.Not):
            nm = mult_name(t.operand)
            return (nm, 'CLe', Fraction(0)) if nm else None
        if not (isinstance(t, ast.Compare) and len(t.ops) == 1):
            return None
        left, op, right = t.left, t.ops[0], t.comparators[0]
        opn = type(op).__name__
        mirror = {'Gt': 'Lt', 'Lt': 'Gt', 'GtE': 'LtE', 'LtE': 'GtE', 'Eq': 'Eq'}
        if self.const(left) is not None and self.const(right) is None and opn in mirror:
            left, right, opn = right, left, mirror[opn]
        c = self.const(right)
        if c is None:
            return None
        inner = self.abs_of(left)
        nm = mult_name(inner) if inner is not None else None
        if nm and opn in CMP:
            return nm, CMP[opn], _q(c, 'inverse: skip threshold')
        nm = nm or mult_name(left)
        if nm and opn == 'Eq' and c == 0:
            return nm, 'CLe', Fraction(0)
        return None

    def try_pivot_search(self, s: ast.For) -> bool:
        """for m in ROWS: va = abs(L[m][col]); if va CMP la: pivrow = m; la = va"""
        body = [x for x in s.body if not _is_docstring(x) and not isinstance(x, ast.Pass)]
        if not body or not isinstance(body[-1], ast.If) or not isinstance(s.target, ast.Name):
            return False
        test = body[-1].test
        if not (isinstance(test, ast.Compare) and len(test.ops) == 1 and isinstance(test.comparators[0], ast.Name)
                and isinstance(self.env.get(test.comparators[0].id), tuple) and self.env[test.comparators[0].id][0] == 'num'):
            return False
        self.flush(s)
        self.note_names(s)
        la = test.comparators[0].id
        mvar = s.target.id
        rows = self.iter_values(s.iter)
        for r in rows:
            if not 0 <= r <= 2:
                self.err(s, f'row {r} outside 0..2')
        opn = type(test.ops[0]).__name__
        if opn not in CMP:
            self.err(test, 'unsupported comparison in the pivot search')
        # the compared value
        if len(body) == 2 and isinstance(body[0], (ast.Assign, ast.AnnAssign)):
            t0 = body[0].targets[0] if isinstance(body[0], ast.Assign) else body[0].target
            if not (isinstance(t0, ast.Name) and isinstance(test.left, ast.Name) and test.left.id == t0.id):
                self.err(s, 'pivot search: the compared value is not the one just computed')
            vexpr, vname = body[0].value, t0.id
        elif len(body) == 1:
            vexpr, vname = test.left, None
        else:
            self.err(s, 'pivot search: unexpected statements in the loop')
        inner = self.abs_of(vexpr)
        if inner is None:
            self.err(s, 'pivot search does not compare abs(L[m][col])')
        self.env[mvar] = ('int', rows[0] if rows else 0)
        if not (isinstance(inner, ast.Subscript) and isinstance(inner.value, ast.Subscript)
                and isinstance(inner.value.slice, ast.Name) and inner.value.slice.id == mvar):
            self.err(s, 'pivot search does not scan L[m][col] with the loop variable m')
        b, _, col = self.cell(inner)
        if b != 'L':
            self.err(s, 'pivot search scans the right block')
        # the two assignments of the if body
        piv = None
        seen_la = False
        for a in body[-1].body:
            if not (isinstance(a, ast.Assign) and len(a.targets) == 1 and isinstance(a.targets[0], ast.Name) and isinstance(a.value, ast.Name)):
                self.err(a, 'pivot search: unexpected statement')
            if a.value.id == mvar:
                piv = a.targets[0].id
            elif a.targets[0].id == la and (a.value.id == vname):
                seen_la = True
            else:
                self.err(a, 'pivot search: unexpected assignment')
        if body[-1].orelse or piv is None or not seen_la or vname is None:
            self.err(s, 'pivot search: expected `pivrow = m` and `la = va`')
        sent = self.env.get(piv)
        if not (isinstance(sent, tuple) and sent[0] == 'num') or sent[1] in (0, 1, 2):
            self.err(s, 'pivot variable is not initialised to a sentinel')
        init = self.env[la][1]
        if init is None:
            self.err(s, 'largest value so far is not initialised to a number')
        self.env[piv] = ('pivot', col, rows, CMP[opn], _q(init, 'inverse: pivot initial value'), sent[1], False)
        self.env[la] = ('dead',)
        del self.env[mvar]
        return True

    def if_stmt(self, s: ast.If) -> None:
        t = s.test
        if s.orelse:
            self.err(s, 'else branch')
        if not (isinstance(t, ast.Compare) and len(t.ops) == 1):
            self.err(s, 'unsupported condition')
        left, op, right = t.left, t.ops[0], t.comparators[0]
        only_raise = len(s.body) == 1 and isinstance(s.body[0], ast.Raise)
        # if pivrow == <sentinel>: raise
        if isinstance(left, ast.Name) and isinstance(self.env.get(left.id), tuple) and self.env[left.id][0] == 'pivot':
            pv = self.env[left.id]
            rc = self.const(right)
            if rc is None and isinstance(right, ast.Constant) and right.value is None:
                rc = None
            if isinstance(op, (ast.Eq, ast.Is)) and only_raise and rc == pv[5]:
                self.env[left.id] = pv[:6] + (True,)
                return
            # any other comparison with a number that holds for the sentinel and for none of the rows the search can
            # select (`pivrow < 0` with sentinel -1) is the same missing-pivot test
            cmpf = {ast.Lt: lambda a, b: a < b, ast.LtE: lambda a, b: a <= b, ast.Gt: lambda a, b: a > b,
                    ast.GtE: lambda a, b: a >= b, ast.Eq: lambda a, b: a == b}.get(type(op))
            if only_raise and cmpf is not None and rc is not None and pv[5] is not None \
                    and cmpf(pv[5], rc) and not any(cmpf(r, rc) for r in pv[2]):
                self.env[left.id] = pv[:6] + (True,)
                return
            # if pivrow != n: swap both; pivrow = n
            if isinstance(op, ast.NotEq):
                n = self.idx(right)
                self.swap_body(s.body, left.id, n, s)
                return
            self.err(s, 'unsupported test of the pivot row')
        # if abs(v) <= thr: raise
        inner = self.abs_of(left)
        if inner is not None and only_raise and isinstance(inner, ast.Name) and isinstance(self.env.get(inner.id), tuple) \
                and self.env[inner.id][0] == 'diag':
            opn = type(op).__name__
            c = self.const(right)
            if opn not in CMP or c is None:
                self.err(s, 'threshold test is not a comparison with a literal')
            d = self.env[inner.id]
            self.env[inner.id] = ('diag', d[1], d[2], (CMP[opn], _q(c, 'inverse: threshold')))
            return
        self.err(s, 'unsupported if statement')

    def swap_body(self, body: list[ast.stmt], piv: str, n: int, at: ast.AST) -> None:
        pv = self.env[piv]
        if not pv[6]:
            self.err(at, 'rows are swapped before the missing-pivot test')
        swapped: set[str] = set()
        reset = False
        for a in body:
            if isinstance(a, ast.Assign) and len(a.targets) == 1 and isinstance(a.targets[0], ast.Tuple):
                tg, vl = a.targets[0], a.value
                if not (isinstance(vl, ast.Tuple) and len(tg.elts) == 2 and len(vl.elts) == 2):
                    self.err(a, 'not a two-row swap')

                def ref(e: ast.expr) -> tuple[str, Any]:
                    if isinstance(e, ast.Subscript) and isinstance(e.value, ast.Name) and e.value.id in self.blocks:
                        if isinstance(e.slice, ast.Name) and e.slice.id == piv:
                            return self.blocks[e.value.id], 'piv'
                        return self.blocks[e.value.id], self.idx(e.slice)
                    self.err(e, 'not a row of a working list')
                t0, t1, v0, v1 = ref(tg.elts[0]), ref(tg.elts[1]), ref(vl.elts[0]), ref(vl.elts[1])
                blk = t0[0]
                if {t0[1], t1[1]} != {n, 'piv'} or (v0, v1) != (t1, t0) or any(x[0] != blk for x in (t1, v0, v1)):
                    self.err(a, f'not an exchange of rows {n} and the pivot row of one block')
                if blk in swapped:
                    self.err(a, 'block swapped twice')
                swapped.add(blk)
            elif isinstance(a, ast.Assign) and len(a.targets) == 1 and isinstance(a.targets[0], ast.Name) and a.targets[0].id == piv:
                if self.idx(a.value) != n:
                    self.err(a, 'pivot row variable reset to another row')
                reset = True
            else:
                self.err(a, 'unexpected statement in the swap')
        if swapped != {'L', 'R'}:
            self.err(at, 'rows are swapped in one block only')
        if not reset:
            self.err(at, 'pivot row variable is not reset after the swap')
        self.ops.append(('OPivotSwap', pv[1], n, pv[2], pv[3], pv[4]))
        self.env[piv] = ('int', n)

    def run(self) -> dict:
        self.block(self.fn.body)
        self.flush(self.fn)
        if not self.returned:
            self.err(self.fn, 'no return')
        for k, v in self.env.items():
            if isinstance(v, tuple) and v and v[0] == 'pivot':
                self.err(self.fn, 'a pivot search is never used')
        if set(self.out) != set(MAT_FIELDS):
            self.err(self.fn, f'result slots not stored: {sorted(set(MAT_FIELDS) - set(self.out))}')
        lname = [k for k, b in self.blocks.items() if b == 'L']
        rname = [k for k, b in self.blocks.items() if b == 'R']
        if len(lname) != 1 or len(rname) != 1:
            self.err(self.fn, 'could not identify the two working lists')
        init_l = [k for row in self.env[lname[0]] for k in row.content]
        init_r = [k for row in self.env[rname[0]] for k in row.content]
        return {'init_l': init_l, 'init_r': init_r, 'ops': self.ops, 'out': [self.out[f] for f in MAT_FIELDS]}


def coq_q(fr: Fraction) -> str:
    return f'({fr.numerator}#{fr.denominator})%Q' if fr.numerator >= 0 else f'(({fr.numerator})#{fr.denominator})%Q'


def coq_op(op: tuple) -> str:
    if op[0] == 'OPivotSwap':
        _, col, n, rows, cmp_, init = op
        return f'OPivotSwap {col} {n} [{"; ".join(map(str, rows))}] {cmp_} {coq_q(init)}'
    if op[0] == 'OElim':
        return f'OElim {op[1]} {op[2]} {op[3]}'
    if op[0] == 'OElimSkip':
        return f'OElimSkip {op[1]} {op[2]} {op[3]} {op[4]} {coq_q(op[5])}'
    _, r, c, cmp_, thr = op
    return f'OScale {r} {c} {cmp_} {coq_q(thr)}'


def prog_coq(P: dict) -> str:
    out = ['(* GENERATED by translate/c04_inverse.py from src/srctools/math.py (MatrixBase.inverse). Do not edit. *)',
           'From Coq Require Import List QArith.', 'From SV Require Import Rot.RotGJ.', 'Import ListNotations.',
           'Local Open Scope nat_scope.', '',
           'Definition inverse_prog : gj_prog := GjProg',
           '  [' + '; '.join(map(str, P['init_l'])) + ']',
           '  [' + '; '.join(coq_q(q) for q in P['init_r']) + ']',
           '  [' + ';\n   '.join(coq_op(o) for o in P['ops']) + ']',
           '  [' + '; '.join(f'({a}, {b})' for a, b in P['out']) + '].', '']
    return '\n'.join(out)


_CACHE: dict[str, Any] = {}


def analyse() -> dict:
    text = src_text('math.py')
    if _CACHE.get('text') != text:
        C = Classes(ast.parse(text))
        m1, m2 = C.method('Matrix', 'inverse'), C.method('FrozenMatrix', 'inverse')
        if m1 is None or m2 is None or m1[1] is not m2[1]:
            raise TranslateError('inverse: not one shared definition for Matrix and FrozenMatrix')
        fn = m1[1]
        if len(_params(fn)) != 1:
            raise TranslateError('inverse: signature')
        P = InverseExec(fn, C.consts).run()
        _CACHE.update(text=text, P=P, digest=ast_digest(fn))
    return _CACHE


def translate_inverse() -> tuple[str, dict]:
    A = analyse()
    P = A['P']
    side = {'operations': [coq_op(o) for o in P['ops']], 'init_l': P['init_l'], 'init_r': [str(q) for q in P['init_r']],
            'out': P['out'], 'digest': A['digest']}
    return prog_coq(P), side


# =============================================================================================== shapes of the pivot searches
# Round 5.  A TOLERANT reader of the pivot searches of inverse(), independent of the program translator above (which fails closed on
# every pivot idiom but the one of the program language): per search loop `for m in ..: va = abs(L[m][c]); if va CMP la: pivrow = m;
# la = va` - which comparison, how `la` / `pivrow` start (constant + sentinel; the diagonal row with its entry, signed or under
# abs()), and which test reports "no inverse" (the sentinel surviving; `la == 0`).  What it cannot classify becomes SeedOther /
# MissOther, which Rot/RotPivot.v rejects; only a method without any recognisable pivot search raises.
PV_CMP = {'Gt': 'PGt', 'GtE': 'PGe', 'Lt': 'PLt', 'LtE': 'PLe'}


def _strip_abs(e: ast.expr) -> tuple[ast.expr, bool]:
    if isinstance(e, ast.Call) and isinstance(e.func, ast.Name) and e.func.id == 'abs' and len(e.args) == 1 and not e.keywords:
        return e.args[0], True
    if isinstance(e, ast.Call) and isinstance(e.func, ast.Attribute) and e.func.attr == 'fabs' and len(e.args) == 1:
        return e.args[0], True
    return e, False


def _is_number(e: ast.expr | None) -> bool:
    if isinstance(e, ast.UnaryOp) and isinstance(e.op, (ast.USub, ast.UAdd)):
        e = e.operand
    return isinstance(e, ast.Constant) and isinstance(e.value, (int, float)) and not isinstance(e.value, bool)


def _number(e: ast.expr) -> float:
    if isinstance(e, ast.UnaryOp):
        return -_number(e.operand) if isinstance(e.op, ast.USub) else _number(e.operand)
    return float(e.value)      # type: ignore[attr-defined]


def _assigned(st: ast.stmt) -> list[tuple[str, ast.expr]]:
    if isinstance(st, ast.Assign) and len(st.targets) == 1 and isinstance(st.targets[0], ast.Name):
        return [(st.targets[0].id, st.value)]
    if isinstance(st, ast.AnnAssign) and isinstance(st.target, ast.Name) and st.value is not None:
        return [(st.target.id, st.value)]
    return []


def pivot_shapes(fn: ast.FunctionDef) -> list[dict]:
    shapes: list[dict] = []

    def block(stmts: list[ast.stmt]) -> None:
        for k, st in enumerate(stmts):
            for sub in ('body', 'orelse', 'finalbody'):
                inner = getattr(st, sub, None)
                if isinstance(inner, list) and inner and isinstance(inner[0], ast.stmt) and not isinstance(st, (ast.FunctionDef, ast.ClassDef)):
                    block(inner)
            if not (isinstance(st, ast.For) and isinstance(st.target, ast.Name)):
                continue
            mvar = st.target.id
            ifs = [x for x in st.body if isinstance(x, ast.If)]
            if len(ifs) != 1 or not isinstance(ifs[0].test, ast.Compare) or len(ifs[0].test.ops) != 1:
                continue
            asg = dict(a for x in ifs[0].body for a in _assigned(x))
            piv = next((t for t, v in asg.items() if isinstance(v, ast.Name) and v.id == mvar), None)
            if piv is None:
                continue                      # not a search that records a row
            test = ifs[0].test
            opn = type(test.ops[0]).__name__
            left, right = test.left, test.comparators[0]
            la = right.id if isinstance(right, ast.Name) and right.id in asg else left.id if isinstance(left, ast.Name) and left.id in asg \
                else None
            if la is not None and isinstance(left, ast.Name) and left.id == la:      # `la < va` is `va > la`
                opn = {'Gt': 'Lt', 'Lt': 'Gt', 'GtE': 'LtE', 'LtE': 'GtE'}.get(opn, opn)
            shape = {'line': st.lineno, 'cmp': PV_CMP.get(opn, None), 'seed': 'SeedOther', 'miss': 'MissOther'}
            # how la / pivrow start: the last assignments before the loop, in this block
            init: dict[str, ast.expr] = {}
            for prev in stmts[:k]:
                for t, v in _assigned(prev):
                    init[t] = v
            if la is not None and la in init and piv in init:
                v_la, v_piv = init[la], init[piv]
                if _is_number(v_la) and (_is_number(v_piv) or isinstance(v_piv, ast.Constant) and v_piv.value is None):
                    rows_may_be = {0, 1, 2}
                    if not (_is_number(v_piv) and _number(v_piv) in rows_may_be):
                        shape['seed'] = f'(SeedSentinel {"true" if _number(v_la) == 0 else "false"})'
                else:
                    core, under_abs = _strip_abs(v_la)
                    if isinstance(core, ast.Subscript) and isinstance(core.value, ast.Subscript) and \
                            isinstance(v_piv, (ast.Name, ast.Constant)) and ast.unparse(core.value.slice) == ast.unparse(v_piv):
                        shape['seed'] = f'(SeedRow {"false" if under_abs else "true"})'      # signed = not under abs()
            # the test that reports "no inverse": the first `if ..: raise` after the loop that looks at pivrow or la
            for nxt in stmts[k + 1:]:
                if isinstance(nxt, ast.If) and len(nxt.body) == 1 and isinstance(nxt.body[0], ast.Raise) and not nxt.orelse:
                    names = {x.id for x in ast.walk(nxt.test) if isinstance(x, ast.Name)}
                    t = nxt.test
                    if piv in names and la not in names:
                        shape['miss'] = 'MissSentinel'
                    elif la in names and piv not in names:
                        if isinstance(t, ast.Compare) and len(t.ops) == 1 and isinstance(t.ops[0], ast.Eq) and \
                                isinstance(t.left, ast.Name) and _is_number(t.comparators[0]) and _number(t.comparators[0]) == 0:
                            shape['miss'] = 'MissValueZero'
                        elif isinstance(t, ast.UnaryOp) and isinstance(t.op, ast.Not) and isinstance(t.operand, ast.Name):
                            shape['miss'] = 'MissValueZero'
                    break
            shapes.append(shape)
    block(fn.body)
    return shapes


def translate_pivot() -> tuple[str, dict]:
    C = Classes(ast.parse(src_text('math.py')))
    m1, m2 = C.method('Matrix', 'inverse'), C.method('FrozenMatrix', 'inverse')
    if m1 is None or m2 is None or m1[1] is not m2[1]:
        raise TranslateError('inverse: not one shared definition for Matrix and FrozenMatrix')
    shapes = pivot_shapes(m1[1])
    if not shapes:
        raise TranslateError('inverse: no pivot search (a loop that records the row of the largest entry) found')
    items = [f'PivotShape {s["cmp"] or "PLe"} {s["seed"] if s["cmp"] else "SeedOther"} {s["miss"]}' for s in shapes]
    out = ['(* GENERATED by translate/c04_inverse.py from src/srctools/math.py (pivot searches of MatrixBase.inverse). Do not edit. *)',
           'From Coq Require Import List.', 'From SV Require Import Rot.RotPivot.', 'Import ListNotations.', '',
           'Definition pivot_shapes_today : list pivot_shape := [' + '; '.join(items) + '].', '']
    return '\n'.join(out), {'pivot_shapes': [{k: v for k, v in s.items() if k != 'line'} for s in shapes]}


GEN = {'RotInverse_gen': translate_inverse, 'RotPivot_gen': translate_pivot}
