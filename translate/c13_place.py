"""C13: symbolic execution of `FileInfo.write` (used by translate/c13_vpk.py and translate/c13_archname.py).

The method is run on symbolic values for every combination of
    directory VPK? (`_dir_prefix` is None or not) x dir_limit (None / <= MAX_PRELOAD / > MAX_PRELOAD) x arch_index (None / an index)
    x is anything left after the preload cut? (empty / non-empty)
and the effects are read off: where the data is cut (`data[:X]`, X = the limit or MAX_PRELOAD), where the rest goes (nowhere / appended
to `footer_data` / appended to an archive file), which index and offset are stored, whether the stored pieces are exactly the two halves of
the data and the checksum that of the data.  One more run with an unchanged checksum must have no effect.  The rows go to
Gen/VpkPlace_gen.v as a table of SM/VpkPlace.v [prow]; `place_table_ok` (Coq) compares them with what `write_info` of SM/Vpk.v does.

Because the code is *executed* on symbolic values, any way of writing the same decisions gives the same table: nested or chained ifs,
`min(limit, MAX_PRELOAD)`, renamed locals, `x = x + y` for `x += y`, `seek(0, SEEK_END)` followed by `tell()`, early returns ...
Fail-closed: TranslateError on any statement or expression the executor does not understand.
"""
from __future__ import annotations

import ast
import itertools

from harness.common import TranslateError


class _Ret(Exception):
    pass


class _Rejected(Exception):
    """FileInfo.write raised in a rejection scenario (read-only archive / index out of range): `by` = which validation raised."""
    def __init__(self, by: str):
        self.by = by


class _Sym:
    """Execution state for one scenario."""
    def __init__(self, scen: dict, consts: dict[str, int], params: list[str]):
        self.scen = scen            # dir: bool, lim: 'none'|'small'|'big', idx_none: bool, tail_empty: bool, same_crc: bool
        self.consts = consts
        self.env: dict[str, tuple] = {params[1]: ('data',), params[2]: ('none',) if scen['idx_none'] else ('arg_idx',)}
        self.self_name = params[0]
        self.fields: dict[str, tuple] = {}          # assignments to self.<field>
        self.footer: tuple = ('footer0',)
        self.files: dict[int, dict] = {}            # id -> {path, mode, pos, writes}
        self.nfile = 0

    # ---- attribute reads
    def attr(self, base: tuple, name: str) -> tuple:
        if base == ('self',):
            if name in self.fields:
                return self.fields[name]
            return {'vpk': ('vpk',), 'crc': ('crc_old',)}.get(name, ('selfattr', name))
        if base == ('vpk',):
            if name == '_dir_prefix':
                return ('prefix',) if self.scen['dir'] else ('none',)
            if name == 'dir_limit':
                return ('none',) if self.scen['lim'] == 'none' else ('limit',)
            if name == 'footer_data':
                return self.footer
            if name == 'mode':
                return ('mode',)
            if name == 'folder':
                return ('folder',)
            return ('vpkattr', name)
        if base == ('mode',) and name == 'writable':
            return ('bool', self.scen.get('writable', True))
        if base == ('mode',) and name == 'name':
            return ('str', '?')
        if base == ('mod', 'os') and name == 'SEEK_END':
            return ('int', 2)
        if base == ('mod', 'os') and name == 'path':
            return ('mod', 'os.path')
        raise TranslateError(f'FileInfo.write: attribute {name} of {base} not understood')

    def truth(self, v: tuple, node) -> bool:
        if v[0] == 'bool':
            return v[1]
        if v == ('none',):
            return False
        if v[0] == 'int':
            return v[1] != 0
        if v[0] == 'len' and v[1][0] == 'tail' or v[0] == 'tail':
            return not self.scen['tail_empty']
        if v in (('prefix',), ('arg_idx',)) and False:
            return True
        raise TranslateError(f'line {node.lineno}: FileInfo.write: truth value of {v} not understood')

    def is_none(self, v: tuple, node) -> bool:
        if v == ('none',):
            return True
        if v[0] in ('prefix', 'limit', 'max', 'arg_idx', 'int', 'data', 'pre', 'tail', 'len', 'cksum', 'str'):
            return False
        raise TranslateError(f'line {node.lineno}: FileInfo.write: `is None` of {v} not understood')

    def num_cmp(self, a: tuple, op, b: tuple, node) -> bool:
        """comparisons between the directory limit and MAX_PRELOAD"""
        rank = {('limit',): {'small': 0, 'big': 2}.get(self.scen['lim']), ('max',): 1}
        if a == b and a in rank:
            ra = rb = 1
        elif a in rank and b in rank and rank[a] is not None and rank[b] is not None:
            ra, rb = rank[a], rank[b]
            if self.scen['lim'] == 'small' and {a, b} == {('limit',), ('max',)}:
                # limit <= MAX_PRELOAD, equality possible: `>`/`<=` are decided, `<`/`>=`/`==` are not
                if isinstance(op, (ast.Lt, ast.GtE, ast.Eq, ast.NotEq)):
                    raise TranslateError(f'line {node.lineno}: FileInfo.write: comparison of the limit with MAX_PRELOAD that depends on equality')
        else:
            raise TranslateError(f'line {node.lineno}: FileInfo.write: comparison of {a} with {b} not understood')
        return {ast.Gt: ra > rb, ast.GtE: ra >= rb, ast.Lt: ra < rb, ast.LtE: ra <= rb, ast.Eq: ra == rb, ast.NotEq: ra != rb}[type(op)]

    # ---- expressions
    def ev(self, e) -> tuple:
        if isinstance(e, ast.Constant):
            if e.value is None:
                return ('none',)
            if isinstance(e.value, bool):
                return ('bool', e.value)
            if isinstance(e.value, int):
                return ('int', e.value)
            if isinstance(e.value, (str, bytes)):
                return ('str', e.value)
        if isinstance(e, ast.JoinedStr):
            return ('str', '?')
        if isinstance(e, ast.Name):
            if e.id == self.self_name:
                return ('self',)
            if e.id in self.env:
                return self.env[e.id]
            if e.id in self.consts:
                return ('max',) if e.id == 'MAX_PRELOAD' else ('int', self.consts[e.id])
            if e.id == 'os':
                return ('mod', 'os')
            raise TranslateError(f'line {e.lineno}: FileInfo.write: name {e.id} not understood')
        if isinstance(e, ast.Attribute):
            return self.attr(self.ev(e.value), e.attr)
        if isinstance(e, ast.UnaryOp) and isinstance(e.op, ast.Not):
            return ('bool', not self.truth(self.ev(e.operand), e))
        if isinstance(e, ast.BoolOp):
            v = None
            for x in e.values:
                v = self.ev(x)
                t = self.truth(v, e)
                if (isinstance(e.op, ast.And) and not t) or (isinstance(e.op, ast.Or) and t):
                    return v
            return v
        if isinstance(e, ast.IfExp):
            return self.ev(e.body) if self.truth(self.ev(e.test), e) else self.ev(e.orelse)
        if isinstance(e, ast.Compare) and len(e.ops) == 1:
            a, b, op = self.ev(e.left), self.ev(e.comparators[0]), e.ops[0]
            if isinstance(op, (ast.Is, ast.IsNot)) or (isinstance(op, (ast.Eq, ast.NotEq)) and ('none',) in (a, b)):
                other = a if b == ('none',) else b if a == ('none',) else None
                if other is None:
                    raise TranslateError(f'line {e.lineno}: FileInfo.write: identity test not against None')
                r = self.is_none(other, e)
                return ('bool', r if isinstance(op, (ast.Is, ast.Eq)) else not r)
            if isinstance(op, (ast.Eq, ast.NotEq)) and {a, b} == {('cksum', ('data',)), ('crc_old',)}:
                return ('bool', self.scen['same_crc'] if isinstance(op, ast.Eq) else not self.scen['same_crc'])
            return ('bool', self.num_cmp(a, op, b, e))
        if isinstance(e, ast.Subscript) and isinstance(e.slice, ast.Slice) and e.slice.step is None:
            base = self.ev(e.value)
            lo = None if e.slice.lower is None else self.ev(e.slice.lower)
            hi = None if e.slice.upper is None else self.ev(e.slice.upper)
            if base == ('data',) and lo is None and hi in (('limit',), ('max',)):
                return ('pre', hi)
            if base == ('data',) and hi is None and lo in (('limit',), ('max',)):
                return ('tail', lo)
            raise TranslateError(f'line {e.lineno}: FileInfo.write: slice {ast.unparse(e)[:50]} of {base} with bounds {lo}, {hi} not understood')
        if isinstance(e, ast.BinOp) and isinstance(e.op, ast.Add):
            a, b = self.ev(e.left), self.ev(e.right)
            return ('cat', a, b)
        if isinstance(e, ast.Call):
            f = e.func
            args = [self.ev(a) for a in e.args]
            if e.keywords:
                raise TranslateError(f'line {e.lineno}: FileInfo.write: keyword arguments not understood')
            if isinstance(f, ast.Name):
                if f.id == 'checksum' and len(args) == 1:
                    return ('cksum', args[0])
                if f.id == 'len' and len(args) == 1:
                    return ('len', args[0])
                if f.id == 'min' and len(args) == 2 and set(args) == {('limit',), ('max',)}:
                    return ('limit',) if self.scen['lim'] == 'small' else ('max',)
                if f.id == 'get_arch_filename' and len(args) == 2:
                    return ('archname', args[0], args[1])
                if f.id == '_check_arch_index' and len(args) == 1:
                    if self.scen.get('idx_bad'):
                        # rejection scenario: the index argument is out of range; the validation raises when it is handed that argument
                        if args[0] == ('arg_idx',):
                            raise _Rejected('index')
                        if args[0] != ('none',):
                            raise TranslateError(f'line {e.lineno}: FileInfo.write: _check_arch_index applied to {args[0]}')
                    return ('none',)
                if f.id == 'open' and len(args) == 2 and args[1][0] == 'str':
                    self.nfile += 1
                    self.files[self.nfile] = {'path': args[0], 'mode': args[1][1], 'pos': None, 'writes': []}
                    return ('file', self.nfile)
                if f.id in ('ValueError', 'TypeError'):
                    return ('exc',)
            if isinstance(f, ast.Attribute):
                base = self.ev(f.value)
                if base == ('mod', 'os.path') and f.attr == 'join':
                    return ('join',) + tuple(args)
                if base == ('vpk',) and f.attr == '_check_writable' and not args:
                    if not self.scen.get('writable', True):
                        raise _Rejected('mode')
                    return ('none',)
                if base[0] == 'file':
                    fo = self.files[base[1]]
                    if f.attr == 'seek' and len(args) in (1, 2):
                        whence = args[1] if len(args) == 2 else ('int', 0)
                        if args[0] == ('int', 0) and whence == ('int', 2):
                            fo['pos'] = 'end'
                            return ('fileend', base[1])
                        raise TranslateError(f'line {e.lineno}: FileInfo.write: seek other than seek(0, SEEK_END)')
                    if f.attr == 'tell' and not args:
                        if fo['pos'] == 'end' and not fo['writes']:
                            return ('fileend', base[1])
                        raise TranslateError(f'line {e.lineno}: FileInfo.write: tell() at a position that is not the end of the file before the write')
                    if f.attr == 'write' and len(args) == 1:
                        fo['writes'].append((fo['pos'], args[0]))
                        return ('int', 0)
                    if f.attr == 'close' and not args:
                        return ('none',)
        raise TranslateError(f'line {getattr(e, "lineno", "?")}: FileInfo.write: expression {ast.unparse(e)[:70]!r} not understood')

    # ---- statements
    def assign(self, t, v: tuple) -> None:
        if isinstance(t, ast.Name):
            self.env[t.id] = v
        elif isinstance(t, ast.Attribute):
            base = self.ev(t.value)
            if base == ('self',):
                self.fields[t.attr] = v
            elif base == ('vpk',) and t.attr == 'footer_data':
                self.footer = v
            else:
                raise TranslateError(f'line {t.lineno}: FileInfo.write: assignment to {ast.unparse(t)} not understood')
        else:
            raise TranslateError(f'line {t.lineno}: FileInfo.write: assignment target not understood')

    def run(self, stmts) -> None:
        for s in stmts:
            if isinstance(s, ast.Expr) and isinstance(s.value, ast.Constant):
                continue
            if isinstance(s, ast.Pass):
                continue
            if isinstance(s, ast.Return):
                if s.value is not None and self.ev(s.value) != ('none',):
                    raise TranslateError(f'line {s.lineno}: FileInfo.write returns a value')
                raise _Ret()
            if isinstance(s, ast.Raise):
                if not self.scen.get('writable', True):
                    # the only fact that differs from the accepted run is the mode: this raise is the writability guard
                    raise _Rejected('mode')
                raise TranslateError(f'line {s.lineno}: FileInfo.write raises in a writable archive with a valid index')
            if isinstance(s, ast.Assign):
                v = self.ev(s.value)
                for t in s.targets:
                    self.assign(t, v)
            elif isinstance(s, ast.AnnAssign) and s.value is not None:
                self.assign(s.target, self.ev(s.value))
            elif isinstance(s, ast.AugAssign) and isinstance(s.op, ast.Add):
                cur = self.ev(ast.copy_location(_load(s.target), s.target))
                self.assign(s.target, ('cat', cur, self.ev(s.value)))
            elif isinstance(s, ast.If):
                # the guard `if not writable: raise` and the index check are not taken (writable archive, valid index)
                self.run(s.body if self.truth(self.ev(s.test), s) else s.orelse)
            elif isinstance(s, ast.With) and len(s.items) == 1:
                v = self.ev(s.items[0].context_expr)
                if s.items[0].optional_vars is not None:
                    self.assign(s.items[0].optional_vars, v)
                self.run(s.body)
            elif isinstance(s, ast.Expr):
                self.ev(s.value)
            else:
                raise TranslateError(f'line {s.lineno}: FileInfo.write: statement {ast.unparse(s)[:70]!r} not understood')


def _load(t):
    t2 = ast.parse(ast.unparse(t), mode='eval').body
    return t2


def _norm_cat(v: tuple) -> tuple:
    """flatten concatenations"""
    if v[0] == 'cat':
        return _norm_cat(v[1]) + _norm_cat(v[2])
    return (v,)


def analyse_write(fn: ast.FunctionDef, consts: dict[str, int]) -> dict:
    params = [a.arg for a in fn.args.posonlyargs + fn.args.args]
    if len(params) != 3:
        raise TranslateError('FileInfo.write: (self, data, arch_index) expected')
    rows = []
    facts = {'join_folder': True, 'mode_append': True, 'index_is_arg': True, 'prefix_expr': set()}
    for dr, lim, idx_none, tail_empty in itertools.product((False, True), ('none', 'small', 'big'), (False, True), (False, True)):
        scen = {'dir': dr, 'lim': lim, 'idx_none': idx_none, 'tail_empty': tail_empty, 'same_crc': False}
        st = _Sym(scen, consts, params)
        try:
            st.run(fn.body)
        except _Ret:
            pass
        sd = st.fields.get('start_data')
        cut = {('limit',): 'CLimit', ('max',): 'CMax'}.get(sd[1]) if sd and sd[0] == 'pre' else None
        c = sd[1] if cut else None
        tail = ('tail', c) if c else None
        exact = cut is not None and st.fields.get('crc') == ('cksum', ('data',)) and st.fields.get('arch_len') == ('len', tail)
        wrote = [(fid, fo) for fid, fo in st.files.items() if fo['writes']]
        foot = _norm_cat(st.footer)
        off = st.fields.get('offset')
        if tail_empty:
            # nothing is left: whatever is appended is the empty string; the code must not store an index or an offset
            dest = 'DNone' if not wrote and foot in ((('footer0',),), (('footer0',), tail)) else 'DOther'
            if wrote or len(foot) > 1:
                dest = 'DOther'      # appending the (empty) rest would still create an archive file / is not what the model does
        elif foot == (('footer0',), tail) and not wrote:
            dest = 'DFooter'
        elif foot == (('footer0',),) and len(wrote) == 1 and [w[1] for w in wrote[0][1]['writes']] == [tail]:
            dest = 'DArch'
            fid, fo = wrote[0]
            p = fo['path']
            ok_join = p[0] == 'join' and len(p) == 3 and p[1] == ('folder',) and p[2][0] == 'archname'
            facts['join_folder'] &= ok_join
            facts['mode_append'] &= fo['mode'] == 'ab'
            if ok_join:
                facts['index_is_arg'] &= p[2][2] == ('arg_idx',)
                facts['prefix_expr'].add(p[2][1])
            if off == ('fileend', fid):
                off = ('fileend',)
        else:
            dest = 'DOther'
        offk = 'OZero' if off == ('int', 0) else 'OFooterLen' if off == ('len', ('footer0',)) else 'OArchEnd' if off == ('fileend',) else 'OOther'
        ai = st.fields.get('arch_index')
        stored_none = ai == ('none',)
        if ai not in (('none',), ('arg_idx',)):
            exact = False
        rows.append({'dir': dr, 'lim': lim, 'idx_none': idx_none, 'tail_empty': tail_empty, 'cut': cut or 'COther', 'dest': dest,
                     'stored_none': stored_none, 'off': offk, 'exact': bool(exact)})
    # unchanged checksum: no effect at all
    same_ok = True
    for dr, lim, idx_none in itertools.product((False, True), ('none', 'small', 'big'), (False, True)):
        st = _Sym({'dir': dr, 'lim': lim, 'idx_none': idx_none, 'tail_empty': False, 'same_crc': True}, consts, params)
        try:
            st.run(fn.body)
        except _Ret:
            pass
        changed = {k: v for k, v in st.fields.items() if not (k == 'crc' and v in (('crc_old',), ('cksum', ('data',))))}
        if changed or st.footer != ('footer0',) or st.files:
            same_ok = False
    facts['prefix_expr'] = sorted(map(str, facts['prefix_expr']))
    return {'rows': rows, 'same_crc_skips': same_ok, 'facts': facts}


_STORE = {'crc': 'SCrc', 'start_data': 'SPre', 'arch_index': 'SIdx', 'offset': 'SOff', 'arch_len': 'SLen'}


def analyse_rejections(fn: ast.FunctionDef, consts: dict[str, int]) -> list[dict]:
    """FileInfo.write executed in the *rejection* scenarios: the archive is read-only ('mode'), the index argument is out of range
    ('index'), or both ('both'), for every combination of directory VPK? x limit class x rest empty? x same checksum? (x index None? for
    'mode').  Per run: did a validation raise, which one, and WHAT HAD ALREADY BEEN STORED when it did (fields of the entry, footer_data,
    an archive file opened).  Distinct outcomes per (directory VPK?, same checksum?, kind) go to Gen/VpkPlace_gen.v as `g_rej_table`
    (SM/VpkWriteOrder.v [rejrow]); `rej_table_ok` wants: every validation that can reject raises before the first store."""
    params = [a.arg for a in fn.args.posonlyargs + fn.args.args]
    if len(params) != 3:
        raise TranslateError('FileInfo.write: (self, data, arch_index) expected')
    seen: dict[tuple, dict] = {}
    for kind in ('mode', 'index', 'both'):
        for dr, lim, tail_empty, same, idx_none in itertools.product((False, True), ('none', 'small', 'big'), (False, True), (False, True), (False, True)):
            if idx_none and kind != 'mode':
                continue        # None is never out of range
            scen = {'dir': dr, 'lim': lim, 'idx_none': idx_none, 'tail_empty': tail_empty, 'same_crc': same,
                    'writable': kind == 'index', 'idx_bad': kind != 'mode'}
            st = _Sym(scen, consts, params)
            by = None
            try:
                st.run(fn.body)
            except _Ret:
                pass
            except _Rejected as r:
                by = r.by
            dirty = []
            if by is not None:
                dirty = [_STORE.get(k, 'SOther') for k in st.fields]
                if st.footer != ('footer0',):
                    dirty.append('SFoot')
                if st.files:
                    dirty.append('SArch')
            row = {'dir': dr, 'same': same, 'kind': kind, 'raised': by is not None, 'by': by or kind, 'dirty': dirty}
            seen.setdefault((dr, same, kind, by, tuple(dirty)), row)
    return list(seen.values())


def coq_rej_rows(rows: list[dict]) -> str:
    b = lambda x: 'true' if x else 'false'
    k = {'mode': 'KMode', 'index': 'KIndex', 'both': 'KBoth'}
    return '[' + ';\n   '.join(
        f'mkRej {b(r["dir"])} {b(r["same"])} {k[r["kind"]]} {b(r["raised"])} {k[r["by"]]} [{"; ".join(r["dirty"])}]' for r in rows) + ']'


def rej_rows_ok(rows: list[dict]) -> bool:
    """side information only (the obligation is decided in Coq): every validation raises before the first store"""
    for r in rows:
        if r['kind'] == 'index' and not r['dir']:
            if r['raised']:
                return False
        elif not r['raised'] or r['dirty'] or r['by'] != ('mode' if r['kind'] != 'index' else 'index'):
            return False
    return len({(r['dir'], r['same'], r['kind']) for r in rows}) == 12


def coq_rows(rows: list[dict]) -> str:
    b = lambda x: 'true' if x else 'false'
    lim = {'none': 'LNone', 'small': 'LSmall', 'big': 'LBig'}
    return '[' + ';\n   '.join(
        f'mkRow {b(r["dir"])} {lim[r["lim"]]} {b(r["idx_none"])} {b(r["tail_empty"])} {r["cut"]} {r["dest"]} {b(r["stored_none"])} {r["off"]} {b(r["exact"])}'
        for r in rows) + ']'


def module_int_consts(tree: ast.Module) -> dict[str, int]:
    """Module-level NAME = <int literal> / NAME: Final = <int literal>."""
    out: dict[str, int] = {}
    for n in tree.body:
        tg = val = None
        if isinstance(n, ast.AnnAssign) and isinstance(n.target, ast.Name) and n.value is not None:
            tg, val = n.target.id, n.value
        elif isinstance(n, ast.Assign) and len(n.targets) == 1 and isinstance(n.targets[0], ast.Name):
            tg, val = n.targets[0].id, n.value
        if tg and isinstance(val, ast.Constant) and type(val.value) is int:
            out[tg] = val.value
    return out


def rows_ok(rows: list[dict]) -> tuple[bool, bool]:
    """(cut as the model wants, destination as the model wants): the same comparison as SM/VpkPlace.v [place_cut_ok]/[place_dest_ok],
    for the side information only; the obligation is decided in Coq on the generated table."""
    cut_ok = dest_ok = len(rows) == 24
    for r in rows:
        forced = (not r['dir']) or r['lim'] == 'none'
        cut = 'CMax' if forced or r['lim'] != 'small' else 'CLimit'
        dest = 'DNone' if r['tail_empty'] else 'DFooter' if forced or r['idx_none'] else 'DArch'
        off = {'DNone': 'OZero', 'DFooter': 'OFooterLen', 'DArch': 'OArchEnd'}[dest]
        cut_ok &= r['cut'] == cut and r['exact']
        dest_ok &= r['dest'] == dest and r['off'] == off and r['stored_none'] == (dest != 'DArch')
    return cut_ok, dest_ok


# ------------------------------------------------------------------------------------------------ FileInfo.read / FileInfo.verify
class _RetV(Exception):
    def __init__(self, v):
        self.v = v


class _SymR:
    """FileInfo.read / verify on symbolic values: scenario = (arch_len is zero?, arch_index is None?)."""
    def __init__(self, scen: dict, self_name: str, cls: ast.ClassDef, depth: int = 0):
        self.scen, self.self_name, self.cls, self.depth = scen, self_name, cls, depth
        self.env: dict[str, tuple] = {}
        self.files: dict[int, dict] = {}
        self.nfile = 0

    NUM = ('off', 'alen', 'int', 'add')

    def attr(self, base: tuple, name: str, node) -> tuple:
        if base == ('self',):
            m = {'start_data': ('start',), 'offset': ('off',), 'arch_len': ('alen',), 'crc': ('crc',), 'vpk': ('vpk',)}
            if name == 'arch_index':
                return ('none',) if self.scen['idx_none'] else ('idx',)
            if name in m:
                return m[name]
        if base == ('vpk',):
            m = {'footer_data': ('footer0',), 'file_prefix': ('file_prefix',), '_dir_prefix': ('prefix',), 'folder': ('folder',)}
            if name in m:
                return m[name]
        if base == ('mod', 'os') and name == 'path':
            return ('mod', 'os.path')
        raise TranslateError(f'line {node.lineno}: FileInfo.read/verify: attribute {name} of {base} not understood')

    def truth(self, v: tuple, node) -> bool:
        if v[0] == 'bool':
            return v[1]
        if v == ('alen',):
            return not self.scen['alen_zero']
        if v == ('none',):
            return False
        raise TranslateError(f'line {node.lineno}: FileInfo.read/verify: truth value of {v} not understood')

    def ev(self, e) -> tuple:
        if isinstance(e, ast.Constant):
            if e.value is None:
                return ('none',)
            if isinstance(e.value, bool):
                return ('bool', e.value)
            if isinstance(e.value, int):
                return ('int', e.value)
            if isinstance(e.value, (str, bytes)):
                return ('str', e.value)
        if isinstance(e, ast.Name):
            if e.id == self.self_name:
                return ('self',)
            if e.id in self.env:
                return self.env[e.id]
            if e.id == 'os':
                return ('mod', 'os')
            raise TranslateError(f'line {e.lineno}: FileInfo.read/verify: name {e.id} not understood')
        if isinstance(e, ast.Attribute):
            return self.attr(self.ev(e.value), e.attr, e)
        if isinstance(e, ast.UnaryOp) and isinstance(e.op, ast.Not):
            return ('bool', not self.truth(self.ev(e.operand), e))
        if isinstance(e, ast.IfExp):
            return self.ev(e.body) if self.truth(self.ev(e.test), e) else self.ev(e.orelse)
        if isinstance(e, ast.BoolOp):
            v = None
            for x in e.values:
                v = self.ev(x)
                t = self.truth(v, e)
                if (isinstance(e.op, ast.And) and not t) or (isinstance(e.op, ast.Or) and t):
                    return v
            return v
        if isinstance(e, ast.Compare) and len(e.ops) == 1:
            a, b, op = self.ev(e.left), self.ev(e.comparators[0]), e.ops[0]
            if ('none',) in (a, b) and isinstance(op, (ast.Is, ast.IsNot, ast.Eq, ast.NotEq)):
                other = a if b == ('none',) else b
                if other not in (('idx',), ('none',)):
                    raise TranslateError(f'line {e.lineno}: FileInfo.read/verify: comparison of {other} with None')
                r = other == ('none',)
                return ('bool', r if isinstance(op, (ast.Is, ast.Eq)) else not r)
            if {a, b} == {('alen',), ('int', 0)}:
                z = self.scen['alen_zero']
                if isinstance(op, ast.Eq):
                    return ('bool', z)
                if isinstance(op, ast.NotEq) or (isinstance(op, ast.Gt) and a == ('alen',)) or (isinstance(op, ast.Lt) and b == ('alen',)):
                    return ('bool', not z)
            if isinstance(op, ast.Eq):
                return ('eq', a, b)
            raise TranslateError(f'line {e.lineno}: FileInfo.read/verify: comparison {ast.unparse(e)[:60]} not understood')
        if isinstance(e, ast.BinOp) and isinstance(e.op, ast.Add):
            a, b = self.ev(e.left), self.ev(e.right)
            if a[0] in self.NUM and b[0] in self.NUM:
                return ('add',) + tuple(sorted([a, b]))
            return ('cat', a, b)
        if isinstance(e, ast.Subscript) and isinstance(e.slice, ast.Slice) and e.slice.step is None:
            base = self.ev(e.value)
            lo = None if e.slice.lower is None else self.ev(e.slice.lower)
            hi = None if e.slice.upper is None else self.ev(e.slice.upper)
            if base == ('footer0',) and lo == ('off',) and hi == ('add', ('alen',), ('off',)):
                return ('fslice',)
            raise TranslateError(f'line {e.lineno}: FileInfo.read/verify: slice {ast.unparse(e)[:60]} not understood')
        if isinstance(e, ast.Call) and not e.keywords:
            f = e.func
            args = [self.ev(a) for a in e.args]
            if isinstance(f, ast.Name):
                if f.id == 'checksum' and len(args) == 1:
                    return ('cksum', args[0])
                if f.id == 'checksum' and len(args) == 2:
                    return ('cksum2', args[0], args[1])
                if f.id == 'get_arch_filename' and len(args) == 2:
                    return ('archname', args[0], args[1])
                if f.id == 'open' and len(args) == 2 and args[1][0] == 'str':
                    self.nfile += 1
                    self.files[self.nfile] = {'path': args[0], 'mode': args[1][1], 'pos': ('int', 0)}
                    return ('file', self.nfile)
                if f.id == 'bytes' and len(args) == 1:
                    return args[0]
            if isinstance(f, ast.Attribute):
                base = self.ev(f.value)
                if base == ('mod', 'os.path') and f.attr == 'join':
                    return ('join',) + tuple(args)
                if base == ('self',) and f.attr == 'read' and not args and self.depth == 0:
                    rd = [n for n in self.cls.body if isinstance(n, ast.FunctionDef) and n.name == 'read']
                    if len(rd) == 1:
                        return _run_reader(rd[0], self.cls, self.scen, depth=1)[0]
                if base[0] == 'file':
                    fo = self.files[base[1]]
                    if f.attr == 'seek' and len(args) == 1:
                        fo['pos'] = args[0]
                        return args[0]
                    if f.attr == 'read' and len(args) <= 1:
                        v = ('fread', fo['path'], fo['mode'], fo['pos'], args[0] if args else None)
                        fo['pos'] = ('after',)
                        return v
                    if f.attr == 'close' and not args:
                        return ('none',)
        raise TranslateError(f'line {getattr(e, "lineno", "?")}: FileInfo.read/verify: expression {ast.unparse(e)[:70]!r} not understood')

    def run(self, stmts) -> None:
        for s in stmts:
            if isinstance(s, ast.Expr) and isinstance(s.value, ast.Constant):
                continue
            if isinstance(s, ast.Pass):
                continue
            if isinstance(s, ast.Return):
                raise _RetV(('none',) if s.value is None else self.ev(s.value))
            if isinstance(s, ast.Assign) and all(isinstance(t, ast.Name) for t in s.targets):
                v = self.ev(s.value)
                for t in s.targets:
                    self.env[t.id] = v
            elif isinstance(s, ast.AugAssign) and isinstance(s.op, ast.Add) and isinstance(s.target, ast.Name) and s.target.id in self.env:
                self.env[s.target.id] = ('cat', self.env[s.target.id], self.ev(s.value))
            elif isinstance(s, ast.If):
                self.run(s.body if self.truth(self.ev(s.test), s) else s.orelse)
            elif isinstance(s, ast.With) and len(s.items) == 1:
                v = self.ev(s.items[0].context_expr)
                if isinstance(s.items[0].optional_vars, ast.Name):
                    self.env[s.items[0].optional_vars.id] = v
                elif s.items[0].optional_vars is not None:
                    raise TranslateError(f'line {s.lineno}: FileInfo.read/verify: with-target not understood')
                self.run(s.body)
            elif isinstance(s, ast.Expr):
                self.ev(s.value)
            else:
                raise TranslateError(f'line {s.lineno}: FileInfo.read/verify: statement {ast.unparse(s)[:70]!r} not understood')


def _run_reader(fn: ast.FunctionDef, cls: ast.ClassDef, scen: dict, depth: int = 0):
    params = [a.arg for a in fn.args.posonlyargs + fn.args.args]
    st = _SymR(scen, params[0], cls, depth)
    try:
        st.run(fn.body)
    except _RetV as r:
        return r.v, st
    return ('none',), st


def _content(v: tuple) -> tuple:
    """the byte string a value stands for, as a flat concatenation"""
    if v[0] == 'cat':
        return _content(v[1]) + _content(v[2])
    return (v,)


def _cksum_content(v: tuple):
    """checksum(b, checksum(a)) is checksum(a + b) (zlib.crc32 chaining, assumed): the content a checksum value covers"""
    if v[0] == 'cksum':
        return _content(v[1])
    if v[0] == 'cksum2':
        inner = _cksum_content(v[2])
        return None if inner is None else inner + _content(v[1])
    return None


def analyse_readers(cls: ast.ClassDef) -> dict:
    """Rows (arch_len zero?, arch_index None?) -> where read() takes the bytes after start_data from, and whether verify() compares the
    checksum of exactly those bytes with self.crc."""
    fread = [n for n in cls.body if isinstance(n, ast.FunctionDef) and n.name == 'read'][0]
    fver = [n for n in cls.body if isinstance(n, ast.FunctionDef) and n.name == 'verify'][0]
    rows = []
    facts = {'join_folder': True, 'mode_rb': True, 'index_is_stored': True, 'prefix_exprs': set()}
    for alen_zero, idx_none in itertools.product((False, True), (False, True)):
        scen = {'alen_zero': alen_zero, 'idx_none': idx_none}
        rv, _ = _run_reader(fread, cls, scen)
        vv, _ = _run_reader(fver, cls, scen)
        rc = _content(rv)

        def classify(c):
            if c == (('start',),):
                return 'RNone'
            if c == (('start',), ('fslice',)):
                return 'RFooter'
            if len(c) == 2 and c[0] == ('start',) and c[1][0] == 'fread':
                _, path, mode, pos, n = c[1]
                ok = path[0] == 'join' and len(path) == 3 and path[1] == ('folder',) and path[2][0] == 'archname'
                facts['join_folder'] &= ok
                facts['mode_rb'] &= mode == 'rb'
                if ok:
                    facts['index_is_stored'] &= path[2][2] == ('idx',)
                    facts['prefix_exprs'].add(str(path[2][1]))
                return 'RArch' if ok and pos == ('off',) and n == ('alen',) else 'ROther'
            return 'ROther'
        src = classify(rc)
        vc = None
        if vv[0] == 'eq' and ('crc',) in (vv[1], vv[2]):
            vc = _cksum_content(vv[1] if vv[2] == ('crc',) else vv[2])
        vsrc = classify(vc) if vc is not None else 'ROther'
        rows.append({'alen_zero': alen_zero, 'idx_none': idx_none, 'read': src, 'verify': vsrc})
    facts['prefix_exprs'] = sorted(facts['prefix_exprs'])
    return {'rows': rows, 'facts': facts}


def coq_read_rows(rows: list[dict]) -> str:
    b = lambda x: 'true' if x else 'false'
    return '[' + '; '.join(f'mkRRow {b(r["alen_zero"])} {b(r["idx_none"])} {r["read"]} {r["verify"]}' for r in rows) + ']'


# ------------------------------------------------------------------------------------------------ small pure checks, executed concretely
class _Raised(Exception):
    def __init__(self, what: str):
        self.what = what


class _Returned(Exception):
    def __init__(self, v):
        self.v = v


def mini_exec(stmts, env: dict, funcs: dict, depth: int = 0) -> None:
    """A concrete interpreter for the validation code (pure: comparisons of strings / ints / None, loops over tuples, raise)."""
    if depth > 6:
        raise TranslateError('validation code too deeply nested')
    for s in stmts:
        if isinstance(s, ast.Expr) and isinstance(s.value, ast.Constant):
            continue
        if isinstance(s, ast.Pass):
            continue
        if isinstance(s, ast.If):
            mini_exec(s.body if mini_eval(s.test, env, funcs) else s.orelse, env, funcs, depth + 1)
        elif isinstance(s, ast.For) and isinstance(s.target, ast.Name) and not s.orelse:
            for v in mini_eval(s.iter, env, funcs):
                env2 = env
                env2[s.target.id] = v
                mini_exec(s.body, env2, funcs, depth + 1)
        elif isinstance(s, ast.Raise):
            e = s.exc
            raise _Raised(ast.unparse(e.func if isinstance(e, ast.Call) else e) if e is not None else '?')
        elif isinstance(s, ast.Return):
            raise _Returned(None if s.value is None else mini_eval(s.value, env, funcs))
        elif isinstance(s, ast.Assign) and len(s.targets) == 1 and isinstance(s.targets[0], ast.Name):
            env[s.targets[0].id] = mini_eval(s.value, env, funcs)
        elif isinstance(s, ast.Expr):
            mini_eval(s.value, env, funcs)
        else:
            raise TranslateError(f'line {s.lineno}: validation statement {ast.unparse(s)[:60]!r} not understood')


def mini_eval(e, env: dict, funcs: dict):
    if isinstance(e, ast.Constant):
        return e.value
    if isinstance(e, ast.JoinedStr):
        return '?'
    if isinstance(e, ast.Name):
        if e.id in env:
            return env[e.id]
        raise TranslateError(f'line {e.lineno}: validation code uses {e.id}')
    if isinstance(e, (ast.Tuple, ast.List)):
        return tuple(mini_eval(x, env, funcs) for x in e.elts)
    if isinstance(e, ast.UnaryOp) and isinstance(e.op, ast.Not):
        return not mini_eval(e.operand, env, funcs)
    if isinstance(e, ast.BoolOp):
        v = None
        for x in e.values:
            v = mini_eval(x, env, funcs)
            if (isinstance(e.op, ast.And) and not v) or (isinstance(e.op, ast.Or) and v):
                return v
        return v
    if isinstance(e, ast.Compare):
        left = mini_eval(e.left, env, funcs)
        for op, c in zip(e.ops, e.comparators):
            right = mini_eval(c, env, funcs)
            try:
                ok = {ast.In: lambda a, b: a in b, ast.NotIn: lambda a, b: a not in b, ast.Eq: lambda a, b: a == b, ast.NotEq: lambda a, b: a != b,
                      ast.Is: lambda a, b: a is b, ast.IsNot: lambda a, b: a is not b, ast.Lt: lambda a, b: a < b, ast.LtE: lambda a, b: a <= b,
                      ast.Gt: lambda a, b: a > b, ast.GtE: lambda a, b: a >= b}[type(op)](left, right)
            except TypeError:
                raise _Raised('TypeError')
            if not ok:
                return False
            left = right
        return True
    if isinstance(e, (ast.GeneratorExp, ast.ListComp)) and len(e.generators) == 1 and isinstance(e.generators[0].target, ast.Name):
        g = e.generators[0]
        out = []
        for v in mini_eval(g.iter, env, funcs):
            env2 = dict(env)
            env2[g.target.id] = v
            if all(mini_eval(c, env2, funcs) for c in g.ifs):
                out.append(mini_eval(e.elt, env2, funcs))
        return out
    if isinstance(e, ast.Call) and isinstance(e.func, ast.Name) and not e.keywords:
        args = [mini_eval(a, env, funcs) for a in e.args]
        if e.func.id in ('any', 'all') and len(args) == 1:
            return any(args[0]) if e.func.id == 'any' else all(args[0])
        if e.func.id in funcs:
            return funcs[e.func.id](*args)
        if e.func.id in ('ValueError', 'TypeError', 'len', 'repr', 'str'):
            return '?'
    raise TranslateError(f'line {getattr(e, "lineno", "?")}: validation expression {ast.unparse(e)[:60]!r} not understood')


def index_check_ok(fn: ast.FunctionDef, consts: dict[str, int]) -> bool:
    """`_check_arch_index` executed on None and on integers around 0, DIR_ARCH_INDEX and the 16-bit limit: it must raise exactly when the
    index is not None and not in 0 .. DIR_ARCH_INDEX-1."""
    params = [a.arg for a in fn.args.posonlyargs + fn.args.args]
    if len(params) != 1 or 'DIR_ARCH_INDEX' not in consts:
        return False
    d = consts['DIR_ARCH_INDEX']
    for v in (None, -2, -1, 0, 1, 2, 7, d - 2, d - 1, d, d + 1, 32768, 65535, 65536, 100000):
        env = dict(consts)
        env[params[0]] = v
        raised = False
        try:
            mini_exec(fn.body, env, {})
        except _Raised:
            raised = True
        except _Returned:
            pass
        if raised != (v is not None and not (0 <= v < d)):
            return False
    return True


def index_check_guarded(fn: ast.FunctionDef, vpk_exprs: tuple[str, ...]) -> bool:
    """`if <vpk>._dir_prefix is not None: _check_arch_index(<index parameter>)` (also `<vpk>.is_directory`, also through a local bound to
    `<vpk>._dir_prefix`) as a statement of the body that comes BEFORE the first statement that creates or writes an entry (`new_file` /
    `.write`): a bad index must not leave an empty file behind."""
    params = [a.arg for a in fn.args.posonlyargs + fn.args.args + fn.args.kwonlyargs]
    accepted = tuple(f'{v}._dir_prefix is not None' for v in vpk_exprs) + tuple(f'{v}.is_directory' for v in vpk_exprs)
    alias: dict[str, str] = {}
    for s in fn.body:
        if isinstance(s, ast.Assign) and len(s.targets) == 1 and isinstance(s.targets[0], ast.Name) and isinstance(s.value, ast.Attribute):
            alias[s.targets[0].id] = ast.unparse(s.value)
            continue
        if isinstance(s, ast.If) and not s.orelse:
            test = s.test
            if isinstance(test, ast.Compare) and isinstance(test.left, ast.Name) and test.left.id in alias:
                test = ast.Compare(left=ast.parse(alias[test.left.id], mode='eval').body, ops=test.ops, comparators=test.comparators)
            if ast.unparse(test) in accepted:
                for b in s.body:
                    if isinstance(b, ast.Expr) and isinstance(b.value, ast.Call) and isinstance(b.value.func, ast.Name) \
                            and b.value.func.id == '_check_arch_index' and len(b.value.args) == 1 and isinstance(b.value.args[0], ast.Name) \
                            and b.value.args[0].id in params:
                        return True
        if any(isinstance(n, ast.Call) and isinstance(n.func, ast.Attribute) and n.func.attr in ('new_file', 'write') for n in ast.walk(s)):
            return False
    return False


def name_check_ok(fn: ast.FunctionDef) -> bool:
    """The validation statements of new_file (between `_get_file_parts` and the first statement that touches the nest), executed on all
    triples of probe strings: ValueError exactly when a part contains NUL or is a single space (probes are ASCII)."""
    body = list(fn.body)
    start = None
    names = None
    for i, s in enumerate(body):
        if isinstance(s, ast.Assign) and isinstance(s.value, ast.Call) and isinstance(s.value.func, ast.Name) and s.value.func.id == '_get_file_parts' \
                and len(s.targets) == 1 and isinstance(s.targets[0], ast.Tuple) and all(isinstance(x, ast.Name) for x in s.targets[0].elts):
            start, names = i + 1, [x.id for x in s.targets[0].elts]
    if start is None or len(names) != 3:
        return False
    block = []
    for s in body[start:]:
        if any(isinstance(n, ast.Attribute) and n.attr == '_fileinfo' for n in ast.walk(s)):
            break
        block.append(s)
    params = [a.arg for a in fn.args.posonlyargs + fn.args.args]
    probes = ['a', ' ', '', 'a\x00b', '\x00', '  ', ' a']
    ascii_ok = lambda v: all(ord(c) < 0x80 or 0xDC80 <= ord(c) <= 0xDCFF for c in v)
    for p in probes:
        for n in probes:
            for x in probes:
                env = {names[0]: p, names[1]: n, names[2]: x}
                for q in params:
                    env.setdefault(q, '?')
                raised = None
                try:
                    mini_exec(block, env, {'_check_is_ascii': ascii_ok})
                except _Raised as r:
                    raised = r.what
                except _Returned:
                    return False
                bad = any('\x00' in v or v == ' ' for v in (p, n, x))
                if (raised is not None) != bad:
                    return False
    # and non-ASCII names are refused
    env = {names[0]: 'a', names[1]: 'caf\xe9', names[2]: 'x'}
    for q in params:
        env.setdefault(q, '?')
    try:
        mini_exec(block, env, {'_check_is_ascii': ascii_ok})
    except _Raised:
        return True
    except _Returned:
        return False
    return False
