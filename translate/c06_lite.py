"""C06 round 3: the object level ("vmf_lite") -- which attribute every written key carries, and which attribute every key
is read into.

Writer side: for every written keyvalue line of an export method (the template census of c06_vmf.py), the attributes of
`self` its value is computed from (loop variables and single-assignment locals are resolved to the attributes their
iterable / initialiser mentions).
Reader side: a data-flow analysis of the parse methods: which (block, key) lookups flow -- through locals, containers
filled by append/add/extend/item assignment, conditions that guard a constant assignment -- into which constructor
argument or attribute assignment, and through the constructor (`__init__` assignments, or the field list of an attrs class)
into which attribute.

Gen/VmfLite_gen.v lists per class: written (block, key) -> attributes, read (block, key) -> attributes.  The pairing itself
is judged in Coq (Fmt/VmfLite.v: lite_paired, lite_attrs_written).  Fail-closed: statement kinds, call shapes and
constructor shapes that are not understood raise TranslateError."""
from __future__ import annotations

import ast
import re
from typing import Any

from harness.common import TranslateError, src_text
from translate import c06_vmf as T

# class -> (export methods whose lines belong to the object, parse methods that build it, name of the object under construction
# in each parse method)
CLASSES: dict[str, dict[str, Any]] = {
    'Camera': {'export': ['Camera.export'], 'parse': {'Camera.parse': None}},
    'Cordon': {'export': ['Cordon.export'], 'parse': {'Cordon.parse': None}},
    'VisGroup': {'export': ['VisGroup.export'], 'parse': {'VisGroup.parse': None}},
    'EntityGroup': {'export': ['EntityGroup.export'], 'parse': {'EntityGroup.parse': None}},
    'Solid': {'export': ['Solid.export'], 'parse': {'Solid.parse': None}},
    'Side': {'export': ['Side.export', 'Side._export_displacement'],
             'parse': {'Side.parse': 'side', 'Side._parse_displacement_data': 'self', 'Side._parse_strata_points': 'self'}},
    'Entity': {'export': ['Entity.export'], 'parse': {'Entity.parse': None}},
    'VMF': {'export': ['VMF.export'], 'parse': {'VMF.parse': 'map_obj'}},
}
# attributes that hold the per-vertex arrays of a displacement: their content is carried by the row<y> key families, and
# their shape legitimately depends on `power`; rows, shapes and row keys are the subject of the disp_* obligations
ARRAY_ATTRS: dict[str, set[str]] = {'Side': {'_disp_verts'}}
# attributes that are aliases of (part of) another attribute's object: VMF.brushes is the list object VMF.spawn.solids
ALIAS_ATTRS: dict[str, dict[str, str]] = {'VMF': {'brushes': 'spawn'}}
CONTAINER_MUTATORS = {'append', 'add', 'extend', 'update', 'insert'}
# blocks that are objects of another class (their lines belong to that class's own table)
Src = tuple  # (block, key)


def _root_attr(t: ast.AST) -> tuple[str | None, str | None]:
    """root.a[...].b = ...  ->  (root, a);  root[...] = ... -> (root, None)."""
    node, last = t, None
    while isinstance(node, (ast.Subscript, ast.Attribute)):
        last = node
        node = node.value
    if not isinstance(node, ast.Name):
        return None, None
    return node.id, (last.attr if isinstance(last, ast.Attribute) else None)


def _binding_names(t: ast.AST) -> list[str]:
    """Names bound by an assignment / loop target (not the names inside subscripts or attribute chains)."""
    if isinstance(t, ast.Name):
        return [t.id]
    if isinstance(t, (ast.Tuple, ast.List)):
        return [x for e in t.elts for x in _binding_names(e)]
    if isinstance(t, ast.Starred):
        return _binding_names(t.value)
    return []


def _class_nodes(tree: ast.Module) -> dict[str, ast.ClassDef]:
    return {n.name: n for n in tree.body if isinstance(n, ast.ClassDef)}


# ------------------------------------------------------------------------------------------------ constructor: parameter -> attributes
def ctor_map(cls: ast.ClassDef) -> tuple[list[str], dict[str, set[str]]]:
    """(parameter names in positional order without self, parameter -> attributes it is stored in)."""
    init = next((m for m in cls.body if isinstance(m, ast.FunctionDef) and m.name == '__init__'), None)
    if init is None:
        # attrs class: the annotated class-body fields, in order, are the parameters; a leading underscore is stripped
        if not any('attrs' in ast.unparse(d) for d in cls.decorator_list):
            raise TranslateError(f'{cls.name}: neither __init__ nor an attrs class')
        params, m = [], {}
        for n in cls.body:
            if isinstance(n, ast.AnnAssign) and isinstance(n.target, ast.Name) and 'ClassVar' not in ast.unparse(n.annotation):
                if isinstance(n.value, ast.Call) and any(k.arg == 'init' and ast.unparse(k.value) == 'False' for k in n.value.keywords):
                    continue
                params.append(n.target.id.lstrip('_'))
                m[n.target.id.lstrip('_')] = {n.target.id}
        return params, m
    a = init.args
    if a.vararg or a.kwarg:
        raise TranslateError(f'{cls.name}.__init__: *args/**kwargs')
    params = [x.arg for x in a.posonlyargs + a.args][1:] + [x.arg for x in a.kwonlyargs]
    # locals of __init__ that depend on parameters (one pass in source order, union)
    dep: dict[str, set[str]] = {p: {p} for p in params}
    m: dict[str, set[str]] = {p: set() for p in params}

    def deps(e: ast.AST) -> set[str]:
        out: set[str] = set()
        for n in ast.walk(e):
            if isinstance(n, ast.Name) and n.id in dep:
                out |= dep[n.id]
        return out
    setitem = next((x for x in cls.body if isinstance(x, ast.FunctionDef) and x.name == '__setitem__'), None)
    item_attrs: set[str] = set()
    if setitem is not None:
        for n in ast.walk(setitem):
            if isinstance(n, ast.Assign):
                for t in n.targets:
                    r, a = _root_attr(t)
                    if r == 'self' and a is not None:
                        item_attrs.add(a)
    for n in ast.walk(init):
        if isinstance(n, ast.For):
            d = deps(n.iter)
            for x in _binding_names(n.target):
                if x not in params:
                    dep.setdefault(x, set()).update(d)
        if isinstance(n, (ast.Assign, ast.AnnAssign, ast.AugAssign)) and n.value is not None:
            tgts = n.targets if isinstance(n, ast.Assign) else [n.target]
            d = deps(n.value)
            for t in tgts:
                for x in _binding_names(t):
                    if x not in params:
                        dep.setdefault(x, set()).update(d)
                if not _binding_names(t):
                    r, a = _root_attr(t)
                    if r == 'self' and a is not None:
                        for p in d:
                            m[p].add(a)
                    elif r == 'self' and a is None:
                        # self[k] = v: stored by __setitem__
                        if not item_attrs:
                            raise TranslateError(f'{cls.name}.__init__: self[...] = ... but __setitem__ stores into no attribute')
                        for p in d | deps(t):
                            m[p].update(item_attrs)
    return params, m


_CLASS_NODES: dict[str, ast.ClassDef] = {}


def method_param_attrs(cls: ast.ClassDef | None, meth: str) -> dict[str, set[str]]:
    """parameter (in positional order, without self) -> attributes of self the method stores it in, directly:
    self.X.append/add/extend/insert(param), self.X = param.  Empty when the method is unknown or stores nothing."""
    if cls is None:
        return {}
    fn = next((m for m in cls.body if isinstance(m, ast.FunctionDef) and m.name == meth), None)
    if fn is None or fn.args.vararg or fn.args.kwarg:
        return {}
    params = [x.arg for x in fn.args.posonlyargs + fn.args.args][1:]
    out: dict[str, set[str]] = {p: set() for p in params}
    for n in ast.walk(fn):
        if isinstance(n, ast.Call) and isinstance(n.func, ast.Attribute) and n.func.attr in CONTAINER_MUTATORS \
                and isinstance(n.func.value, ast.Attribute) and isinstance(n.func.value.value, ast.Name) and n.func.value.value.id == 'self':
            for a in n.args:
                if isinstance(a, ast.Name) and a.id in out:
                    out[a.id].add(n.func.value.attr)
        elif isinstance(n, ast.Assign) and isinstance(n.value, ast.Name) and n.value.id in out:
            for t in n.targets:
                if isinstance(t, ast.Attribute) and isinstance(t.value, ast.Name) and t.value.id == 'self':
                    out[n.value.id].add(t.attr)
    return out if any(out.values()) else {}


# ------------------------------------------------------------------------------------------------ reader: data flow
class FlowWalker(T.ParseWalker):
    """ParseWalker (which tracks which variable denotes which block and records the lookups) plus the flow of the looked-up
    values into locals, constructor arguments and attributes."""

    def __init__(self, fn: str, node: ast.FunctionDef, roots: dict[str, str], consts: dict[str, list[str]], obj: str | None,
                 cls: str) -> None:
        self.taint: dict[str, set[Src]] = {}
        self.leaf: dict[str, Src] = {}            # variable narrowed to one key of its parent block
        self.control: list[set[Src]] = []         # sources of the enclosing conditions
        self.obj = obj
        self.cls = cls
        self.attr_src: dict[str, set[Src]] = {}   # attribute of the object under construction <- sources
        self.ctor_calls: list[tuple[list[set[Src]], dict[str, set[Src]]]] = []
        super().__init__(fn, node, roots, consts)

    # sources of an expression
    def sources(self, e: ast.AST | None) -> set[Src]:
        if e is None:
            return set()
        saved = self.reads
        self.reads = []
        try:
            self.expr(e)
            out: set[Src] = {(b, k + '*' if p else k) for b, k, p in self.reads}
        finally:
            saved += self.reads
            self.reads = saved
        # defaults of a lookup (tree['key', default], tree.int('key', default)) are used only when the key is absent; the
        # writer always writes the key, so they carry nothing in a round trip
        skip: set[int] = set()
        for n in ast.walk(e):
            dflt: list[ast.AST] = []
            if isinstance(n, ast.Subscript) and isinstance(n.value, ast.Name) and n.value.id in self.env and isinstance(n.slice, ast.Tuple):
                dflt = list(n.slice.elts[1:])
            elif isinstance(n, ast.Call) and isinstance(n.func, ast.Attribute) and isinstance(n.func.value, ast.Name) \
                    and n.func.value.id in self.env and n.func.attr in T.KV_READ_METHODS | {'find_key', 'find_block'}:
                dflt = list(n.args[1:]) + [k.value for k in n.keywords]
            for d in dflt:
                skip.update(id(x) for x in ast.walk(d))
        for n in ast.walk(e):
            if id(n) in skip:
                continue
            if isinstance(n, ast.Name) and n.id in self.taint and n.id != self.obj:
                out |= self.taint[n.id]
            elif isinstance(n, ast.Attribute) and n.attr in ('value', 'real_name') and isinstance(n.value, ast.Name):
                v = n.value.id
                if v in self.leaf:
                    out.add(self.leaf[v])
                elif v in self.env and not isinstance(self.env[v], str) and self.env[v][0] == 'child':
                    out.add((self.env[v][1], '*'))
            elif isinstance(n, ast.Name) and n.id in self.alias and n.id not in self.taint:
                pass
            elif isinstance(n, ast.Call) and ast.unparse(n.func).endswith('.parse'):
                # a block handed to another parser: a child object (the block may be the variable of a comprehension that
                # iterates over the children of a block)
                comp_blocks = {x for c in ast.walk(e) if isinstance(c, ast.comprehension)
                               and any(isinstance(y, ast.Name) and y.id in self.env for y in ast.walk(c.iter))
                               for x in _binding_names(c.target)}
                if any(isinstance(a, ast.Name) and (a.id in self.env or a.id in comp_blocks) for a in n.args):
                    callee = ast.unparse(n.func)[:-len('.parse')]
                    out.add(('<child>', self.cls if callee == 'cls' else callee))
        return out

    def narrow_src(self, test: ast.AST) -> tuple[str, Src] | None:
        """name == 'lit' (also as the first conjunct of an `and`), name.startswith('lit')."""
        if isinstance(test, ast.BoolOp) and isinstance(test.op, ast.And):
            return self.narrow_src(test.values[0])
        if isinstance(test, ast.Compare) and len(test.ops) == 1 and isinstance(test.ops[0], ast.Eq) \
                and isinstance(test.comparators[0], ast.Constant) and isinstance(test.comparators[0].value, str):
            v = self.namevar(test.left)
            if v is not None and not isinstance(self.env[v], str):
                return v, (self.env[v][1], test.comparators[0].value.casefold())
        if isinstance(test, ast.Call) and isinstance(test.func, ast.Attribute) and test.func.attr == 'startswith' and len(test.args) == 1 \
                and isinstance(test.args[0], ast.Constant):
            v = self.namevar(test.func.value)
            if v is not None and not isinstance(self.env[v], str):
                return v, (self.env[v][1], str(test.args[0].value).casefold() + '*')
        return None

    def assign(self, tgt: ast.AST, src: set[Src]) -> None:
        if not src and self.control:
            src = set(self.control[-1])
        if isinstance(tgt, (ast.Tuple, ast.List)):
            for t in tgt.elts:
                self.assign(t, src)
        elif isinstance(tgt, ast.Starred):
            self.assign(tgt.value, src)
        elif isinstance(tgt, ast.Name):
            self.taint.setdefault(tgt.id, set()).update(src)
        elif isinstance(tgt, (ast.Subscript, ast.Attribute)):
            # root of the chain  root.a[b].c ... : a local container, or an attribute of the object under construction
            extra: set[Src] = set()
            node: ast.AST = tgt
            first_attr = None
            while isinstance(node, (ast.Subscript, ast.Attribute)):
                if isinstance(node, ast.Subscript):
                    extra |= self.sources(node.slice)
                    first_attr = None if not isinstance(node.value, ast.Name) else first_attr
                else:
                    first_attr = node.attr
                node = node.value
            if not isinstance(node, ast.Name):
                raise TranslateError(f'{self.fn}:{getattr(tgt, "lineno", 0)}: assignment target {ast.unparse(tgt)}')
            # first_attr is now the attribute applied directly to the root name (None when the root is subscripted first)
            direct = self._direct_attr(tgt)
            if node.id == self.obj and direct is not None:
                self.attr_src.setdefault(direct, set()).update(src | extra)
            elif direct is None or node.id in self.taint:
                self.taint.setdefault(node.id, set()).update(src | extra)
            # attributes of other objects (vmf_file.groups[...] etc.) are not part of this object
        else:
            raise TranslateError(f'{self.fn}:{getattr(tgt, "lineno", 0)}: assignment target {ast.unparse(tgt)}')

    @staticmethod
    def _direct_attr(tgt: ast.AST) -> str | None:
        node = tgt
        last = None
        while isinstance(node, (ast.Subscript, ast.Attribute)):
            last = node
            node = node.value
        return last.attr if isinstance(last, ast.Attribute) else None

    def note_calls(self, e: ast.AST) -> None:
        """Constructor calls of the object's class and container mutations inside an expression."""
        for n in ast.walk(e):
            if not isinstance(n, ast.Call):
                continue
            f = n.func
            if isinstance(f, ast.Name) and f.id in ('cls', self.cls):
                if any(isinstance(a, ast.Starred) for a in n.args) or any(k.arg is None for k in n.keywords):
                    raise TranslateError(f'{self.fn}:{n.lineno}: constructor called with * / **')
                self.ctor_calls.append(([self.sources(a) for a in n.args], {k.arg: self.sources(k.value) for k in n.keywords}))
            elif isinstance(f, ast.Attribute) and f.attr in CONTAINER_MUTATORS:
                src: set[Src] = set()
                for a in n.args:
                    src |= self.sources(a)
                if not src and self.control:
                    src = set(self.control[-1])
                if isinstance(f.value, ast.Name):
                    self.taint.setdefault(f.value.id, set()).update(src)
                elif isinstance(f.value, ast.Attribute) and isinstance(f.value.value, ast.Name) and f.value.value.id == self.obj:
                    self.attr_src.setdefault(f.value.attr, set()).update(src)
            elif isinstance(f, ast.Attribute) and isinstance(f.value, ast.Name) and f.value.id == self.obj and self.obj is not None \
                    and f.attr.startswith('_parse'):
                pass      # helper methods of the same object: analysed on their own (CLASSES lists them)
            elif isinstance(f, ast.Attribute) and isinstance(f.value, ast.Name) and f.value.id == self.obj and self.obj is not None:
                # a registering method of the object under construction (map_obj.add_ent(x)): what it is given flows into the
                # attributes the method appends it to / stores it in
                pm = method_param_attrs(_CLASS_NODES.get(self.cls), f.attr)
                if pm:
                    params = list(pm)
                    for p, a in list(zip(params, n.args)) + [(k.arg, k.value) for k in n.keywords if k.arg in pm]:
                        for attr in pm[p]:
                            self.attr_src.setdefault(attr, set()).update(self.sources(a))

    def stmt(self, s: ast.stmt) -> None:
        if isinstance(s, ast.If):
            self.expr(s.test)
            nb = self.narrow(s.test)
            ns = self.narrow_src(s.test)
            saved_env, saved_leaf = dict(self.env), dict(self.leaf)
            if nb:
                self.env[nb[0]] = nb[1]
            if ns:
                self.leaf[ns[0]] = ns[1]
                self.control.append({ns[1]})
            else:
                quiet = self.reads
                self.reads = []
                c = self.sources(s.test)
                self.reads = quiet
                self.control.append(c if c else (set(self.control[-1]) if self.control else set()))
            self.body(s.body)
            self.env, self.leaf = saved_env, saved_leaf
            self.control.pop()
            self.body(s.orelse)
            return
        if isinstance(s, (ast.Assign, ast.AnnAssign)) and s.value is not None:
            self.note_calls(s.value)
            src = self.sources(s.value)
            tgts = s.targets if isinstance(s, ast.Assign) else [s.target]
            for t in tgts:
                self.assign(t, src)
        elif isinstance(s, ast.AugAssign):
            self.note_calls(s.value)
            self.assign(s.target, self.sources(s.value))
        elif isinstance(s, (ast.Expr, ast.Return)) and s.value is not None:
            self.note_calls(s.value)
        elif isinstance(s, ast.For):
            # for x in <expr with sources>: x carries them (rows, enumerate(...), split())
            it_src = set()
            quiet = self.reads
            self.reads = []
            try:
                it_src = self.sources(s.iter)
            except TranslateError:
                it_src = set()
            self.reads = quiet
            if it_src:
                for n in ast.walk(s.target):
                    if isinstance(n, ast.Name):
                        self.taint.setdefault(n.id, set()).update(it_src)
        super().stmt(s)


def reader_pairs(tree: ast.Module, funcs: dict[str, ast.FunctionDef], consts: dict[str, list[str]]) -> dict[str, dict[Src, set[str]]]:
    classes = _class_nodes(tree)
    _CLASS_NODES.clear()
    _CLASS_NODES.update(classes)
    out: dict[str, dict[Src, set[str]]] = {}
    for cname, spec in CLASSES.items():
        if cname not in classes:
            raise TranslateError(f'class {cname} not found')
        params, pmap = ctor_map(classes[cname])
        attr_src: dict[str, set[Src]] = {}
        n_ctor = 0
        for fn, obj in spec['parse'].items():
            if fn not in funcs:
                raise TranslateError(f'parse method {fn} not found')
            w = FlowWalker(fn, funcs[fn], T.PARSE_ROOTS[fn], consts, obj, cname)
            for a, s in w.attr_src.items():
                attr_src.setdefault(a, set()).update(s)
            for pos, kws in w.ctor_calls:
                n_ctor += 1
                if len(pos) > len(params):
                    raise TranslateError(f'{fn}: constructor of {cname} called with {len(pos)} arguments, it has {len(params)} parameters')
                for p, s in list(zip(params, pos)) + list(kws.items()):
                    if p not in pmap:
                        raise TranslateError(f'{fn}: constructor of {cname} has no parameter {p}')
                    for a in pmap[p]:
                        attr_src.setdefault(a, set()).update(s)
        if n_ctor == 0 and not any(o == 'self' for o in spec['parse'].values()):
            raise TranslateError(f'{cname}: no constructor call found in {list(spec["parse"])}')
        if n_ctor == 0 and all(o != 'self' for o in spec['parse'].values()):
            raise TranslateError(f'{cname}: no constructor call found')
        inv: dict[Src, set[str]] = {}
        for a, srcs in attr_src.items():
            a = ALIAS_ATTRS.get(cname, {}).get(a, a)
            for s in srcs:
                inv.setdefault(s, set()).add(a)
        out[cname] = inv
    return out


# ------------------------------------------------------------------------------------------------ writer: key -> attributes
def local_attr_deps(node: ast.FunctionDef) -> dict[str, set[str]]:
    """local name -> attributes of self it is computed from (assignments, loop targets, comprehension targets; fixpoint)."""
    dep: dict[str, set[str]] = {}

    def attrs_of(e: ast.AST) -> set[str]:
        out: set[str] = set()
        for n in ast.walk(e):
            if isinstance(n, ast.Attribute) and isinstance(n.value, ast.Name) and n.value.id == 'self':
                out.add(n.attr)
            elif isinstance(n, ast.Name) and n.id in dep:
                out |= dep[n.id]
        return out
    for _ in range(4):
        for n in ast.walk(node):
            pairs: list[tuple[ast.AST, ast.AST]] = []
            if isinstance(n, ast.Assign):
                pairs = [(t, n.value) for t in n.targets]
            elif isinstance(n, ast.AnnAssign) and n.value is not None:
                pairs = [(n.target, n.value)]
            elif isinstance(n, (ast.For, ast.comprehension)):
                pairs = [(n.target, n.iter)]
            for t, v in pairs:
                a = attrs_of(v)
                for x in _binding_names(t):
                    dep.setdefault(x, set()).update(a)
    return dep


def _control_attrs(node: ast.FunctionDef, dep: dict[str, set[str]]) -> dict[int, set[str]]:
    """line -> attributes of self mentioned in the tests of the `if` statements enclosing that line (innermost test that
    mentions any)."""
    out: dict[int, set[str]] = {}

    def attrs_of(e: ast.AST) -> set[str]:
        r: set[str] = set()
        for n in ast.walk(e):
            if isinstance(n, ast.Attribute) and isinstance(n.value, ast.Name) and n.value.id == 'self':
                r.add(n.attr)
            elif isinstance(n, ast.Name) and n.id in dep:
                r |= dep[n.id]
        return r

    def walk(stmts: list[ast.stmt], ctl: set[str]) -> None:
        for st in stmts:
            for n in ast.walk(st):
                if hasattr(n, 'lineno'):
                    out.setdefault(n.lineno, set()).update(ctl)
            if isinstance(st, ast.If):
                c = attrs_of(st.test) or ctl
                # lines of the branches get the branch's control (overrides the enclosing one)
                for br in (st.body, st.orelse):
                    for b in br:
                        for n in ast.walk(b):
                            if hasattr(n, 'lineno'):
                                out[n.lineno] = set()
                    walk(br, c)
            elif isinstance(st, (ast.For, ast.While, ast.With, ast.Try)):
                for fld in ('body', 'orelse', 'finalbody'):
                    sub = getattr(st, fld, [])
                    if sub:
                        for b in sub:
                            for n in ast.walk(b):
                                if hasattr(n, 'lineno'):
                                    out[n.lineno] = set()
                        walk(sub, ctl)
    walk(node.body, set())
    return out


def writer_pairs(funcs: dict[str, ast.FunctionDef], sites: list) -> tuple[dict[str, dict[Src, set[str]]], dict[str, set[str]]]:
    """class -> (block, key) -> attributes the written value is computed from; class -> attributes whose objects are
    exported by calling their own export method."""
    out: dict[str, dict[Src, set[str]]] = {}
    kids: dict[str, set[str]] = {}
    for cname, spec in CLASSES.items():
        tab: dict[Src, set[str]] = {}
        ctl: dict[Src, set[str]] = {}
        ch: set[str] = set()
        for fn in spec['export']:
            if fn not in funcs:
                raise TranslateError(f'export method {fn} not found')
            dep = local_attr_deps(funcs[fn])
            control = _control_attrs(funcs[fn], dep)
            for st in sites:
                if st.fn != fn:
                    continue
                ktxt = ''.join(pc.text for pc in st.key if pc.kind == 'lit').casefold()
                if any(pc.kind != 'lit' for pc in st.key):
                    ktxt += '*'
                attrs: set[str] = set()
                for pc in list(st.key) + list(st.val):
                    if pc.kind == 'lit':
                        continue
                    try:
                        e = ast.parse(pc.field, mode='eval')
                    except SyntaxError:
                        raise TranslateError(f'{fn}: interpolated expression {pc.field!r} is not an expression')
                    for n in ast.walk(e):
                        if isinstance(n, ast.Attribute) and isinstance(n.value, ast.Name) and n.value.id == 'self':
                            attrs.add(n.attr)
                        elif isinstance(n, ast.Name) and n.id in dep:
                            attrs |= dep[n.id]
                tab.setdefault((st.block, ktxt), set()).update(attrs)
                ctl.setdefault((st.block, ktxt), set()).update(control.get(st.line, set()))
            # children: X.export(...) calls -- the receiver's attributes
            for n in ast.walk(funcs[fn]):
                if isinstance(n, ast.Call) and isinstance(n.func, ast.Attribute) and n.func.attr == 'export':
                    r = n.func.value
                    for x in ast.walk(r):
                        if isinstance(x, ast.Attribute) and isinstance(x.value, ast.Name) and x.value.id == 'self':
                            ch.add(x.attr)
                        elif isinstance(x, ast.Name) and x.id in dep:
                            ch |= dep[x.id]
        # a constant written under a condition carries the condition's attributes
        for k, v in tab.items():
            if not v:
                v.update(ctl.get(k, set()))
        out[cname] = tab
        kids[cname] = ch
    return out, kids


# ------------------------------------------------------------------------------------------------ Gen
def analyse_lite() -> dict:
    a = T.analyse()
    src = src_text('vmf.py')
    tree = ast.parse(src)
    funcs = T._funcs(tree)
    consts = {'_disprow_multiblend': [f'multiblend_color_{i}' for i in range(4)]}
    rd = reader_pairs(tree, funcs, consts)
    wr, kids = writer_pairs(funcs, a['sites'])
    # names used as blocks anywhere (by a reader or a writer): a lookup of such a name fetches a block, not a value
    blocks = {b for tab in rd.values() for (b, _k) in tab} | {b for tab in wr.values() for (b, _k) in tab}
    blocks |= {b for b, _k, _p in a['reads']}

    def is_block(b: str, k: str) -> bool:
        return k in blocks or f'editor@{b}' in blocks and k == 'editor' or T.BLOCK_ALIAS.get(k, k) in blocks
    out_r: dict[str, dict[Src, set[str]]] = {}
    child_r: dict[str, set[str]] = {}
    child_cls: list[tuple[str, str, str]] = []       # (class, attribute, class of the child objects the reader builds)
    for c, tab in rd.items():
        out_r[c] = {}
        child_r[c] = set()
        for (b, k), v in tab.items():
            if b == '<child>':
                child_r[c] |= v
                child_cls += [(c, a, k) for a in sorted(v)]
            elif is_block(b, k.rstrip('*')) and not k.endswith('*'):
                continue
            else:
                out_r[c][(b, k)] = v
    return {'read': out_r, 'written': wr, 'children_written': kids, 'children_read': child_r, 'child_classes': sorted(child_cls)}


def _cs(s: str) -> str:
    return '"' + s.replace('"', '""') + '"'


def gen_lite() -> tuple[str, dict]:
    r = analyse_lite()
    lines = ['(* generated by translate/c06_lite.py from vmf.py -- do not edit *)',
             'From Coq Require Import List String.', 'From SV Require Import Fmt.VmfLite.', 'Import ListNotations.', 'Open Scope string_scope.', '']
    side: dict[str, Any] = {'classes': {}}

    def tab(c: str, d: dict[Src, set[str]]) -> str:
        out = []
        for (b, k), v in sorted(d.items()):
            dyn = k.endswith('*')
            attrs = sorted(v if dyn else v - ARRAY_ATTRS.get(c, set()))
            out.append(f'mk_le {_cs(b)} {_cs(k.rstrip("*"))} {"true" if dyn else "false"} [{"; ".join(_cs(x) for x in attrs)}]')
        return '[' + ';\n   '.join(out) + ']'

    def lst(v: set[str]) -> str:
        return '[' + '; '.join(_cs(x) for x in sorted(v)) + ']'
    names = []
    for c in CLASSES:
        w, rd = r['written'][c], r['read'][c]
        nm = f'lite_{c}'
        names.append(nm)
        lines.append(f'Definition {nm} : liteclass := mk_liteclass {_cs(c)}\n  {tab(c, w)}\n  {tab(c, rd)}\n  {lst(r["children_written"][c])} '
                     f'{lst(r["children_read"][c])}.')
        side['classes'][c] = {'written': [[b, k, sorted(v)] for (b, k), v in sorted(w.items())],
                              'read': [[b, k, sorted(v)] for (b, k), v in sorted(rd.items())],
                              'children_written': sorted(r['children_written'][c]), 'children_read': sorted(r['children_read'][c])}
    lines.append('Definition lite_classes : list liteclass := [' + '; '.join(names) + '].')
    lines.append('(* containment edges: (class, attribute), class of the child objects its reader builds for that attribute *)')
    lines.append('Definition lite_kid_classes : list ((string * string) * string) :=\n  [' + ';\n   '.join(
        f'(({_cs(c)}, {_cs(a)}), {_cs(k)})' for c, a, k in r['child_classes']) + '].')
    side['child_classes'] = [list(x) for x in r['child_classes']]
    return '\n'.join(lines) + '\n', side


GEN = {'VmfLite_gen': gen_lite}

# ------------------------------------------------------------------------------------------------ displacement flags
def gen_flags() -> tuple[str, dict]:
    """Gen/VmfFlags_gen.v: the two written lines evaluated on every DispFlag value, the reader's table and subdivision bit."""
    import importlib
    a = T.analyse()
    try:
        V = importlib.import_module('srctools.vmf')
    except Exception as e:      # noqa: BLE001
        raise TranslateError(f'srctools.vmf cannot be imported: {e!r}')
    flag_cls = getattr(V, 'DispFlag', None)
    if flag_cls is None:
        raise TranslateError('DispFlag not found')
    nvals = 0
    for m in flag_cls:
        nvals |= int(m.value)
    nvals += 1
    # writer: the value expressions of the lines "flags" and "subdiv" of the dispinfo block
    def site_expr(key: str) -> str:
        hits = [st for st in a['sites'] if st.block == 'dispinfo' and ''.join(pc.text for pc in st.key if pc.kind == 'lit').casefold() == key
                and all(pc.kind == 'lit' for pc in st.key)]
        if len(hits) != 1:
            raise TranslateError(f'dispinfo/{key}: {len(hits)} written lines')
        ips = [pc for pc in hits[0].val if pc.kind != 'lit']
        if len(ips) != 1 or any(pc.text.strip() for pc in hits[0].val if pc.kind == 'lit'):
            raise TranslateError(f'dispinfo/{key}: the value is not a single interpolation')
        return ips[0].field

    class Stub:
        def __init__(self, f: Any) -> None:
            self.disp_flags = f
    written = []
    ef, es = site_expr('flags'), site_expr('subdiv')
    for f in range(nvals):
        env = dict(vars(V))
        env['self'] = Stub(flag_cls(f))
        try:
            tf = str(V.conv_kv(eval(ef, env)))        # noqa: S307 - expressions of the pinned source
            ts = str(V.conv_kv(eval(es, env)))        # noqa: S307
        except Exception as e:      # noqa: BLE001
            raise TranslateError(f'dispinfo flags/subdiv expression cannot be evaluated on DispFlag({f}): {e!r}')
        if not tf.isdigit() or ts not in ('0', '1'):
            raise TranslateError(f'dispinfo flags/subdiv text for DispFlag({f}): {tf!r} {ts!r}')
        written.append((int(tf), ts == '1'))
    # reader: self.disp_flags = TABLE[x] with x from key flags;  self.disp_flags |= BIT under `if <tree>.bool('subdiv')`
    tree = ast.parse(src_text('vmf.py'))
    funcs = T._funcs(tree)
    fn = 'Side._parse_displacement_data'
    w = FlowWalker(fn, funcs[fn], T.PARSE_ROOTS[fn], {'_disprow_multiblend': []}, 'self', 'Side')
    table = bit = None
    for n in ast.walk(funcs[fn]):
        tgt = n.targets[0] if isinstance(n, ast.Assign) and len(n.targets) == 1 else n.target if isinstance(n, (ast.AugAssign, ast.AnnAssign)) else None
        if tgt is None or ast.unparse(tgt) != 'self.disp_flags':
            continue
        if isinstance(n, ast.Assign) and isinstance(n.value, ast.Subscript) and isinstance(n.value.value, ast.Name) \
                and isinstance(n.value.slice, ast.Name) and w.taint.get(n.value.slice.id) == {('dispinfo', 'flags')} and table is None:
            table = n.value.value.id
        elif isinstance(n, ast.AugAssign) and isinstance(n.op, ast.BitOr) and bit is None:
            bit = ast.unparse(n.value)
            guard = next((i for i in ast.walk(funcs[fn]) if isinstance(i, ast.If) and n in i.body), None)
            if guard is None or guard.orelse or w.sources(guard.test) != {('dispinfo', 'subdiv')} or isinstance(guard.test, ast.UnaryOp):
                raise TranslateError(f'{fn}: the subdivision bit is not set under `if <tree>.bool("subdiv")`')
        else:
            raise TranslateError(f'{fn}:{n.lineno}: assignment to disp_flags not understood: {ast.unparse(n)}')
    if table is None or bit is None:
        raise TranslateError(f'{fn}: table lookup / subdivision bit of disp_flags not found')
    try:
        t2c = [int(x.value) for x in getattr(V, table)]
        sub = int(eval(bit, dict(vars(V))).value)     # noqa: S307
    except Exception as e:      # noqa: BLE001
        raise TranslateError(f'{fn}: {table} / {bit} cannot be evaluated: {e!r}')
    txt = ('(* generated by translate/c06_lite.py from vmf.py -- do not edit *)\nFrom Coq Require Import NArith List Bool.\nImport ListNotations.\n'
           'Open Scope N_scope.\n'
           f'Definition gen_flags_written : list (N * bool) := [{"; ".join(f"({i}, {str(s).lower()})" for i, s in written)}].\n'
           f'Definition gen_flags_t2c : list N := [{"; ".join(str(x) for x in t2c)}].\n'
           f'Definition gen_flags_sub : N := {sub}.\nDefinition gen_flags_count : nat := {nvals}.\n')
    return txt, {'written': [[i, s] for i, s in written], 't2c': t2c, 'sub': sub, 'count': nvals, 'writer_exprs': [ef, es], 'reader_table': table}


GEN['VmfFlags_gen'] = gen_flags
