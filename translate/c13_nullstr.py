"""C13 translator: the NUL-terminated string codec of the directory tree -> Gen/VpkNullStr_gen.v (an instance of
Fmt/VpkNullStr.v [ncodec]).

  * `_write_nullstring(file, string)` is *executed symbolically* twice, once assuming the string is empty and once assuming it
    is not: the sequence of `file.write(...)` arguments becomes a list of pieces (the encoded string / byte literals).  Any way
    of writing "encoded string followed by a literal" / "a literal" is therefore accepted (if/else, early return, conditional
    expression, `string or ' '`, two consecutive writes ...); anything the evaluator does not understand fails closed.
  * `iter_nullstr(file)`: the loop that takes one string off the file is classified as one of the reader shapes of
    Fmt/VpkNullStr.v (`RAccum n` = accumulate `read(n)` results until one equals NUL; `RBlock n` = one block, `find`, seek back;
    `RBlockLoop n` = blocks in a loop).  Branch chains are normalised first (`if c: ...; return/raise/continue` + fall-through is an
    if/else; the order of mutually exclusive tests does not matter; `not x` / `x == b''` / `len(x) == 0` are the same test), the
    three-way dispatch on the decoded string (' ' -> yield '', '' -> return, else yield) is evaluated per class of string.
  * census: `load_dirfile` takes every tree string with `iter_nullstr` (three nested loops over the same file object) and
    `write_dirfile` writes every tree string with `_write_nullstring` (three call sites, one per level).

The block size / read size may be a literal or a module-level integer constant.  Fail-closed: TranslateError on anything else.
"""
from __future__ import annotations

import ast

from harness.common import TranslateError, ast_digest, src_text

NUL = b'\x00'


# ------------------------------------------------------------------------------------------------ shared normalisation helpers
def fn_body(fn: ast.FunctionDef) -> list[ast.stmt]:
    b = list(fn.body)
    if b and isinstance(b[0], ast.Expr) and isinstance(b[0].value, ast.Constant) and isinstance(b[0].value.value, str):
        b = b[1:]
    return b


def find_def(body, kind, name):
    for n in body:
        if isinstance(n, kind) and getattr(n, 'name', None) == name:
            return n
    raise TranslateError(f'{kind.__name__} {name} not found')


def module_constants(tree: ast.Module) -> dict[str, ast.expr]:
    """Module-level `NAME = <expr>` / `NAME: T = <expr>` bindings that are assigned exactly once in the module."""
    env: dict[str, ast.expr] = {}
    count: dict[str, int] = {}
    for n in tree.body:
        tg = None
        if isinstance(n, ast.AnnAssign) and isinstance(n.target, ast.Name) and n.value is not None:
            tg, val = n.target.id, n.value
        elif isinstance(n, ast.Assign) and len(n.targets) == 1 and isinstance(n.targets[0], ast.Name):
            tg, val = n.targets[0].id, n.value
        if tg is not None:
            count[tg] = count.get(tg, 0) + 1
            env[tg] = val
    for n in ast.walk(tree):        # rebinding anywhere else (global statements, augmented assignment) disqualifies the name
        if isinstance(n, ast.Global):
            for nm in n.names:
                count[nm] = 99
        if isinstance(n, ast.AugAssign) and isinstance(n.target, ast.Name) and n.target.id in count:
            count[n.target.id] = 99
    return {k: v for k, v in env.items() if count[k] == 1}


def const_int(node, consts: dict[str, ast.expr], what: str) -> int:
    seen = 0
    while isinstance(node, ast.Name) and node.id in consts and seen < 5:
        node = consts[node.id]
        seen += 1
    if isinstance(node, ast.UnaryOp) and isinstance(node.op, ast.USub) and isinstance(node.operand, ast.Constant) and type(node.operand.value) is int:
        return -node.operand.value
    if isinstance(node, ast.Constant) and type(node.value) is int:
        return node.value
    raise TranslateError(f'line {getattr(node, "lineno", "?")}: {what}: integer literal or module constant expected, got {ast.unparse(node)[:60]}')


def is_terminal(stmts: list[ast.stmt]) -> bool:
    """Control never falls out of the end of this block."""
    if not stmts:
        return False
    last = stmts[-1]
    if isinstance(last, (ast.Return, ast.Raise, ast.Continue, ast.Break)):
        return True
    return isinstance(last, ast.If) and is_terminal(last.body) and is_terminal(last.orelse)


def norm_block(stmts: list[ast.stmt]) -> list[ast.stmt]:
    """`if c: A (ending in return/raise/continue/break)` followed by B  ==>  `if c: A else: B`, recursively; pass removed."""
    out: list[ast.stmt] = []
    stmts = [s for s in stmts if not isinstance(s, ast.Pass)]
    for i, s in enumerate(stmts):
        if isinstance(s, ast.If):
            body = norm_block(s.body)
            rest = stmts[i + 1:]
            if not s.orelse and is_terminal(body) and rest:
                new = ast.If(test=s.test, body=body, orelse=norm_block(rest))
                ast.copy_location(new, s)
                out.append(new)
                return out
            new = ast.If(test=s.test, body=body, orelse=norm_block(s.orelse))
            ast.copy_location(new, s)
            out.append(new)
        else:
            out.append(s)
    return out


def if_chain(node: ast.If) -> tuple[list[tuple[ast.expr, list[ast.stmt]]], list[ast.stmt]]:
    """if/elif/.../else -> ([(test, body)...], else_body)"""
    chain = []
    while True:
        chain.append((node.test, node.body))
        if len(node.orelse) == 1 and isinstance(node.orelse[0], ast.If):
            node = node.orelse[0]
        else:
            return chain, node.orelse


def bytes_lit(node) -> bytes | None:
    if isinstance(node, ast.Constant) and isinstance(node.value, bytes):
        return node.value
    if isinstance(node, ast.Call) and isinstance(node.func, ast.Name) and node.func.id in ('bytes', 'bytearray') and not node.args and not node.keywords:
        return b''
    return None


def is_name(node, name: str) -> bool:
    return isinstance(node, ast.Name) and node.id == name


def method_call(node, obj: str | None, attr: str):
    """node is `<obj>.<attr>(...)` -> the Call, else None (obj None = any receiver)."""
    if isinstance(node, ast.Call) and isinstance(node.func, ast.Attribute) and node.func.attr == attr \
            and (obj is None or is_name(node.func.value, obj)):
        return node
    return None


def codec_args(call: ast.Call, what: str) -> tuple[str, str]:
    """(codec, errors) of a str.encode / bytes.decode call, defaults filled in, names normalised."""
    vals = {'encoding': 'utf-8', 'errors': 'strict'}
    names = ['encoding', 'errors']
    if len(call.args) > 2:
        raise TranslateError(f'line {call.lineno}: {what}: too many arguments')
    for nm, a in list(zip(names, call.args)) + [(k.arg, k.value) for k in call.keywords]:
        if nm not in vals or not (isinstance(a, ast.Constant) and isinstance(a.value, str)):
            raise TranslateError(f'line {call.lineno}: {what}: argument {ast.unparse(a)[:40]!r} not a literal codec/errors name')
        vals[nm] = a.value
    codec = vals['encoding'].lower().replace('_', '-')
    codec = {'us-ascii': 'ascii', 'utf8': 'utf-8'}.get(codec, codec)
    return codec, vals['errors'].lower()


# ------------------------------------------------------------------------------------------------ the writer, executed symbolically
class _Stop(Exception):
    pass


def _truth_of_string(test, sname: str, empty: bool) -> bool:
    """The value of a test on the string argument when it is / is not the empty string."""
    if is_name(test, sname):
        return not empty
    if isinstance(test, ast.UnaryOp) and isinstance(test.op, ast.Not):
        return not _truth_of_string(test.operand, sname, empty)
    if isinstance(test, ast.Compare) and len(test.ops) == 1:
        l, op, r = test.left, test.ops[0], test.comparators[0]
        if isinstance(l, ast.Constant):
            l, r = r, l
            op = {ast.Lt: ast.Gt, ast.Gt: ast.Lt, ast.LtE: ast.GtE, ast.GtE: ast.LtE}.get(type(op), type(op))()
        if is_name(l, sname) and isinstance(r, ast.Constant) and r.value == '':
            if isinstance(op, ast.Eq):
                return empty
            if isinstance(op, ast.NotEq):
                return not empty
        if isinstance(l, ast.Call) and is_name(l.func, 'len') and len(l.args) == 1 and is_name(l.args[0], sname) \
                and isinstance(r, ast.Constant) and type(r.value) is int:
            n = r.value
            import operator as _o
            fn = {ast.Eq: _o.eq, ast.NotEq: _o.ne, ast.Gt: _o.gt, ast.GtE: _o.ge, ast.Lt: _o.lt, ast.LtE: _o.le}.get(type(op))
            if fn is not None:
                if empty:
                    return fn(0, n)
                vals = {fn(L, n) for L in (1, 2, abs(n) + 1, abs(n) + 2, max(n - 1, 1), max(n, 1))}    # every length >= 1 must agree
                if len(vals) != 1:
                    raise TranslateError(f'line {test.lineno}: test {ast.unparse(test)!r} depends on the length of the string')
                return vals.pop()
    raise TranslateError(f'line {getattr(test, "lineno", "?")}: _write_nullstring: test {ast.unparse(test)[:60]!r} not understood')


ENC = 'ENC'     # piece: the encoded (non-empty) string


def _eval_bytes(e, sname: str, empty: bool, codec_seen: list) -> list:
    """Expression of type bytes -> list of pieces (ENC or bytes literals)."""
    lit = bytes_lit(e)
    if lit is not None:
        return [lit] if lit else []
    if isinstance(e, ast.BinOp) and isinstance(e.op, ast.Add):
        return _eval_bytes(e.left, sname, empty, codec_seen) + _eval_bytes(e.right, sname, empty, codec_seen)
    if isinstance(e, ast.IfExp):
        return _eval_bytes(e.body if _truth_of_string(e.test, sname, empty) else e.orelse, sname, empty, codec_seen)
    if isinstance(e, ast.Call) and isinstance(e.func, ast.Attribute) and e.func.attr == 'encode':
        codec = codec_args(e, '_write_nullstring: encode')
        s = _eval_str(e.func.value, sname, empty)
        if s is ENC:
            codec_seen.append(codec)
            return [ENC]
        try:
            return [s.encode(*codec)] if s else []
        except (UnicodeError, LookupError) as ex:
            raise TranslateError(f'line {e.lineno}: _write_nullstring: literal cannot be encoded: {ex}')
    raise TranslateError(f'line {getattr(e, "lineno", "?")}: _write_nullstring: bytes expression {ast.unparse(e)[:60]!r} not understood')


def _eval_str(e, sname: str, empty: bool):
    """Expression of type str -> ENC marker (the argument, non-empty) or a literal str."""
    if is_name(e, sname):
        return '' if empty else ENC
    if isinstance(e, ast.Constant) and isinstance(e.value, str):
        return e.value
    if isinstance(e, ast.BoolOp) and isinstance(e.op, ast.Or) and len(e.values) == 2:
        a = _eval_str(e.values[0], sname, empty)
        return a if (a is ENC or a) else _eval_str(e.values[1], sname, empty)
    if isinstance(e, ast.IfExp):
        return _eval_str(e.body if _truth_of_string(e.test, sname, empty) else e.orelse, sname, empty)
    raise TranslateError(f'line {getattr(e, "lineno", "?")}: _write_nullstring: str expression {ast.unparse(e)[:60]!r} not understood')


def _exec_writer(stmts, fname: str, sname: str, empty: bool, out: list, codec_seen: list, env: dict) -> None:
    for s in stmts:
        if isinstance(s, ast.Pass):
            continue
        if isinstance(s, ast.Return) and s.value is None:
            raise _Stop
        if isinstance(s, ast.If):
            _exec_writer(s.body if _truth_of_string(s.test, sname, empty) else s.orelse, fname, sname, empty, out, codec_seen, env)
            continue
        if isinstance(s, ast.Assign) and len(s.targets) == 1 and isinstance(s.targets[0], ast.Name) and s.targets[0].id not in (fname, sname):
            env[s.targets[0].id] = _eval_any(s.value, sname, empty, codec_seen, env)      # a local holding bytes pieces
            continue
        if isinstance(s, ast.Expr):
            c = method_call(s.value, fname, 'write')
            if c is not None and len(c.args) == 1 and not c.keywords:
                out.extend(_eval_any(c.args[0], sname, empty, codec_seen, env))
                continue
        raise TranslateError(f'line {s.lineno}: _write_nullstring: statement {ast.unparse(s)[:70]!r} not understood')


def _eval_any(e, sname, empty, codec_seen, env) -> list:
    if isinstance(e, ast.Name) and e.id in env:
        return list(env[e.id])
    if isinstance(e, ast.BinOp) and isinstance(e.op, ast.Add):
        return _eval_any(e.left, sname, empty, codec_seen, env) + _eval_any(e.right, sname, empty, codec_seen, env)
    return _eval_bytes(e, sname, empty, codec_seen)


def translate_writer(fn: ast.FunctionDef) -> dict:
    if len(fn.args.args) != 2 or fn.args.vararg or fn.args.kwarg or fn.args.kwonlyargs:
        raise TranslateError('_write_nullstring: signature (file, string) expected')
    fname, sname = (a.arg for a in fn.args.args)
    res = {}
    codecs: list = []
    for empty in (True, False):
        out: list = []
        try:
            _exec_writer(fn_body(fn), fname, sname, empty, out, codecs, {})
        except _Stop:
            pass
        merged: list = []
        for p in out:
            if p is not ENC and merged and merged[-1] is not ENC:
                merged[-1] = merged[-1] + p
            else:
                merged.append(p)
        res[empty] = merged
    blank = res[True]
    if len(blank) != 1 or blank[0] is ENC:
        raise TranslateError(f'_write_nullstring: for the empty string it writes {blank!r}: one literal expected')
    ne = res[False]
    if not ne or ne[0] is not ENC or len(ne) > 2 or (len(ne) == 2 and ne[1] is ENC):
        raise TranslateError(f'_write_nullstring: for a non-empty string it writes {ne!r}: the encoded string followed by a literal expected')
    if len(set(codecs)) != 1:
        raise TranslateError(f'_write_nullstring: codecs {codecs!r}')
    return {'blank_w': blank[0], 'term': ne[1] if len(ne) == 2 else b'', 'codec': codecs[0]}


# ------------------------------------------------------------------------------------------------ the reader
def _char_class(test, var: str, what: str) -> set[str]:
    """Which of the classes {NUL (== b'\\0'), EOF (== b''), OTHER} of a `read` result satisfy the test."""
    allc = {'NUL', 'EOF', 'OTHER'}
    if is_name(test, var):
        return {'NUL', 'OTHER'}
    if isinstance(test, ast.UnaryOp) and isinstance(test.op, ast.Not):
        return allc - _char_class(test.operand, var, what)
    if isinstance(test, ast.Compare) and len(test.ops) == 1:
        l, op, r = test.left, test.ops[0], test.comparators[0]
        if bytes_lit(l) is not None and not is_name(l, var):
            l, r = r, l
        lit = bytes_lit(r)
        if is_name(l, var) and lit is not None and isinstance(op, (ast.Eq, ast.NotEq)):
            cls = {'NUL'} if lit == NUL else {'EOF'} if lit == b'' else None
            if cls is not None:
                return cls if isinstance(op, ast.Eq) else allc - cls
        if isinstance(l, ast.Call) and is_name(l.func, 'len') and len(l.args) == 1 and is_name(l.args[0], var) \
                and isinstance(r, ast.Constant) and r.value == 0 and isinstance(op, (ast.Eq, ast.NotEq)):
            return {'EOF'} if isinstance(op, ast.Eq) else {'NUL', 'OTHER'}
    raise TranslateError(f'line {getattr(test, "lineno", "?")}: iter_nullstr: {what} test {ast.unparse(test)[:60]!r} not understood')


def _branches(stmt: ast.If, classify, classes: set[str]) -> dict[str, list[ast.stmt]]:
    """if-chain -> class -> the body that runs for it (first matching test wins)."""
    chain, els = if_chain(stmt)
    left = set(classes)
    out: dict[str, list[ast.stmt]] = {}
    for test, body in chain:
        for c in classify(test) & left:
            out[c] = body
        left -= classify(test)
    for c in left:
        out[c] = els
    return out


def _string_class(test, var: str, blanks: list) -> set[str]:
    """Classes of the decoded string: EMPTY, BLANK (equal to the literal the code compares with), OTHER."""
    allc = {'EMPTY', 'BLANK', 'OTHER'}
    if is_name(test, var):
        return {'BLANK', 'OTHER'}
    if isinstance(test, ast.UnaryOp) and isinstance(test.op, ast.Not):
        return allc - _string_class(test.operand, var, blanks)
    if isinstance(test, ast.Compare) and len(test.ops) == 1 and isinstance(test.ops[0], (ast.Eq, ast.NotEq)):
        l, r = test.left, test.comparators[0]
        if isinstance(l, ast.Constant):
            l, r = r, l
        if is_name(l, var) and isinstance(r, ast.Constant) and isinstance(r.value, str):
            if r.value == '':
                cls = {'EMPTY'}
            else:
                blanks.append(r.value)
                cls = {'BLANK'}
            return cls if isinstance(test.ops[0], ast.Eq) else allc - cls
        if isinstance(l, ast.Call) and is_name(l.func, 'len') and len(l.args) == 1 and is_name(l.args[0], var) \
                and isinstance(r, ast.Constant) and r.value == 0:
            return {'EMPTY'} if isinstance(test.ops[0], ast.Eq) else {'BLANK', 'OTHER'}
    raise TranslateError(f'line {getattr(test, "lineno", "?")}: iter_nullstr: dispatch test {ast.unparse(test)[:60]!r} not understood')


def _action(body: list[ast.stmt], svar: str) -> str:
    body = [s for s in body if not isinstance(s, (ast.Pass, ast.Continue))]
    if len(body) == 1:
        s = body[0]
        if isinstance(s, ast.Return) and s.value is None:
            return 'return'
        if isinstance(s, ast.Expr) and isinstance(s.value, ast.Yield) and s.value.value is not None:
            v = s.value.value
            if isinstance(v, ast.Constant) and v.value == '':
                return 'yield-empty'
            if is_name(v, svar):
                return 'yield-string'
    return 'other: ' + '; '.join(ast.unparse(s) for s in body)[:80]


def _dispatch(stmts: list[ast.stmt], svar: str) -> tuple[bool, str | None, dict]:
    """The statements after the string was decoded: one if-chain on it (or a bare yield)."""
    stmts = [s for s in stmts if not isinstance(s, (ast.Pass, ast.Continue))]
    if len(stmts) != 1 or not isinstance(stmts[0], ast.If):
        raise TranslateError(f'iter_nullstr: a single if-chain on the decoded string expected after decoding, got {[ast.unparse(s)[:40] for s in stmts]}')
    blanks: list = []
    br = _branches(stmts[0], lambda t: _string_class(t, svar, blanks), {'EMPTY', 'BLANK', 'OTHER'})
    acts = {c: _action(b, svar) for c, b in br.items()}
    if len(set(blanks)) > 1:
        raise TranslateError(f'iter_nullstr: the dispatch compares the string with several literals {blanks!r}')
    blank = blanks[0] if blanks else None
    ok = blank is not None and acts == {'EMPTY': 'return', 'BLANK': 'yield-empty', 'OTHER': 'yield-string'}
    return ok, blank, acts


def _decode_site(e, consts) -> tuple[ast.expr, tuple[str, str]] | None:
    """`<bytes expr>.decode(codec, errors)` -> (the bytes expression, codec)"""
    if isinstance(e, ast.Call) and isinstance(e.func, ast.Attribute) and e.func.attr == 'decode':
        return e.func.value, codec_args(e, 'iter_nullstr: decode')
    return None


def _unwrap_bytes(e):
    """bytes(x) / bytearray(x) -> x"""
    while isinstance(e, ast.Call) and isinstance(e.func, ast.Name) and e.func.id in ('bytes', 'bytearray') and len(e.args) == 1 and not e.keywords:
        e = e.args[0]
    return e


def _is_clear(s: ast.stmt, buf: str) -> bool:
    if isinstance(s, ast.Expr) and method_call(s.value, buf, 'clear') is not None:
        return True
    if isinstance(s, ast.Assign) and len(s.targets) == 1:
        t = s.targets[0]
        if is_name(t, buf) and bytes_lit(s.value) == b'':
            return True
        if isinstance(t, ast.Subscript) and is_name(t.value, buf) and isinstance(t.slice, ast.Slice) and t.slice.lower is None \
                and t.slice.upper is None and bytes_lit(s.value) == b'':
            return True
    if isinstance(s, ast.Delete) and len(s.targets) == 1:
        t = s.targets[0]
        if isinstance(t, ast.Subscript) and is_name(t.value, buf) and isinstance(t.slice, ast.Slice) and t.slice.lower is None and t.slice.upper is None:
            return True
    return False


def _is_append(s: ast.stmt, buf: str, what: str) -> bool:
    """chars.extend(x) / chars += x / chars = chars + x  (x = the name `what`)"""
    if isinstance(s, ast.Expr):
        c = method_call(s.value, buf, 'extend')
        if c is not None and len(c.args) == 1 and is_name(c.args[0], what):
            return True
    if isinstance(s, ast.AugAssign) and is_name(s.target, buf) and isinstance(s.op, ast.Add) and is_name(s.value, what):
        return True
    if isinstance(s, ast.Assign) and len(s.targets) == 1 and is_name(s.targets[0], buf) and isinstance(s.value, ast.BinOp) \
            and isinstance(s.value.op, ast.Add) and is_name(s.value.left, buf) and is_name(s.value.right, what):
        return True
    return False


def _sum_terms(e) -> list[str]:
    if isinstance(e, ast.BinOp) and isinstance(e.op, ast.Add):
        return _sum_terms(e.left) + _sum_terms(e.right)
    return [ast.unparse(e)]


def _read_call(e, fvar: str, consts) -> int | None:
    c = method_call(e, fvar, 'read')
    if c is not None and len(c.args) == 1 and not c.keywords:
        return const_int(c.args[0], consts, 'iter_nullstr: read size')
    return None


def translate_reader(fn: ast.FunctionDef, consts: dict) -> dict:
    if len(fn.args.args) != 1 or fn.args.vararg or fn.args.kwarg or fn.args.kwonlyargs:
        raise TranslateError('iter_nullstr: signature (file) expected')
    fvar = fn.args.args[0].arg
    body = fn_body(fn)
    buf = None
    if len(body) == 2 and isinstance(body[0], ast.Assign) and len(body[0].targets) == 1 and isinstance(body[0].targets[0], ast.Name) \
            and bytes_lit(body[0].value) == b'':
        buf = body[0].targets[0].id
        body = body[1:]
    if len(body) != 1 or not isinstance(body[0], ast.While) or body[0].orelse \
            or not (isinstance(body[0].test, ast.Constant) and body[0].test.value in (True, 1)):
        raise TranslateError('iter_nullstr: `[chars = bytearray()]; while True: ...` expected')
    loop = norm_block(body[0].body)
    if not loop or not isinstance(loop[0], ast.Assign) or len(loop[0].targets) != 1 or not isinstance(loop[0].targets[0], ast.Name):
        raise TranslateError('iter_nullstr: the loop must start with an assignment')
    first = loop[0]
    n = _read_call(first.value, fvar, consts)
    # ---- accumulate shape: c = file.read(n); chain on c
    if n is not None:
        cvar = first.targets[0].id
        if buf is None or len(loop) != 2 or not isinstance(loop[1], ast.If):
            raise TranslateError('iter_nullstr: accumulate shape: buffer initialisation and one if-chain on the read result expected')
        br = _branches(loop[1], lambda t: _char_class(t, cvar, 'read result'), {'NUL', 'EOF', 'OTHER'})
        eof = [s for s in br['EOF'] if not isinstance(s, ast.Pass)]
        if len(eof) != 1 or not isinstance(eof[0], ast.Raise):
            raise TranslateError('iter_nullstr: an empty read (EOF) must raise')
        oth = [s for s in br['OTHER'] if not isinstance(s, (ast.Pass, ast.Continue))]
        if len(oth) != 1 or not _is_append(oth[0], buf, cvar):
            raise TranslateError(f'iter_nullstr: other bytes must be appended to the buffer, got {[ast.unparse(s)[:50] for s in oth]}')
        nul = norm_block([s for s in br['NUL'] if not isinstance(s, ast.Pass)])
        svar, codec, cleared, rest = None, None, False, []
        for i, s in enumerate(nul):
            if svar is None:
                d = _decode_site(s.value, consts) if isinstance(s, ast.Assign) and len(s.targets) == 1 and isinstance(s.targets[0], ast.Name) else None
                if d is None or not is_name(_unwrap_bytes(d[0]), buf):
                    raise TranslateError(f'line {s.lineno}: iter_nullstr: `string = chars.decode(...)` expected first when the terminator is read')
                svar, codec = s.targets[0].id, d[1]
            elif _is_clear(s, buf):
                cleared = True
            else:
                rest.append(s)
        if svar is None or not cleared:
            raise TranslateError('iter_nullstr: the buffer is not decoded and cleared when the terminator is read')
        ok, blank, acts = _dispatch(rest, svar)
        return {'reader': f'RAccum {n}', 'dispatch': ok, 'blank_r': blank, 'codec': codec, 'actions': acts}
    # ---- block shapes: start = file.tell(); block = file.read(n); end = block.find(NUL); ...
    roles: dict[str, str] = {}
    i = 0
    while i < len(loop) and isinstance(loop[i], ast.Assign) and len(loop[i].targets) == 1 and isinstance(loop[i].targets[0], ast.Name):
        s = loop[i]
        v = s.value
        nm = s.targets[0].id
        c = method_call(v, fvar, 'tell')
        if c is not None and not c.args:
            roles[nm] = 'START'
        elif _read_call(v, fvar, consts) is not None:
            roles[nm] = 'BLOCK'
            n = _read_call(v, fvar, consts)
        elif isinstance(v, ast.Call) and isinstance(v.func, ast.Attribute) and v.func.attr in ('find', 'index') and isinstance(v.func.value, ast.Name) \
                and roles.get(v.func.value.id) == 'BLOCK' and len(v.args) == 1 and bytes_lit(v.args[0]) == NUL and v.func.attr == 'find':
            roles[nm] = 'END'
        else:
            break
        i += 1
    inv = {v: k for k, v in roles.items()}
    if set(inv) != {'START', 'BLOCK', 'END'} or len(roles) != 3 or n is None:
        raise TranslateError('iter_nullstr: loop shape not recognised (neither read-one-and-accumulate nor tell/read/find)')
    rest = loop[i:]
    endv, blockv, startv = inv['END'], inv['BLOCK'], inv['START']
    inner = None
    if rest and isinstance(rest[0], ast.While) and not rest[0].orelse and ast.unparse(rest[0].test).replace(' ', '') in (f'{endv}==-1', f'{endv}<0', f'-1=={endv}'):
        # an inner loop that fetches further blocks while no terminator has been found:
        #     while end == -1: <empty block raises>; chars.extend(block); [start = file.tell();] block = file.read(n); end = block.find(NUL)
        # then the statements for "found".  Whether `start` is taken again before each further block decides where the final
        # seek(start + end + 1) lands: at the terminator (RBlockLoop) or `end` bytes after where the FIRST block began (RBlockLoopRel).
        wb = norm_block([s for s in rest[0].body if not isinstance(s, ast.Pass)])
        if buf is None or not wb or not isinstance(wb[0], ast.If):
            raise TranslateError('iter_nullstr: inner block loop: `if not block: raise` expected first')
        br = _branches(wb[0], lambda tt: _char_class(tt, blockv, 'block') - {'NUL'}, {'EOF', 'OTHER'})
        eof = [s for s in br['EOF'] if not isinstance(s, ast.Pass)]
        oth = [s for s in br['OTHER'] if not isinstance(s, (ast.Pass, ast.Continue))] + wb[1:]
        if len(eof) != 1 or not isinstance(eof[0], ast.Raise) or not oth or not _is_append(oth[0], buf, blockv):
            raise TranslateError('iter_nullstr: inner block loop: empty block must raise, a block without terminator must be appended to the buffer')
        restart = False
        seen_roles = []
        for s2 in oth[1:]:
            if not (isinstance(s2, ast.Assign) and len(s2.targets) == 1 and isinstance(s2.targets[0], ast.Name)):
                raise TranslateError(f'line {s2.lineno}: iter_nullstr: inner block loop: statement not understood')
            nm2, v2 = s2.targets[0].id, s2.value
            c2 = method_call(v2, fvar, 'tell')
            if nm2 == startv and c2 is not None and not c2.args and not seen_roles:
                restart = True
            elif nm2 == blockv and _read_call(v2, fvar, consts) == n:
                seen_roles.append('BLOCK')
            elif nm2 == endv and isinstance(v2, ast.Call) and isinstance(v2.func, ast.Attribute) and v2.func.attr == 'find' and is_name(v2.func.value, blockv) \
                    and len(v2.args) == 1 and bytes_lit(v2.args[0]) == NUL:
                seen_roles.append('END')
            else:
                raise TranslateError(f'line {s2.lineno}: iter_nullstr: inner block loop: assignment {ast.unparse(s2)[:60]!r} not understood')
        if seen_roles != ['BLOCK', 'END']:
            raise TranslateError('iter_nullstr: inner block loop: the next block and its find() result must be taken at the end of the body')
        inner = 'RBlockLoop' if restart else 'RBlockLoopRel'
        rest = [ast.If(test=ast.parse(f'{endv} != -1', mode='eval').body, body=rest[1:], orelse=[ast.Raise(exc=None, cause=None)], lineno=rest[0].lineno, col_offset=0)]
    if len(rest) != 1 or not isinstance(rest[0], ast.If):
        raise TranslateError('iter_nullstr: block shape: a test of the find() result expected')
    t = rest[0].test
    src = ast.unparse(t).replace(' ', '')
    if src in (f'{endv}==-1', f'{endv}<0', f'-1=={endv}'):
        notfound, found = rest[0].body, rest[0].orelse
    elif src in (f'{endv}!=-1', f'{endv}>=0', f'{endv}>-1'):
        found, notfound = rest[0].body, rest[0].orelse
    else:
        raise TranslateError(f'line {t.lineno}: iter_nullstr: test {ast.unparse(t)!r} of the find() result not understood')
    nf = [s for s in notfound if not isinstance(s, ast.Pass)]
    if len(nf) == 1 and isinstance(nf[0], ast.Raise):
        looping = False
    else:
        # `if not block: raise` ; chars += block ; continue
        nfn = norm_block(nf)
        if buf is None or len(nfn) != 1 or not isinstance(nfn[0], ast.If):
            raise TranslateError('iter_nullstr: block shape: when no terminator is in the block the code must raise, or raise on an empty block and accumulate')
        br = _branches(nfn[0], lambda tt: _char_class(tt, blockv, 'block') - {'NUL'}, {'EOF', 'OTHER'})
        eof = [s for s in br['EOF'] if not isinstance(s, ast.Pass)]
        oth = [s for s in br['OTHER'] if not isinstance(s, (ast.Pass, ast.Continue))]
        if len(eof) != 1 or not isinstance(eof[0], ast.Raise) or len(oth) != 1 or not _is_append(oth[0], buf, blockv):
            raise TranslateError('iter_nullstr: looping block shape: empty block must raise, a block without terminator must be appended to the buffer')
        looping = True
    found = [s for s in found if not isinstance(s, ast.Pass)]
    if inner is not None:
        looping = True
        # the seek may come after the last piece is appended to the buffer: both only move data that is already read
        sk_i = [k for k, s in enumerate(found) if isinstance(s, ast.Expr) and method_call(s.value, fvar, 'seek') is not None]
        if len(sk_i) == 1 and all(isinstance(x, ast.Expr) and method_call(x.value, buf, 'extend') is not None for x in found[:sk_i[0]]):
            found = [found[sk_i[0]]] + found[:sk_i[0]] + found[sk_i[0] + 1:]
    # file.seek(start + end + 1)
    if not found or not (isinstance(found[0], ast.Expr) and method_call(found[0].value, fvar, 'seek') is not None):
        raise TranslateError('iter_nullstr: block shape: file.seek(...) expected once the terminator is found')
    sk = found[0].value
    if len(sk.args) != 1 or sk.keywords or sorted(_sum_terms(sk.args[0])) != sorted([startv, endv, '1']):
        raise TranslateError(f'line {sk.lineno}: iter_nullstr: seek target {ast.unparse(sk)!r} is not start + end + 1')
    found = found[1:]
    svar = codec = None
    cleared = not looping
    rest2 = []
    piece = f'{blockv}[:{endv}]'
    for s in found:
        if svar is None:
            if looping and isinstance(s, ast.Expr) and method_call(s.value, buf, 'extend') is not None and ast.unparse(s.value.args[0]) == piece:
                piece = None      # appended first, decoded from the buffer
                continue
            if looping and isinstance(s, ast.AugAssign) and is_name(s.target, buf) and ast.unparse(s.value) == piece:
                piece = None
                continue
            d = _decode_site(s.value, consts) if isinstance(s, ast.Assign) and len(s.targets) == 1 and isinstance(s.targets[0], ast.Name) else None
            if d is None:
                raise TranslateError(f'line {s.lineno}: iter_nullstr: `string = <bytes>.decode(...)` expected after the seek')
            srcb = ast.unparse(_unwrap_bytes(d[0])).replace('(', '').replace(')', '')
            want = [piece] if not looping else ([buf] if piece is None else [f'{buf} + {piece}'])
            if srcb not in want:
                raise TranslateError(f'line {s.lineno}: iter_nullstr: decoded bytes {srcb!r}, expected {want}')
            svar, codec = s.targets[0].id, d[1]
        elif looping and _is_clear(s, buf):
            cleared = True
        else:
            rest2.append(s)
    if svar is None or not cleared:
        raise TranslateError('iter_nullstr: block shape: string not decoded / buffer not cleared')
    ok, blank, acts = _dispatch(rest2, svar)
    return {'reader': f'{inner or ("RBlockLoop" if looping else "RBlock")} {n}', 'dispatch': ok, 'blank_r': blank, 'codec': codec, 'actions': acts}


# ------------------------------------------------------------------------------------------------ census of the call sites
def census(tree: ast.Module) -> dict:
    vpk = find_def(tree.body, ast.ClassDef, 'VPK')
    load = find_def(vpk.body, ast.FunctionDef, 'load_dirfile')
    wdir = find_def(vpk.body, ast.FunctionDef, 'write_dirfile')
    # load_dirfile: three nested `for x in iter_nullstr(f)` over the same file object, nothing else iterates the tree
    fors = [n for n in ast.walk(load) if isinstance(n, ast.For)]
    iters = [n for n in fors if isinstance(n.iter, ast.Call) and is_name(n.iter.func, 'iter_nullstr') and len(n.iter.args) == 1 and not n.iter.keywords]
    files = {ast.unparse(n.iter.args[0]) for n in iters}

    def depth(n, d=0):
        inner = [depth(c, d + 1) for c in ast.walk(n) if c is not n and c in iters and c in [x for b in n.body for x in ast.walk(b)]]
        return max(inner, default=d)
    nested = len(iters) == 3 and len(fors) == 3 and len(files) == 1 and max(depth(n) for n in iters) == 2
    calls_r = [n for n in ast.walk(tree) if isinstance(n, ast.Call) and is_name(n.func, 'iter_nullstr')]
    # write_dirfile: `_write_nullstring(file, <loop variable>)` once per level of the three nested loops
    wcalls = [n for n in ast.walk(wdir) if isinstance(n, ast.Call) and is_name(n.func, '_write_nullstring')]
    wfors = [n for n in ast.walk(wdir) if isinstance(n, ast.For)]
    loopvars = []
    for f in wfors:
        t = f.target
        loopvars.append(t.elts[0].id if isinstance(t, ast.Tuple) and t.elts and isinstance(t.elts[0], ast.Name) else None)
    wargs = [ast.unparse(c.args[1]) if len(c.args) == 2 and not c.keywords else None for c in wcalls]
    wfile = {ast.unparse(c.args[0]) for c in wcalls if c.args}
    writes_ok = len(wfors) == 3 and len(wcalls) == 3 and None not in loopvars and sorted(wargs, key=str) == sorted(loopvars, key=str) and len(wfile) == 1
    return {'reader_sites_nested': nested, 'reader_calls': len(calls_r), 'writer_sites_per_level': writes_ok,
            'writer_args': wargs, 'loop_vars': loopvars}


def coq_bytes_lit(b: bytes) -> str:
    return '[' + '; '.join(str(x) for x in b) + ']%N' if b else '(@nil N)'


def translate() -> tuple[str, dict]:
    tree = ast.parse(src_text('vpk.py'))
    consts = module_constants(tree)
    wn = find_def(tree.body, ast.FunctionDef, '_write_nullstring')
    itn = find_def(tree.body, ast.FunctionDef, 'iter_nullstr')
    w = translate_writer(wn)
    r = translate_reader(itn, consts)
    cs = census(tree)
    if r['blank_r'] is not None:
        try:
            blank_r = r['blank_r'].encode('ascii')
        except UnicodeError:
            raise TranslateError(f'iter_nullstr: blank literal {r["blank_r"]!r} is not ASCII')
    else:
        blank_r = b''
    same = w['codec'] == r['codec']
    side = {'writer': {k: (v.hex() if isinstance(v, bytes) else list(v)) for k, v in w.items()}, 'reader': {k: (list(v) if isinstance(v, tuple) else v) for k, v in r.items()},
            'census': cs, 'digests': {'_write_nullstring': ast_digest(wn), 'iter_nullstr': ast_digest(itn)},
            'lines': {'_write_nullstring': wn.lineno, 'iter_nullstr': itn.lineno}}
    b = lambda x: 'true' if x else 'false'
    text = '\n'.join([
        '(* GENERATED by translate/c13_nullstr.py from /repo/src/srctools/vpk.py. Do not edit. *)',
        'From Coq Require Import List NArith Bool.', 'From SV Require Import Fmt.VpkDir Fmt.VpkNullStr.', 'Import ListNotations.',
        'Open Scope N_scope.',
        f'(* iter_nullstr (line {itn.lineno}): {r["reader"]}; dispatch {r["actions"]}; _write_nullstring (line {wn.lineno}) *)',
        'Definition g_ncodec : ncodec :=',
        f'  {{| nc_reader := {r["reader"]}; nc_term := {coq_bytes_lit(w["term"])}; nc_blank_w := {coq_bytes_lit(w["blank_w"])};',
        f'     nc_blank_r := {coq_bytes_lit(blank_r)}; nc_dispatch := {b(r["dispatch"])}; nc_same_codec := {b(same)} |}}.',
        f'Definition g_tree_strings_read_by_iter_nullstr : bool := {b(cs["reader_sites_nested"])}.',
        f'Definition g_tree_strings_written_by_write_nullstring : bool := {b(cs["writer_sites_per_level"])}.',
        '',
    ])
    return text, side


GEN = {'VpkNullStr_gen': translate}
