"""C18 translator (round 4): censuses over ALL of src/srctools -> Gen/FsCensus_gen.v.

The wrapper / shared-state censuses of translate/c18_guard.py read filesys.py only.  What they cannot see, and this
module reads (every *.py below src/srctools, fail-closed on a file that does not parse):

* `foreign_patches` — monkey-patch style statements anywhere in the package: assignment / augmented assignment / `del` /
  `setattr` / `delattr` / `type.__setattr__` / `.__dict__[...]` on an attribute of File, FileSystem, RawFileSystem,
  FileSystemChain (whatever local name or module alias they were imported under: `filesys.RawFileSystem._resolve_path = ...`,
  `from srctools.filesys import RawFileSystem as R; R.open_bin = wrap(R.open_bin)`), and on the library functions the
  containment argument stands on (`os.path.abspath = ...`, `posixpath.join = ...`, `builtins.open = ...`, `os.sep = ...`);
  `mock.patch(...)`-style calls naming them in a string.
* `foreign_subclasses` — a class in another module deriving from RawFileSystem that redefines one of its methods, or
  `__getattr__` / `__getattribute__` / `__init_subclass__`-free: any method of RawFileSystem, `path`, `constrain_path`.
* `decorator_origins` — the decorators the censuses of filesys.py treat as neutral (`deprecated`, `classmethod`, ...) must be
  the library's: a name imported from another module of the package, defined or rebound in filesys.py, is not neutral.
* `reachable_foreign` — functions / classes defined in other modules of the package that the methods of the four classes call
  (by imported name), transitively through module-level functions: reported when they are wrapped in a cache
  (`functools.cache`, `lru_cache`, `cached_property`, `cache`-named decorators) or use module-level mutable state;
  today the only such calls are `Keyvalues.parse` (after the file was opened) and typing helpers.
* `per_object_state` — attributes of File / FileSystem / RawFileSystem objects that hold containers or anything handed in
  from outside: `self.x = {}` / `[]` / `set()` / `dict()` / `defaultdict(...)` / a constructor parameter other than the
  path and the flag stored on the object, `__slots__` / annotated class attributes naming such a table.  A per-object
  table is harmless while the flag and the root of the object are fixed (SM/PathProperty.v: `per_object_table_transparent`),
  but it is state the history theorems do not talk about, so today's source is required to have none.
* `constructor_signature_ok` — RawFileSystem.__init__ takes exactly (self, path, constrain_path=True): nothing else can be
  smuggled into an object at construction.
* `entry_points` — every method of File / FileSystem that is not overridden away: which method of the file system it
  delegates to, with which argument (a `ccall` of SM/PathOps.v), read by the chain-mode interpreter of translate/c18_ops.py.
  `entry_unread` lists the public methods it could not read (fail-closed as data, the obligation wants it empty).
"""
from __future__ import annotations

import ast
from pathlib import Path

from harness.common import SRC, TranslateError
from translate.c18_guard import FS_CLASSES, NEUTRAL_DECORATORS, _coq_ident, _dotted, _immutable_value

GUARDED_LIB = {'os.path.abspath', 'os.path.join', 'os.path.normpath', 'os.path.commonpath', 'os.path.relpath', 'os.path.isfile',
               'os.path.realpath', 'os.sep', 'os.path.sep', 'os.walk', 'os.stat', 'os.fspath', 'os.getcwd', 'os.path',
               'posixpath.abspath', 'posixpath.join', 'posixpath.normpath', 'posixpath.sep', 'builtins.open', 'io.open',
               'os.altsep', 'os.path.altsep', 'os.curdir', 'os.pardir'}
CACHE_WORDS = ('cache', 'memo', 'lru')
CONTAINER_MAKERS = {'dict', 'list', 'set', 'defaultdict', 'collections.defaultdict', 'OrderedDict', 'collections.OrderedDict',
                    'WeakValueDictionary', 'weakref.WeakValueDictionary', 'WeakKeyDictionary', 'weakref.WeakKeyDictionary',
                    'deque', 'collections.deque', 'Counter', 'collections.Counter', 'ChainMap', 'bytearray'}
LIBRARY_DECORATOR_HOMES = {'typing', 'typing_extensions', 'warnings', 'abc', 'builtins', 'functools'}


def package_files() -> list[Path]:
    return sorted(p for p in SRC.rglob('*.py'))


def _rel(p: Path) -> str:
    return str(p.relative_to(SRC))


_ALIASES: dict[int, tuple] = {}
_NODES: dict[int, list] = {}


def _walk(tree: ast.AST) -> list:
    """ast.walk(tree) as a list, computed once per tree."""
    k = id(tree)
    if k not in _NODES:
        _NODES[k] = list(ast.walk(tree))
    return _NODES[k]


def _fs_aliases(tree: ast.Module, is_filesys: bool) -> tuple[dict[str, str], set[str]]:
    k = id(tree)
    if k not in _ALIASES:
        _ALIASES[k] = _fs_aliases0(tree, is_filesys)
    return _ALIASES[k]


def _fs_aliases0(tree: ast.Module, is_filesys: bool) -> tuple[dict[str, str], set[str]]:
    """(local name -> class of FS_CLASSES it denotes, local names that denote the module srctools.filesys)."""
    names: dict[str, str] = {c: c for c in FS_CLASSES} if is_filesys else {}
    mods: set[str] = set()
    for n in _walk(tree):
        if isinstance(n, ast.ImportFrom) and n.module in ('srctools.filesys', 'filesys') or \
                isinstance(n, ast.ImportFrom) and n.level and n.module == 'filesys':
            for a in n.names:
                if a.name in FS_CLASSES:
                    names[a.asname or a.name] = a.name
                elif a.name == '*':
                    names.update({c: c for c in FS_CLASSES})
        elif isinstance(n, ast.ImportFrom) and (n.module == 'srctools' or (n.level and n.module is None)):
            for a in n.names:
                if a.name == 'filesys':
                    mods.add(a.asname or 'filesys')
                elif a.name in FS_CLASSES:          # re-exported by srctools/__init__.py
                    names[a.asname or a.name] = a.name
        elif isinstance(n, ast.Import):
            for a in n.names:
                if a.name == 'srctools.filesys':
                    mods.add(a.asname or 'srctools.filesys')
                elif a.name == 'srctools':
                    mods.add((a.asname or 'srctools') + '.filesys')
    # plain aliases: R = RawFileSystem
    for n in _walk(tree):
        if isinstance(n, ast.Assign) and len(n.targets) == 1 and isinstance(n.targets[0], ast.Name):
            d = _dotted(n.value)
            if d in names and n.targets[0].id not in names:
                names[n.targets[0].id] = names[d]
    return names, mods


def _class_of(expr: ast.AST, names: dict[str, str], mods: set[str]) -> str | None:
    """The class of FS_CLASSES an expression denotes (`RawFileSystem`, `R`, `filesys.RawFileSystem`, `type(fs)` is not)."""
    d = _dotted(expr)
    if d is None:
        return None
    if d in names:
        return names[d]
    for m in mods:
        if d.startswith(m + '.') and d[len(m) + 1:] in FS_CLASSES:
            return d[len(m) + 1:]
    return None


def foreign_patches(trees: dict[str, ast.Module]) -> list[tuple[str, str, str]]:
    out = []
    for rel, tree in trees.items():
        is_fs = rel == 'filesys.py'
        names, mods = _fs_aliases(tree, is_fs)
        for node in _walk(tree):
            targets: list[ast.AST] = []
            if isinstance(node, ast.Assign):
                targets = list(node.targets)
            elif isinstance(node, (ast.AugAssign, ast.AnnAssign)):
                targets = [node.target]
            elif isinstance(node, ast.Delete):
                targets = list(node.targets)
            elif isinstance(node, (ast.With, ast.AsyncWith)):
                targets = []
            for t in targets:
                for sub in ast.walk(t):
                    if isinstance(sub, ast.Attribute):
                        c = _class_of(sub.value, names, mods)
                        if c is not None and not is_fs:      # inside filesys.py the round-3 census reports it
                            out.append((rel, f'{c}.{sub.attr}', f'attribute of the class assigned: {ast.unparse(node)[:70]}'))
                        if _dotted(sub) in GUARDED_LIB:
                            out.append((rel, _dotted(sub), f'library function replaced: {ast.unparse(node)[:70]}'))
                    if isinstance(sub, ast.Subscript) and isinstance(sub.value, ast.Attribute) and sub.value.attr == '__dict__':
                        c = _class_of(sub.value.value, names, mods)
                        if c is not None:
                            out.append((rel, f'{c}.__dict__', f'class dictionary written: {ast.unparse(node)[:70]}'))
            if isinstance(node, ast.Call):
                d = _dotted(node.func) or ''
                if d in ('setattr', 'delattr', 'type.__setattr__', 'type.__delattr__', 'object.__setattr__') and node.args:
                    c = _class_of(node.args[0], names, mods)
                    if c is not None:
                        out.append((rel, f'{c}.{ast.unparse(node.args[1])[:30] if len(node.args) > 1 else "?"}',
                                    f'{d} on the class'))
                    elif _dotted(node.args[0]) in ('os', 'os.path', 'posixpath', 'builtins', 'io'):
                        out.append((rel, _dotted(node.args[0]) or '?', f'{d} on a library module: {ast.unparse(node)[:70]}'))
                if d.split('.')[-1] in ('patch', 'setattr') or d.endswith(('patch.object', 'monkeypatch.setattr')):
                    for a in list(node.args) + [k.value for k in node.keywords]:
                        if isinstance(a, ast.Constant) and isinstance(a.value, str) and (
                                any(c in a.value for c in FS_CLASSES if c != 'File') or a.value in GUARDED_LIB):
                            out.append((rel, a.value[:40], f'patch call: {ast.unparse(node)[:70]}'))
                        elif _class_of(a, names, mods) is not None and d.split('.')[-1] == 'patch' or \
                                _class_of(a, names, mods) is not None and d.endswith(('patch.object', 'monkeypatch.setattr')):
                            out.append((rel, _class_of(a, names, mods) or '?', f'patch call: {ast.unparse(node)[:70]}'))
    return list(dict.fromkeys(out))


def foreign_subclasses(trees: dict[str, ast.Module]) -> list[tuple[str, str, str]]:
    fs = trees['filesys.py']
    raw = next(n for n in fs.body if isinstance(n, ast.ClassDef) and n.name == 'RawFileSystem')
    base = next(n for n in fs.body if isinstance(n, ast.ClassDef) and n.name == 'FileSystem')
    watched = {f.name for c in (raw, base) for f in c.body if isinstance(f, (ast.FunctionDef, ast.AsyncFunctionDef))} \
        | {'path', 'constrain_path', '__getattr__', '__getattribute__', '__setattr__'}
    watched.discard('__init__')
    out = []
    for rel, tree in trees.items():
        names, mods = _fs_aliases(tree, rel == 'filesys.py')
        for cls in (n for n in _walk(tree) if isinstance(n, ast.ClassDef)):
            bases = [_class_of(b.value if isinstance(b, ast.Subscript) else b, names, mods) for b in cls.bases]
            if 'RawFileSystem' not in bases or (rel == 'filesys.py' and cls.name == 'RawFileSystem'):
                continue
            for st in cls.body:
                bound = []
                if isinstance(st, (ast.FunctionDef, ast.AsyncFunctionDef)):
                    bound = [st.name]
                elif isinstance(st, ast.Assign):
                    bound = [t.id for t in st.targets if isinstance(t, ast.Name)]
                elif isinstance(st, ast.AnnAssign) and st.value is not None and isinstance(st.target, ast.Name):
                    bound = [st.target.id]
                for b in bound:
                    if b in watched:
                        out.append((rel, f'{cls.name}.{b}', 'subclass of RawFileSystem redefines it'))
    return out


def decorator_origins(tree: ast.Module) -> list[tuple[str, str, str]]:
    """Neutral decorator names used on the methods of the four classes whose binding in filesys.py is not the library's."""
    homes: dict[str, str] = {}
    for n in tree.body:
        if isinstance(n, ast.ImportFrom):
            for a in n.names:
                homes[a.asname or a.name] = ('.' * n.level) + (n.module or '')
        elif isinstance(n, ast.Import):
            for a in n.names:
                homes[(a.asname or a.name).split('.')[0]] = a.name.split('.')[0]
        elif isinstance(n, (ast.FunctionDef, ast.AsyncFunctionDef, ast.ClassDef)):
            homes[n.name] = '<defined in filesys.py>'
        elif isinstance(n, (ast.Assign, ast.AnnAssign, ast.AugAssign)):
            for t in (n.targets if isinstance(n, ast.Assign) else [n.target]):
                for nm in ast.walk(t):
                    if isinstance(nm, ast.Name):
                        homes[nm.id] = '<assigned in filesys.py>'
    out = []
    used: set[str] = set()
    for cls in (n for n in tree.body if isinstance(n, ast.ClassDef) and n.name in FS_CLASSES):
        for f in cls.body:
            if isinstance(f, (ast.FunctionDef, ast.AsyncFunctionDef)):
                for dec in f.decorator_list:
                    d = _dotted(dec.func if isinstance(dec, ast.Call) else dec)
                    if d in NEUTRAL_DECORATORS:
                        used.add(d)
    for d in sorted(used):
        head = d.split('.')[0]
        home = homes.get(head)
        if home is None:
            if head in ('classmethod', 'staticmethod'):
                continue                                   # builtins
            out.append(('filesys.py', d, 'decorator name is not bound at module level'))
        elif home.split('.')[0] not in LIBRARY_DECORATOR_HOMES:
            out.append(('filesys.py', d, f'decorator comes from {home}, not from the standard library / typing_extensions'))
    return out


def _module_of(name: str, trees: dict[str, ast.Module]) -> str | None:
    rel = name.replace('.', '/')
    for cand in (rel + '.py', rel + '/__init__.py'):
        if cand.startswith('srctools/') and cand[len('srctools/'):] in trees:
            return cand[len('srctools/'):]
    return None


def _is_cache_decorator(dec: ast.AST) -> bool:
    d = (_dotted(dec.func if isinstance(dec, ast.Call) else dec) or ast.unparse(dec)).lower()
    return any(w in d for w in CACHE_WORDS)


def reachable_foreign(trees: dict[str, ast.Module]) -> tuple[list[tuple[str, str, str]], list[str]]:
    """Calls from the methods of the four classes into other modules of the package: (reports, names followed)."""
    fs = trees['filesys.py']
    imported: dict[str, tuple[str, str]] = {}       # local name -> (module file, name there)
    for n in fs.body:
        if isinstance(n, ast.ImportFrom) and n.module and not n.level:
            m = _module_of(n.module, trees)
            if m is not None:
                for a in n.names:
                    imported[a.asname or a.name] = (m, a.name)
    out: list[tuple[str, str, str]] = []
    followed: list[str] = []
    todo: list[tuple[str, str]] = []
    for cls in (n for n in fs.body if isinstance(n, ast.ClassDef) and n.name in FS_CLASSES):
        for node in ast.walk(cls):
            if isinstance(node, ast.Call):
                d = _dotted(node.func)
                if d is None:
                    continue
                head = d.split('.')[0]
                if head in imported:
                    mod, nm = imported[head]
                    todo.append((mod, '.'.join([nm] + d.split('.')[1:])))
    seen: set[tuple[str, str]] = set()
    while todo:
        mod, qual = todo.pop()
        if (mod, qual) in seen:
            continue
        seen.add((mod, qual))
        followed.append(f'{mod}:{qual}')
        tree = trees[mod]
        parts = qual.split('.')
        scope: list[ast.stmt] = tree.body
        node: ast.AST | None = None
        for p in parts:
            node = next((s for s in scope if isinstance(s, (ast.FunctionDef, ast.AsyncFunctionDef, ast.ClassDef)) and s.name == p), None)
            if node is None:
                break
            scope = node.body if isinstance(node, ast.ClassDef) else []
        if node is None:
            continue                      # re-exported / assigned name: not a function defined there
        defs = [node] if not isinstance(node, ast.ClassDef) else \
            [f for f in node.body if isinstance(f, (ast.FunctionDef, ast.AsyncFunctionDef)) and f.name in ('__init__', '__new__', '__call__')]
        for f in defs:
            for dec in f.decorator_list:
                if _is_cache_decorator(dec):
                    out.append((mod, f'{qual}', f'reached from the file-system classes and wrapped in @{ast.unparse(dec)[:50]}'))
    return out, sorted(followed)


def per_object_state(tree: ast.Module) -> tuple[list[tuple[str, str, str]], bool, list[str]]:
    """(reports, RawFileSystem.__init__ has exactly (self, path, constrain_path), attributes the objects carry)."""
    out = []
    classes = {n.name: n for n in tree.body if isinstance(n, ast.ClassDef)}
    attrs: list[str] = []
    sig_ok = False
    for cname in ('File', 'FileSystem', 'RawFileSystem'):
        cls = classes.get(cname)
        if cls is None:
            continue
        for st in cls.body:
            # declared per-object slots / annotated attributes that name a table
            if isinstance(st, ast.AnnAssign) and isinstance(st.target, ast.Name):
                ann = ast.unparse(st.annotation)
                attrs.append(f'{cname}.{st.target.id}: {ann}')
                if any(w in ann.lower() for w in ('dict', 'list[', 'set[', 'mapping', 'deque', 'cache')) \
                        and not ann.startswith(('ClassVar', 'Final')):
                    out.append((cname, st.target.id, f'object attribute declared as a container: {ann[:50]}'))
            if isinstance(st, ast.Assign) and any(isinstance(t, ast.Name) and t.id == '__slots__' for t in st.targets):
                for e in ast.walk(st.value):
                    if isinstance(e, ast.Constant) and isinstance(e.value, str):
                        attrs.append(f'{cname}.__slots__:{e.value}')     # layout only: what is stored there is read below
            if not isinstance(st, (ast.FunctionDef, ast.AsyncFunctionDef)):
                continue
            params = [a.arg for a in st.args.posonlyargs + st.args.args + st.args.kwonlyargs]
            if cname == 'RawFileSystem' and st.name == '__init__':
                a = st.args
                sig_ok = ([x.arg for x in a.args] == ['self', 'path', 'constrain_path'] and not a.vararg and not a.kwarg
                          and not a.kwonlyargs and not a.posonlyargs and len(a.defaults) == 1
                          and isinstance(a.defaults[0], ast.Constant) and a.defaults[0].value is True)
            for node in ast.walk(st):
                tg: list[ast.AST] = []
                val: ast.AST | None = None
                if isinstance(node, ast.Assign):
                    tg, val = list(node.targets), node.value
                elif isinstance(node, ast.AnnAssign) and node.value is not None:
                    tg, val = [node.target], node.value
                elif isinstance(node, ast.AugAssign):
                    tg, val = [node.target], node.value
                for t in tg:
                    if isinstance(t, ast.Attribute) and isinstance(t.value, ast.Name) and t.value.id == 'self':
                        attrs.append(f'{cname}.{st.name}: self.{t.attr} = {ast.unparse(val)[:40]}')
                        d = _dotted(val.func) if isinstance(val, ast.Call) else None
                        if isinstance(val, (ast.Dict, ast.List, ast.Set, ast.ListComp, ast.DictComp, ast.SetComp)) \
                                or d in CONTAINER_MAKERS or (d or '').lower().endswith(CACHE_WORDS):
                            out.append((cname, f'self.{t.attr}', f'{st.name} stores a container on the object: {ast.unparse(node)[:60]}'))
                        elif cname != 'File' and isinstance(val, ast.Name) and val.id in params \
                                and val.id not in ('path', 'constrain_path', 'self'):
                            out.append((cname, f'self.{t.attr}', f'{st.name} stores the parameter {val.id} handed in from outside'))
                        elif st.name != '__init__' and cname != 'File':
                            out.append((cname, f'self.{t.attr}', f'{st.name} writes object state after construction: {ast.unparse(node)[:60]}'))
                    # self.__dict__[...] = / self.x[...] = : writing into a table kept on the object
                    if isinstance(t, ast.Subscript):
                        b = t.value
                        if isinstance(b, ast.Attribute) and isinstance(b.value, ast.Name) and b.value.id in ('self', 'cls'):
                            out.append((cname, f'self.{b.attr}[...]', f'{st.name} writes into a table kept on the object: {ast.unparse(node)[:60]}'))
                if isinstance(node, ast.Call) and (_dotted(node.func) or '') in ('setattr', 'object.__setattr__') and node.args \
                        and _dotted(node.args[0]) == 'self' and cname != 'File':
                    out.append((cname, 'setattr(self, ...)', f'{st.name} writes object state by name: {ast.unparse(node)[:60]}'))
                if isinstance(node, ast.Call) and isinstance(node.func, ast.Attribute) \
                        and node.func.attr in ('setdefault', 'append', 'add', 'update', '__setitem__', 'insert', 'extend') \
                        and isinstance(node.func.value, ast.Attribute) and isinstance(node.func.value.value, ast.Name) \
                        and node.func.value.value.id in ('self', 'cls'):
                    out.append((cname, f'self.{node.func.value.attr}', f'{st.name} mutates a container kept on the object: {ast.unparse(node)[:60]}'))
    return list(dict.fromkeys(out)), sig_ok, attrs


def entry_points(tree: ast.Module) -> tuple[list[tuple[str, str, str, str]], list[tuple[str, str, str]]]:
    """(class, method, member method it delegates to, argument pexp) for the methods of File and FileSystem (the entry points
    RawFileSystem inherits), read by the interpreter of translate/c18_ops.py; (class, method, why) for those it cannot read."""
    from translate import c18_ops
    classes = {n.name: n for n in tree.body if isinstance(n, ast.ClassDef)}
    raw_defined = {f.name for f in classes['RawFileSystem'].body if isinstance(f, (ast.FunctionDef, ast.AsyncFunctionDef))}
    member_methods = raw_defined | {f.name for f in classes['FileSystem'].body if isinstance(f, (ast.FunctionDef, ast.AsyncFunctionDef))}
    out: list[tuple[str, str, str, str]] = []
    unread: list[tuple[str, str, str]] = []
    module_funcs = {n.name: n for n in tree.body if isinstance(n, ast.FunctionDef)}
    for cname in ('FileSystem', 'File'):
        for fn in classes[cname].body:
            if not isinstance(fn, (ast.FunctionDef, ast.AsyncFunctionDef)):
                continue
            if cname == 'FileSystem' and fn.name in raw_defined or fn.name == '__init__':
                continue                      # overridden by RawFileSystem: its own body is read by c18_ops; constructors: c18_guard
            it = _make_entry_class()(cname, fn, member_methods, module_funcs)
            try:
                it.run()
            except TranslateError as e:
                unread.append((cname, fn.name, str(e)[:120]))
                continue
            for m, p in it.calls:
                out.append((cname, fn.name, m, p))
    return out, unread


FSYS = ('fsys',)


def _make_entry_class():
    from translate import c18_ops

    class Entry(c18_ops._Interp):
        """The interpreter of c18_ops with `self.m(x)` (FileSystem) / `self.sys.m(x)` (File) read as a call into the file
        system: records (method, argument expression); a File passed on is the expression PHandlePath-free marker 'PHandle'."""

        def __init__(self, cls: str, fn, member_methods: set[str], module_funcs: dict) -> None:
            super().__init__(cls, fn, chain=True, helpers={'=module': module_funcs}, consts={})
            self.members = member_methods

        def init_env(self):
            env = super().init_env()
            # `self` is the file system in FileSystem's methods, the handle in File's (whose `.sys` is the file system)
            env['self'] = frozenset([FSYS]) if self.cls == 'FileSystem' else frozenset([c18_ops.HANDLE])
            return env

        def ev(self, n, env):
            if isinstance(n, ast.Attribute) and n.attr == 'sys' and self.ev(n.value, env) == frozenset([c18_ops.HANDLE]):
                return frozenset([FSYS])
            if isinstance(n, ast.Name) and n.id == 'self':
                return env.get('self', frozenset([c18_ops.OTHER]))
            if isinstance(n, ast.Attribute) and n.attr in self.members and not n.attr.startswith('__') \
                    and self.ev(n.value, env) == frozenset([FSYS]):
                return frozenset([('bound', n.attr)])          # `getter = self._get_file`: a bound method kept in a local
            return super().ev(n, env)

        def call(self, n: ast.Call, env: dict):
            f = n.func
            target = None
            if isinstance(f, ast.Attribute) and f.attr in self.members and not f.attr.startswith('__') \
                    and self.ev(f.value, env) == frozenset([FSYS]):
                target = f.attr
            elif isinstance(f, ast.Name):
                v = env.get(f.id, frozenset())
                if len(v) == 1 and next(iter(v))[0] == 'bound':
                    target = next(iter(v))[1]
            if target is not None:
                f = ast.Attribute(value=ast.Name(id='self', ctx=ast.Load()), attr=target, ctx=ast.Load())
                args = list(n.args) + [k.value for k in n.keywords]
                if not args:
                    self.calls.append((f.attr, 'PArg'))
                else:
                    first = n.args[0] if n.args else n.keywords[0].value
                    vals = self.ev(first, env)
                    for a in args:
                        if a is not first:
                            self.ev(a, env)
                    for v in sorted(vals):
                        if v[0] == 'str':
                            self.calls.append((f.attr, v[1]))
                        elif v == c18_ops.HANDLE:
                            self.calls.append((f.attr, 'PHandleData'))     # the handle goes on as it is
                        else:
                            self.fail(n, f'argument of {f.attr} is not a recognised expression')
                return frozenset([c18_ops.HANDLE]) if f.attr == '_get_file' else frozenset([c18_ops.OTHER])
            return super().call(n, env)
    return Entry


def raw_constructions(trees: dict[str, ast.Module]) -> list[tuple[str, str, str]]:
    """Every `RawFileSystem(...)` call of the package (its factories: get_filesystem, Game.get_filesystem, get_inst_locs,
    the scripts): (file, call, 'constrained' | 'UNCONSTRAINED: ...')."""
    out = []
    for rel, tree in trees.items():
        names, mods = _fs_aliases(tree, rel == 'filesys.py')
        for node in _walk(tree):
            if isinstance(node, ast.Call) and _class_of(node.func, names, mods) == 'RawFileSystem':
                flag = [k.value for k in node.keywords if k.arg == 'constrain_path'] + list(node.args[1:2])
                star = any(isinstance(a, ast.Starred) for a in node.args) or any(k.arg is None for k in node.keywords)
                if star:
                    verdict = 'UNCONSTRAINED: * / ** arguments, the flag cannot be read'
                elif not flag or (isinstance(flag[0], ast.Constant) and flag[0].value is True):
                    verdict = 'constrained'
                else:
                    verdict = f'UNCONSTRAINED: constrain_path={ast.unparse(flag[0])[:30]}'
                out.append((rel, f'line {node.lineno}: {ast.unparse(node)[:50]}', verdict))
    return out


def flag_stores(trees: dict[str, ast.Module]) -> list[tuple[str, str, str]]:
    """Stores into an attribute called `constrain_path` anywhere in the package other than the one assignment in
    RawFileSystem.__init__ (the theorems take the flag of an object as fixed): `fs.constrain_path = False`, setattr, __dict__."""
    out = []
    for rel, tree in trees.items():
        init = None
        if rel == 'filesys.py':
            raw = next((n for n in tree.body if isinstance(n, ast.ClassDef) and n.name == 'RawFileSystem'), None)
            init = next((f for f in (raw.body if raw else []) if isinstance(f, ast.FunctionDef) and f.name == '__init__'), None)
        inside_init = {id(x) for x in ast.walk(init)} if init is not None else set()
        for node in _walk(tree):
            if isinstance(node, ast.Attribute) and node.attr == 'constrain_path' and isinstance(node.ctx, (ast.Store, ast.Del)) \
                    and id(node) not in inside_init:
                out.append((rel, 'constrain_path', f'line {node.lineno}: the flag of an object is assigned outside the constructor'))
            if isinstance(node, ast.Call) and (_dotted(node.func) or '').split('.')[-1] in ('setattr', '__setattr__', 'delattr') \
                    and any(isinstance(a, ast.Constant) and a.value == 'constrain_path' for a in node.args):
                out.append((rel, 'constrain_path', f'line {node.lineno}: the flag is set by name: {ast.unparse(node)[:50]}'))
            if isinstance(node, ast.Subscript) and isinstance(node.ctx, (ast.Store, ast.Del)) \
                    and isinstance(node.slice, ast.Constant) and node.slice.value == 'constrain_path':
                out.append((rel, 'constrain_path', f'line {node.lineno}: the flag is written through a dictionary'))
    return out


def unexpected_bases(tree: ast.Module) -> list[tuple[str, str, str]]:
    """Base classes / metaclasses of the four classes other than Generic[...], FileSystem[...], ValueError-free: a mixin or
    metaclass (from any module) can add attribute hooks, caches and class-level state the censuses of the class bodies do
    not see."""
    out = []
    for cls in (n for n in tree.body if isinstance(n, ast.ClassDef) and n.name in FS_CLASSES):
        for b in cls.bases:
            d = _dotted(b.value if isinstance(b, ast.Subscript) else b)
            if d not in ('Generic', 'typing.Generic', 'FileSystem', 'object'):
                out.append((cls.name, d or ast.unparse(b)[:30], 'base class other than Generic[...] / FileSystem[...]'))
        for k in cls.keywords:
            out.append((cls.name, k.arg or '**', f'class keyword: {ast.unparse(k.value)[:40]}'))
        for dec in cls.decorator_list:
            out.append((cls.name, ast.unparse(dec)[:40], 'class decorator'))
    return out


def _triples(name: str, rows, comment: str) -> list[str]:
    return [f'(* {comment} *)', f'Definition {name} : list (string * string * string) := [',
            ';\n'.join(f'  ("{_coq_ident(a)}", "{_coq_ident(b)}", "{_coq_ident(c)}")' for a, b, c in rows), '].']


def translate() -> tuple[str, dict]:
    import re
    _ALIASES.clear()
    _NODES.clear()
    trees: dict[str, ast.Module] = {}
    skipped = 0
    # a file can only matter if it names the module / the classes, or stores into an attribute of the path library
    # (cheap test on the text that only decides which files are parsed; everything reported comes from the syntax trees)
    relevant = re.compile(r'filesys|FileSystem|RootEscapeError|constrain_path|setattr|delattr|__dict__|\bpatch\b|'
                          r'\b(?:os|posixpath|builtins|io|genericpath)\s*(?:\.\s*\w+)+\s*(?:[-+*/|&^%@]|//|<<|>>)?=(?!=)|'
                          r'\bdel\s+(?:os|posixpath|builtins|io)\b')
    always = {'filesys.py'}
    try:       # the modules filesys.py itself imports from are always read (calls from the classes are followed into them)
        for n in ast.parse((SRC / 'filesys.py').read_text(encoding='utf8')).body:
            if isinstance(n, ast.ImportFrom) and n.module and n.module.split('.')[0] == 'srctools' and not n.level:
                rel = n.module.replace('.', '/')[len('srctools/'):] if '.' in n.module else '__init__'
                always |= {rel + '.py', rel + '/__init__.py'}
    except (OSError, SyntaxError) as e:
        raise TranslateError(f'filesys.py: cannot be parsed: {e}')
    for p in package_files():
        try:
            text = p.read_text(encoding='utf8')
            if _rel(p) not in always and not relevant.search(text):
                skipped += 1
                continue
            trees[_rel(p)] = ast.parse(text)
        except (SyntaxError, UnicodeDecodeError) as e:
            raise TranslateError(f'{_rel(p)}: cannot be parsed for the package-wide census: {e}')
    if 'filesys.py' not in trees:
        raise TranslateError('filesys.py not found')
    fs = trees['filesys.py']
    for need in FS_CLASSES:
        if not any(isinstance(n, ast.ClassDef) and n.name == need for n in fs.body):
            raise TranslateError(f'filesys.py: class {need} not found')
    patches = foreign_patches(trees)
    subs = foreign_subclasses(trees)
    decs = decorator_origins(fs)
    reach, followed = reachable_foreign(trees)
    state, sig_ok, attrs = per_object_state(fs)
    entries, unread = entry_points(fs)
    mentioning = []
    for rel, tree in trees.items():
        if rel == 'filesys.py' or rel.startswith(('scripts/', '_pyinstaller/')) or rel.endswith('__main__.py'):
            continue
        names, mods = _fs_aliases(tree, False)
        if names or mods:
            mentioning.append(rel)
    constructions = raw_constructions(trees)
    patches = patches + flag_stores(trees)
    bases = unexpected_bases(fs)
    lines = ['(* GENERATED by translate/c18_census.py from every *.py below /repo/src/srctools. Do not edit. *)',
             'From Coq Require Import NArith List String.', 'From SV Require Import SM.PathNorm SM.PathOps.',
             'Import ListNotations.', 'Open Scope string_scope.']
    lines += _triples('foreign_patches', patches, 'monkey-patch style statements on the file-system classes / the library functions under the guard, anywhere in the package')
    lines += _triples('foreign_subclasses', subs, 'subclasses of RawFileSystem (any module) redefining one of its methods or attributes')
    lines += _triples('unexpected_bases', bases, 'base classes, metaclasses and class decorators of the four classes')
    lines += _triples('decorator_origins', decs, 'decorators taken as neutral whose binding in filesys.py is not the library one')
    lines += _triples('reachable_foreign_caches', reach, 'cached functions of other modules reached from the methods of the four classes')
    lines += _triples('per_object_state', state, 'containers / outside state kept on File, FileSystem, RawFileSystem objects')
    lines += _triples('entry_unread', unread, 'methods of File / FileSystem the entry-point reader could not read')
    lines += _triples('unconstrained_constructions', [c for c in constructions if c[2].startswith('UNCONSTRAINED')],
                      'RawFileSystem(...) calls in the package that switch the constraint off (or pass something other than a literal True)')
    lines += [f'Definition constructor_signature_ok : bool := {"true" if sig_ok else "false"}.',
              '(* the entry points RawFileSystem inherits from FileSystem and the methods of File: (entry, method called, argument) *)',
              'Definition entry_points : list ccall := [',
              ';\n'.join(f'  {{| cc_method := "{m if c == 'FileSystem' else c + '.' + m}"; cc_member := "{mm}"; cc_arg := {p} |}}' for c, m, mm, p in entries), '].', '']
    side = {'files_read': len(trees), 'files_without_any_mention': skipped, 'foreign_patches': [list(x) for x in patches], 'foreign_subclasses': [list(x) for x in subs],
            'decorator_origins': [list(x) for x in decs], 'unexpected_bases': [list(x) for x in bases], 'reachable_foreign_caches': [list(x) for x in reach],
            'foreign_functions_followed': followed, 'per_object_state': [list(x) for x in state],
            'object_attributes': attrs, 'constructor_signature_ok': sig_ok,
            'entry_points': [list(x) for x in entries], 'entry_unread': [list(x) for x in unread],
            'modules_mentioning_the_classes': sorted(mentioning), 'raw_file_system_constructions': [list(c) for c in constructions]}
    return '\n'.join(lines), side


GEN = {'FsCensus_gen': translate}
