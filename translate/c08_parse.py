"""C08, round 4: read the ID-relevant steps of `VMF.parse` off its body, in source order (the *program* that the
event `TParse` of SM/IdNest.v interprets).

Steps (see SM/IdNest.v):
  GPPlaceholder         `M = VMF(...)`: the constructor makes the placeholder worldspawn;
  GPWorld               a call `Entity.parse(M, <block>, _worldspawn=True)`;
  GPDropPlaceholder     the moment the last reference the map holds on the placeholder goes: the latest, in source order,
                        of the re-binding `M.spawn = ...` and the removals of `M.spawn` from the lookup tables that precede
                        it; when a local name was bound to `M.spawn` before, the placeholder lives until `parse` returns
                        (the step moves to the end);
  GPEntities            the loop statement that contains the other `Entity.parse(M, ...)` calls;
  GPReleasePlaceholder  any release call (`discard` / `remove` / `clear`) on an ID manager inside `VMF.parse`.
Everything else in the function does not touch entity / brush / face IDs (visgroups and brush groups are kinds of their own,
cameras and cordons carry no managed ID).  Fail-closed: a body in which the constructor call, the world block or the entity
loop cannot be found, in which entity blocks are parsed by more than one statement, or which deletes a local alias of the
placeholder, raises TranslateError.  Names are irrelevant: the map is whatever local the `VMF(...)` call is bound to."""
from __future__ import annotations

import ast

from harness.common import TranslateError

MANAGERS = ('ent_id', 'solid_id', 'face_id', 'group_id', 'vis_id', 'node_id')


def _is_true(e: ast.AST | None) -> bool:
    return isinstance(e, ast.Constant) and e.value is True


def _calls(node: ast.AST):
    return [n for n in ast.walk(node) if isinstance(n, ast.Call)]


def _is_map_attr(e: ast.AST, mname: str, attr: str) -> bool:
    return isinstance(e, ast.Attribute) and e.attr == attr and isinstance(e.value, ast.Name) and e.value.id == mname


def _entity_parse(call: ast.Call, mname: str, param_index: dict[str, int]) -> str | None:
    """'world' / 'entity' when the call is Entity.parse(<map>, ...) (any receiver spelling `X.parse` whose first argument is
    the map and which is not VisGroup/Camera/Cordon/Solid/EntityGroup.parse)."""
    f = call.func
    if not (isinstance(f, ast.Attribute) and f.attr == 'parse' and isinstance(f.value, ast.Name) and f.value.id == 'Entity'):
        return None
    if not (call.args and isinstance(call.args[0], ast.Name) and call.args[0].id == mname):
        raise TranslateError(f'vmf.py:{call.lineno}: Entity.parse inside VMF.parse is not given the new map first')
    ws = next((k.value for k in call.keywords if k.arg == '_worldspawn'), None)
    i = param_index.get('_worldspawn')
    if ws is None and i is not None and len(call.args) > i:
        ws = call.args[i]
    if ws is None:
        return 'entity'
    if _is_true(ws):
        return 'world'
    if isinstance(ws, ast.Constant) and ws.value is False:
        return 'entity'
    raise TranslateError(f'vmf.py:{call.lineno}: the _worldspawn argument of Entity.parse is not a constant')


def parse_program(vmf_tree: ast.Module) -> tuple[list[str], dict]:
    vmf_cls = next((c for c in vmf_tree.body if isinstance(c, ast.ClassDef) and c.name == 'VMF'), None)
    ent_cls = next((c for c in vmf_tree.body if isinstance(c, ast.ClassDef) and c.name == 'Entity'), None)
    fn = next((f for f in (vmf_cls.body if vmf_cls else []) if isinstance(f, ast.FunctionDef) and f.name == 'parse'), None)
    eparse = next((f for f in (ent_cls.body if ent_cls else []) if isinstance(f, ast.FunctionDef) and f.name == 'parse'), None)
    if fn is None or eparse is None:
        raise TranslateError('VMF.parse / Entity.parse not found')
    params = [a.arg for a in eparse.args.posonlyargs + eparse.args.args]
    if params and params[0] in ('self', 'cls'):
        params = params[1:]
    pidx = {p: i for i, p in enumerate(params)}
    # the map: the local bound to the VMF(...) constructor call
    mname = None
    steps: list[tuple[tuple[int, int], str, str]] = []      # position, step, description
    for st in ast.walk(fn):
        if isinstance(st, (ast.Assign, ast.AnnAssign)) and isinstance(st.value, ast.Call) and isinstance(st.value.func, ast.Name) \
                and st.value.func.id in ('VMF', 'cls'):
            tgt = st.targets[0] if isinstance(st, ast.Assign) and len(st.targets) == 1 else getattr(st, 'target', None)
            if not isinstance(tgt, ast.Name) or mname is not None:
                raise TranslateError(f'vmf.py:{st.lineno}: VMF.parse builds its map in a way the reader does not know')
            mname = tgt.id
            steps.append(((st.lineno, st.col_offset), 'GPPlaceholder', f'{mname} = VMF(...)'))
    if mname is None:
        raise TranslateError('VMF.parse: no `<name> = VMF(...)` found')
    # statements of the body in source order, loops kept whole when they parse entity blocks
    ent_stmts: list[ast.stmt] = []
    world_calls: list[ast.Call] = []

    def visit(stmts: list[ast.stmt]) -> None:
        for st in stmts:
            kinds = {(_entity_parse(c, mname, pidx), c.lineno) for c in _calls(st)} if not isinstance(st, (ast.FunctionDef, ast.ClassDef)) else set()
            kinds = {k for k in kinds if k[0] is not None}
            if isinstance(st, (ast.For, ast.While)) and any(k == 'entity' for k, _ in kinds):
                if any(k == 'world' for k, _ in kinds):
                    raise TranslateError(f'vmf.py:{st.lineno}: the world block is parsed inside the entity loop')
                ent_stmts.append(st)
                continue
            if isinstance(st, (ast.If, ast.For, ast.While, ast.With, ast.Try)):
                for field in ('body', 'orelse', 'finalbody'):
                    visit(getattr(st, field, []) or [])
                for h in getattr(st, 'handlers', []) or []:
                    visit(h.body)
                continue
            for k, _ in kinds:
                if k == 'entity':
                    ent_stmts.append(st)
                else:
                    world_calls.extend(c for c in _calls(st) if _entity_parse(c, mname, pidx) == 'world')
    visit(fn.body)
    if len(world_calls) != 1:
        raise TranslateError(f'VMF.parse: {len(world_calls)} calls of Entity.parse(.., _worldspawn=True), expected one')
    if len(ent_stmts) != 1:
        raise TranslateError(f'VMF.parse: entity blocks are parsed by {len(ent_stmts)} statements, expected one loop')
    wc = world_calls[0]
    steps.append(((wc.lineno, wc.col_offset), 'GPWorld', 'Entity.parse(map, world block, _worldspawn=True)'))
    es = ent_stmts[0]
    steps.append(((es.lineno, es.col_offset), 'GPEntities', 'loop over the entity / hidden blocks'))
    # the placeholder's last reference
    rebinds = [st for st in ast.walk(fn) if isinstance(st, (ast.Assign, ast.AnnAssign, ast.Delete))
               and any(_is_map_attr(t, mname, 'spawn') for t in (st.targets if isinstance(st, (ast.Assign, ast.Delete)) else [st.target]))]
    if len(rebinds) != 1:
        raise TranslateError(f'VMF.parse: {len(rebinds)} stores to <map>.spawn, expected one')
    rb = rebinds[0]
    drop_at = (rb.lineno, rb.col_offset)
    removals = []
    aliases = []
    for n in ast.walk(fn):
        pos = (getattr(n, 'lineno', 0), getattr(n, 'col_offset', 0))
        if isinstance(n, ast.Call) and any(_is_map_attr(a, mname, 'spawn') for a in n.args) and pos < drop_at:
            removals.append(ast.unparse(n.func))        # taken out of a lookup table (or merely read) before the re-binding
        if isinstance(n, (ast.Assign, ast.AnnAssign)) and n.value is not None and _is_map_attr(n.value, mname, 'spawn') and pos < drop_at:
            tgt = n.targets[0] if isinstance(n, ast.Assign) else n.target
            if not isinstance(tgt, ast.Name):
                raise TranslateError(f'vmf.py:{n.lineno}: the placeholder worldspawn is stored somewhere before it is replaced')
            aliases.append(tgt.id)
    for n in ast.walk(fn):
        if isinstance(n, ast.Delete) and any(isinstance(t, ast.Name) and t.id in aliases for t in n.targets):
            raise TranslateError(f'vmf.py:{n.lineno}: a local alias of the placeholder worldspawn is deleted')
    if aliases:
        end = max((getattr(n, 'lineno', 0), getattr(n, 'col_offset', 0)) for n in ast.walk(fn))
        drop_at = (end[0] + 1, 0)
    steps.append((drop_at, 'GPDropPlaceholder',
                  '<map>.spawn re-bound' + (f' (kept alive until return by {aliases})' if aliases else '')))
    # explicit releases
    for n in ast.walk(fn):
        if isinstance(n, ast.Call) and isinstance(n.func, ast.Attribute) and n.func.attr in ('discard', 'remove', 'clear', 'pop') \
                and isinstance(n.func.value, ast.Attribute) and n.func.value.attr in MANAGERS:
            steps.append(((n.lineno, n.col_offset), 'GPReleasePlaceholder', ast.unparse(n)))
    steps.sort(key=lambda s: s[0])
    prog = [s for _, s, _ in steps]
    return prog, {'parse_program': [[s, d, pos[0]] for pos, s, d in steps], 'placeholder_aliases': aliases,
                  'placeholder_table_removals': removals}
