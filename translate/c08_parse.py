"""C08, round 4: read the ID-relevant steps of `VMF.parse` off its body, in source order (the *program* that the
event `TParse` of SM/IdNest.v interprets).

Steps (see SM/IdNest.v):
  GPPlaceholder         `M = VMF(...)`: the constructor makes the placeholder worldspawn;
  GPWorld               a call `Entity.parse(M, <block>, _worldspawn=True)`;
  GPDropPlaceholder     the moment the last reference on the placeholder goes: the re-binding `M.spawn = ...`, provided the
                        placeholder was taken out of both lookup tables (`M.by_class`, `M.by_target`) before -- otherwise it
                        never dies and there is no such step; when a local name was bound to `M.spawn` before, the
                        placeholder lives until `parse` returns (the step moves to the end);
  GPEntities            the loop statement that contains the other `Entity.parse(M, ...)` calls;
  GPReleasePlaceholder  any release call (`discard` / `remove` / `clear`) on an ID manager inside `VMF.parse`.
Everything else in the function does not touch entity / brush / face IDs (visgroups and brush groups are kinds of their own,
cameras and cordons carry no managed ID).  Fail-closed: a body in which the constructor call, the world block or the entity
loop cannot be found, in which entity blocks are parsed by more than one statement, or which deletes a local alias of the
placeholder, raises TranslateError.  Names are irrelevant: the map is whatever local the `VMF(...)` call is bound to."""
from __future__ import annotations

import ast

from harness.common import TranslateError

MANAGERS = ('ent_id', 'solid_id', 'face_id', 'group_id', 'vis_id', 'node_id')


def _is_true(e: ast.AST | None) -> bool:
    return isinstance(e, ast.Constant) and e.value is True


def _calls(node: ast.AST):
    return [n for n in ast.walk(node) if isinstance(n, ast.Call)]


def _is_map_attr(e: ast.AST, mname: str, attr: str) -> bool:
    return isinstance(e, ast.Attribute) and e.attr == attr and isinstance(e.value, ast.Name) and e.value.id == mname


def _entity_parse(call: ast.Call, mname: str, param_index: dict[str, int]) -> str | None:
    """'world' / 'entity' when the call is Entity.parse(<map>, ...) (any receiver spelling `X.parse` whose first argument is
    the map and which is not VisGroup/Camera/Cordon/Solid/EntityGroup.parse)."""
    f = call.func
    if not (isinstance(f, ast.Attribute) and f.attr == 'parse' and isinstance(f.value, ast.Name) and f.value.id == 'Entity'):
        return None
    if not (call.args and isinstance(call.args[0], ast.Name) and call.args[0].id == mname):
        raise TranslateError(f'vmf.py:{call.lineno}: Entity.parse inside VMF.parse is not given the new map first')
    ws = next((k.value for k in call.keywords if k.arg == '_worldspawn'), None)
    i = param_index.get('_worldspawn')
    if ws is None and i is not None and len(call.args) > i:
        ws = call.args[i]
    if ws is None:
        return 'entity'
    if _is_true(ws):
        return 'world'
    if isinstance(ws, ast.Constant) and ws.value is False:
        return 'entity'
    raise TranslateError(f'vmf.py:{call.lineno}: the _worldspawn argument of Entity.parse is not a constant')


def parse_program(vmf_tree: ast.Module) -> tuple[list[str], dict]:
    vmf_cls = next((c for c in vmf_tree.body if isinstance(c, ast.ClassDef) and c.name == 'VMF'), None)
    ent_cls = next((c for c in vmf_tree.body if isinstance(c, ast.ClassDef) and c.name == 'Entity'), None)
    fn = next((f for f in (vmf_cls.body if vmf_cls else []) if isinstance(f, ast.FunctionDef) and f.name == 'parse'), None)
    eparse = next((f for f in (ent_cls.body if ent_cls else []) if isinstance(f, ast.FunctionDef) and f.name == 'parse'), None)
    if fn is None or eparse is None:
        raise TranslateError('VMF.parse / Entity.parse not found')
    params = [a.arg for a in eparse.args.posonlyargs + eparse.args.args]
    if params and params[0] in ('self', 'cls'):
        params = params[1:]
    pidx = {p: i for i, p in enumerate(params)}
    # the map: the local bound to the VMF(...) constructor call
    mname = None
    steps: list[tuple[tuple[int, int], str, str]] = []      # position, step, description
    for st in ast.walk(fn):
        if isinstance(st, (ast.Assign, ast.AnnAssign)) and isinstance(st.value, ast.Call) and isinstance(st.value.func, ast.Name) \
                and st.value.func.id in ('VMF', 'cls'):
            tgt = st.targets[0] if isinstance(st, ast.Assign) and len(st.targets) == 1 else getattr(st, 'target', None)
            if not isinstance(tgt, ast.Name) or mname is not None:
                raise TranslateError(f'vmf.py:{st.lineno}: VMF.parse builds its map in a way the reader does not know')
            mname = tgt.id
            steps.append(((st.lineno, st.col_offset), 'GPPlaceholder', f'{mname} = VMF(...)'))
    if mname is None:
        raise TranslateError('VMF.parse: no `<name> = VMF(...)` found')
    # statements of the body in source order, loops kept whole when they parse entity blocks
    ent_stmts: list[ast.stmt] = []
    world_calls: list[ast.Call] = []

    def visit(stmts: list[ast.stmt]) -> None:
        for st in stmts:
            kinds = {(_entity_parse(c, mname, pidx), c.lineno) for c in _calls(st)} if not isinstance(st, (ast.FunctionDef, ast.ClassDef)) else set()
            kinds = {k for k in kinds if k[0] is not None}
            if isinstance(st, (ast.For, ast.While)) and any(k == 'entity' for k, _ in kinds):
                if any(k == 'world' for k, _ in kinds):
                    raise TranslateError(f'vmf.py:{st.lineno}: the world block is parsed inside the entity loop')
                ent_stmts.append(st)
                continue
            if isinstance(st, (ast.If, ast.For, ast.While, ast.With, ast.Try)):
                for field in ('body', 'orelse', 'finalbody'):
                    visit(getattr(st, field, []) or [])
                for h in getattr(st, 'handlers', []) or []:
                    visit(h.body)
                continue
            for k, _ in kinds:
                if k == 'entity':
                    ent_stmts.append(st)
                else:
                    world_calls.extend(c for c in _calls(st) if _entity_parse(c, mname, pidx) == 'world')
    visit(fn.body)
    if len(world_calls) != 1:
        raise TranslateError(f'VMF.parse: {len(world_calls)} calls of Entity.parse(.., _worldspawn=True), expected one')
    if len(ent_stmts) != 1:
        raise TranslateError(f'VMF.parse: entity blocks are parsed by {len(ent_stmts)} statements, expected one loop')
    wc = world_calls[0]
    steps.append(((wc.lineno, wc.col_offset), 'GPWorld', 'Entity.parse(map, world block, _worldspawn=True)'))
    es = ent_stmts[0]
    steps.append(((es.lineno, es.col_offset), 'GPEntities', 'loop over the entity / hidden blocks'))
    # the placeholder's last reference
    rebinds = [st for st in ast.walk(fn) if isinstance(st, (ast.Assign, ast.AnnAssign, ast.Delete))
               and any(_is_map_attr(t, mname, 'spawn') for t in (st.targets if isinstance(st, (ast.Assign, ast.Delete)) else [st.target]))]
    if len(rebinds) != 1:
        raise TranslateError(f'VMF.parse: {len(rebinds)} stores to <map>.spawn, expected one')
    rb = rebinds[0]
    drop_at = (rb.lineno, rb.col_offset)
    removals = []
    aliases = []
    for n in ast.walk(fn):
        pos = (getattr(n, 'lineno', 0), getattr(n, 'col_offset', 0))
        if isinstance(n, ast.Call) and any(_is_map_attr(a, mname, 'spawn') for a in n.args) and pos < drop_at:
            # taken out of a lookup table before the re-binding: _remove_copyset(<map>.by_class, key, <map>.spawn) or
            # <map>.by_class[key].remove/discard(<map>.spawn)
            removals += [t for t in ('by_class', 'by_target') if any(_is_map_attr(x, mname, t) for x in ast.walk(n))]
        if isinstance(n, (ast.Assign, ast.AnnAssign)) and n.value is not None and _is_map_attr(n.value, mname, 'spawn') and pos < drop_at:
            tgt = n.targets[0] if isinstance(n, ast.Assign) else n.target
            if not isinstance(tgt, ast.Name):
                raise TranslateError(f'vmf.py:{n.lineno}: the placeholder worldspawn is stored somewhere before it is replaced')
            aliases.append(tgt.id)
    for n in ast.walk(fn):
        if isinstance(n, ast.Delete) and any(isinstance(t, ast.Name) and t.id in aliases for t in n.targets):
            raise TranslateError(f'vmf.py:{n.lineno}: a local alias of the placeholder worldspawn is deleted')
    kept_by = [t for t in ('by_class', 'by_target') if t not in removals]
    if aliases:
        end = max((getattr(n, 'lineno', 0), getattr(n, 'col_offset', 0)) for n in ast.walk(fn))
        drop_at = (end[0] + 1, 0)
    if kept_by:
        # the constructor enters the placeholder into both lookup tables; while one of them still holds it, it never dies
        # (its ID stays taken: a leak, not a duplicate)
        side_note = f'the placeholder stays referenced by <map>.{kept_by[0]}: no destructor'
    else:
        side_note = ''
        steps.append((drop_at, 'GPDropPlaceholder',
                      '<map>.spawn re-bound' + (f' (kept alive until return by {aliases})' if aliases else '')))
    # explicit releases
    for n in ast.walk(fn):
        if isinstance(n, ast.Call) and isinstance(n.func, ast.Attribute) and n.func.attr in ('discard', 'remove', 'clear', 'pop') \
                and isinstance(n.func.value, ast.Attribute) and n.func.value.attr in MANAGERS:
            steps.append(((n.lineno, n.col_offset), 'GPReleasePlaceholder', ast.unparse(n)))
    steps.sort(key=lambda s: s[0])
    prog = [s for _, s, _ in steps]
    return prog, {'parse_program': [[s, d, pos[0]] for pos, s, d in steps], 'placeholder_aliases': aliases,
                  'placeholder_table_removals': removals, 'placeholder_note': side_note}


# ----------------------------------------------------------------------------------------------------------------------
# Round 4: constructor calls outside the copy() methods (make_prism-style helpers, parse classmethods, create_* methods,
# readers in other modules), and the choice of the manager class.
ID_CLASSES = ('Solid', 'Side', 'Entity', 'VisGroup', 'EntityGroup')


def ctor_census(trees: dict[str, ast.Module]) -> list[tuple[str, str, str, bool, int]]:
    """Every constructor call of an ID-bearing class outside the `copy` methods (those are in the copy census): the map it is
    given must be `self` (inside VMF), a parameter of the enclosing function or a local bound to `VMF(...)`, and all
    constructor calls of one function must be given the same map (a helper builds all parts of its result for ONE map).
    -> rows (where, class, map argument, ok, line)."""
    from translate.c08_sites import _enclosing
    from translate import c08_norm
    rows: list[tuple[str, str, str, bool, int]] = []
    per_fn: dict[tuple, list] = {}
    fns: dict[tuple, ast.FunctionDef] = {}
    for rel, tree in trees.items():
        for c in [n for n in ast.walk(tree) if isinstance(n, ast.ClassDef)] + [tree]:
            for f in c.body:
                if isinstance(f, ast.FunctionDef):
                    fns[(rel, c.name if isinstance(c, ast.ClassDef) else None, f.name)] = f
        for cls, fn, node in _enclosing(tree):
            if not (isinstance(node, ast.Call) and isinstance(node.func, ast.Name)):
                continue
            name = node.func.id
            if name == 'cls' and cls in ID_CLASSES:
                name = cls
            if name not in ID_CLASSES or fn == 'copy':
                continue
            arg = node.args[0] if node.args else next((k.value for k in node.keywords if k.arg in ('vmf_file', 'vmf', 'map')), None)
            per_fn.setdefault((rel, cls, fn), []).append((name, arg, node.lineno))
    for (rel, cls, fn), calls in sorted(per_fn.items(), key=str):
        f = fns.get((rel, cls, fn))
        params = {a.arg for a in (f.args.posonlyargs + f.args.args + f.args.kwonlyargs)} if f is not None else set()
        texts = {ast.unparse(a) if a is not None else '?' for _, a, _ in calls}
        for name, arg, line in calls:
            ok = False
            if isinstance(arg, ast.Name):
                if arg.id == 'self':
                    ok = cls == 'VMF'
                elif arg.id in params:
                    ok = True
                elif f is not None:
                    d = c08_norm.single_assignment(f, arg.id)
                    ok = isinstance(d, ast.Call) and isinstance(d.func, ast.Name) and d.func.id == 'VMF'
            ok = ok and len(texts) == 1
            rows.append((f'{rel}:{cls + "." if cls else ""}{fn}', name, ast.unparse(arg) if arg is not None else '?', ok, line))
    if not rows:
        raise TranslateError('no constructor call of an ID-bearing class found outside copy(): the census does not see the code')
    return rows


def manager_choice(vmf_tree: ast.Module) -> tuple[bool, dict]:
    """Which manager class do the six ID managers of a map get when `preserve_ids` is false?  True when all of them are `IDMan`
    (the class the allocator theorems are about) and `preserve_ids` defaults to False in VMF.__init__ and VMF.parse, and
    VMF.parse hands its own parameter on.  Maps opened with preserve_ids=True get NullIDMan and are exempt from C08."""
    from translate import c08_norm
    vmf_cls = next((c for c in vmf_tree.body if isinstance(c, ast.ClassDef) and c.name == 'VMF'), None)
    init = next((f for f in (vmf_cls.body if vmf_cls else []) if isinstance(f, ast.FunctionDef) and f.name == '__init__'), None)
    parse = next((f for f in (vmf_cls.body if vmf_cls else []) if isinstance(f, ast.FunctionDef) and f.name == 'parse'), None)
    if init is None or parse is None:
        raise TranslateError('VMF.__init__ / VMF.parse not found')

    def default_false(f: ast.FunctionDef) -> bool:
        args = f.args.posonlyargs + f.args.args
        defaults = [None] * (len(args) - len(f.args.defaults)) + list(f.args.defaults)
        for a, d in list(zip(args, defaults)) + list(zip(f.args.kwonlyargs, f.args.kw_defaults)):
            if a.arg == 'preserve_ids':
                return isinstance(d, ast.Constant) and d.value is False
        return False

    def chosen(e: ast.AST | None, depth: int = 0) -> str:
        """The class `e` evaluates to when preserve_ids is False."""
        if e is None or depth > 3:
            return '?'
        if isinstance(e, ast.Name):
            if e.id in ('IDMan', 'NullIDMan'):
                return e.id
            return chosen(c08_norm.single_assignment(init, e.id), depth + 1)
        if isinstance(e, ast.IfExp):
            t = e.test
            if isinstance(t, ast.Name) and t.id == 'preserve_ids':
                return chosen(e.orelse, depth + 1)
            if isinstance(t, ast.UnaryOp) and isinstance(t.op, ast.Not) and isinstance(t.operand, ast.Name) and t.operand.id == 'preserve_ids':
                return chosen(e.body, depth + 1)
        return '?'
    got: dict[str, str] = {}
    for st in ast.walk(init):
        if isinstance(st, ast.Assign) and len(st.targets) == 1 and isinstance(st.targets[0], ast.Attribute) \
                and st.targets[0].attr in MANAGERS and isinstance(st.targets[0].value, ast.Name) and st.targets[0].value.id == 'self':
            v = st.value
            got[st.targets[0].attr] = chosen(v.func) if isinstance(v, ast.Call) and not v.args and not v.keywords else '?'
    hands_on = False
    for c in _calls(parse):
        if isinstance(c.func, ast.Name) and c.func.id in ('VMF', 'cls'):
            kw = next((k.value for k in c.keywords if k.arg == 'preserve_ids'), c.args[1] if len(c.args) > 1 else None)
            hands_on = isinstance(kw, ast.Name) and kw.id == 'preserve_ids'
    ok = set(got) == set(MANAGERS) and all(v == 'IDMan' for v in got.values()) and default_false(init) and default_false(parse) and hands_on
    return ok, {'manager_classes': got, 'preserve_ids_default_false': [default_false(init), default_false(parse)], 'parse_hands_preserve_ids_on': hands_on}
