"""C15 translators (fail-closed Python-ast walkers).

PixelCodecs_gen  <- src/srctools/_py_vtf_readwrite.py (+ ImageFormats sizes from vtf.py)
    Every uncompressed load_F/save_F pair becomes a `codec` of Fmt/VtfPixelExpr.v: per pixel, the stored bytes
    as expressions over r,g,b,a and the four channels as expressions over the stored bytes.  Handles both styles
    of the source: per-pixel loops (`for offset in range(width * height)`, bit operations, helper calls to
    upsample/decomp565/compress565, which are inlined) and memoryview slice copies (`data[2::4] = view_pix[0::4]`,
    the `saveload_rgba(mode)` closure factory).  Anything outside that subset raises TranslateError.

VtfLayout_gen    <- src/srctools/vtf.py, _py_vtf_readwrite.py
    the mipmap loop of VTF.__init__ (break test, shifts, what mipmap_count is set to), the loop nests of
    VTF.save / VTF.read, the rejection test and offset formula of Frame.__getitem__/__setitem__, and the index
    arithmetic of scale_down.
"""
from __future__ import annotations

import ast

from harness.common import TranslateError, ast_digest, src_text
from translate import c15_norm

# Formats whose codecs exist in the source but are deliberately NOT modelled (the oracle search covers them).
NOT_MODELLED: set[str] = set()      # round 4: the two bluescreen formats are translated (if statements -> ETest chains)
# load-only (compressed) formats: not writable from Python, outside "all writable image formats".
LOAD_ONLY_OK = {'dxt1', 'dxt1_onebitalpha', 'dxt3', 'dxt5', 'ati2n'}


def _err(node, msg):
    raise TranslateError(f'line {getattr(node, "lineno", "?")}: {msg}')


# ------------------------------------------------------------------------------------------------ IR
def ir_to_coq(e) -> str:
    k = e[0]
    if k == 'var':
        return f'EVar {e[1]}'
    if k == 'const':
        return f'EConst {e[1]}'
    if k in ('and', 'or'):
        return f'E{k.capitalize()} ({ir_to_coq(e[1])}) ({ir_to_coq(e[2])})'
    if k in ('shl', 'shr'):
        return f'E{k.capitalize()} ({ir_to_coq(e[1])}) {e[2]}'
    if k == 'test':
        return f'ETest ({ir_to_coq(e[1])}) {e[2]} ({ir_to_coq(e[3])}) ({ir_to_coq(e[4])})'
    if k == 'avg3':
        return f'EAvg3 ({ir_to_coq(e[1])}) ({ir_to_coq(e[2])}) ({ir_to_coq(e[3])})'
    raise TranslateError(f'internal: bad IR {e!r}')


def ir_eval(e, env: list[int]) -> int:
    """Reference evaluation of the IR in Python (used by the check to cross-validate the translator)."""
    k = e[0]
    if k == 'var':
        return env[e[1]]
    if k == 'const':
        return e[1]
    if k == 'and':
        return ir_eval(e[1], env) & ir_eval(e[2], env)
    if k == 'or':
        return ir_eval(e[1], env) | ir_eval(e[2], env)
    if k == 'shl':
        return ir_eval(e[1], env) << e[2]
    if k == 'shr':
        return ir_eval(e[1], env) >> e[2]
    if k == 'test':
        return ir_eval(e[3], env) if (ir_eval(e[1], env) >> e[2]) & 1 else ir_eval(e[4], env)
    if k == 'avg3':
        return (ir_eval(e[1], env) + ir_eval(e[2], env) + ir_eval(e[3], env)) // 3
    raise TranslateError('bad IR')


def ir_to_py(e) -> str:
    """The IR as a Python expression over the list `v` (same semantics as ir_eval; compiled by the check for speed)."""
    k = e[0]
    if k == 'var':
        return f'v[{e[1]}]'
    if k == 'const':
        return str(e[1])
    if k in ('and', 'or'):
        return f'({ir_to_py(e[1])} {"&" if k == "and" else "|"} {ir_to_py(e[2])})'
    if k in ('shl', 'shr'):
        return f'({ir_to_py(e[1])} {"<<" if k == "shl" else ">>"} {e[2]})'
    if k == 'test':
        return f'({ir_to_py(e[3])} if ({ir_to_py(e[1])} >> {e[2]}) & 1 else {ir_to_py(e[4])})'
    if k == 'avg3':
        return f'(({ir_to_py(e[1])} + {ir_to_py(e[2])} + {ir_to_py(e[3])}) // 3)'
    raise TranslateError('bad IR')


def ir_compile(es):
    """tuple of IR expressions -> function(list of ints) -> tuple of ints."""
    return eval('lambda v: (' + ', '.join(ir_to_py(e) for e in es) + ',)', {'__builtins__': {}})


# ------------------------------------------------------------------------------------------------ codecs
class _Mod:
    def __init__(self, tree: ast.Module) -> None:
        self.funcs: dict[str, ast.FunctionDef] = {n.name: n for n in tree.body if isinstance(n, ast.FunctionDef)}
        self.helpers: dict[str, tuple[list[str], ast.expr]] = {}
        for name, fn in self.funcs.items():
            body = [s for s in fn.body if not (isinstance(s, ast.Expr) and isinstance(s.value, ast.Constant))]
            if len(body) == 1 and isinstance(body[0], ast.Return) and body[0].value is not None \
                    and not name.startswith(('load_', 'save_')):
                self.helpers[name] = ([a.arg for a in fn.args.args], body[0].value)


def _linear(node: ast.expr, var: str) -> tuple[int, int]:
    """index expression -> (coefficient of `var`, constant)."""
    if isinstance(node, ast.Name) and node.id == var:
        return 1, 0
    if isinstance(node, ast.Constant) and type(node.value) is int:
        return 0, node.value
    if isinstance(node, ast.BinOp) and isinstance(node.op, ast.Add):
        a, b = _linear(node.left, var), _linear(node.right, var)
        return a[0] + b[0], a[1] + b[1]
    if isinstance(node, ast.BinOp) and isinstance(node.op, ast.Mult):
        a, b = _linear(node.left, var), _linear(node.right, var)
        if a[0] == 0:
            return a[1] * b[0], a[1] * b[1]
        if b[0] == 0:
            return a[0] * b[1], a[1] * b[1]
    _err(node, f'index is not linear in {var}: {ast.unparse(node)}')


class _Codec:
    """Symbolic execution of one load_/save_ function body into per-pixel expressions."""

    def __init__(self, mod: _Mod, fn: ast.FunctionDef, direction: str, consts: dict[str, int]) -> None:
        self.mod, self.fn, self.dir, self.consts = mod, fn, direction, consts
        params = [a.arg for a in fn.args.args]
        if params != ['pixels', 'data', 'width', 'height']:
            _err(fn, f'{fn.name}: unexpected parameters {params}')
        self.views = {'pixels': 'pix', 'data': 'data'}      # name -> which buffer
        self.bpp: int | None = None
        self.out: dict[int, tuple] = {}
        self.env: dict[str, tuple] = {}
        self.style: set[str] = set()

    # -- buffers
    def in_buf(self) -> str:
        return 'data' if self.dir == 'load' else 'pix'

    def stride(self, buf: str, s: int | None = None, node=None) -> int:
        if buf == 'pix':
            if s is not None and s != 4:
                _err(node, f'{self.fn.name}: pixel stride {s} != 4')
            return 4
        if s is not None:
            if self.bpp is None:
                self.bpp = s
            elif self.bpp != s:
                _err(node, f'{self.fn.name}: inconsistent data stride {s} vs {self.bpp}')
        if self.bpp is None:
            _err(node, f'{self.fn.name}: data stride unknown')
        return self.bpp

    def buf_of(self, node: ast.expr) -> str | None:
        if isinstance(node, ast.Name) and node.id in self.views:
            return self.views[node.id]
        if isinstance(node, ast.Call) and isinstance(node.func, ast.Name) and node.func.id == 'memoryview' \
                and len(node.args) == 1 and not node.keywords:
            return self.buf_of(node.args[0])
        return None

    def const_int(self, node: ast.expr | None, default: int | None = None) -> int:
        if node is None:
            if default is None:
                _err(self.fn, 'missing slice bound')
            return default
        if isinstance(node, ast.Constant) and type(node.value) is int:
            return node.value
        if isinstance(node, ast.Name) and node.id in self.consts:
            return self.consts[node.id]
        _err(node, f'{self.fn.name}: not a constant: {ast.unparse(node)}')

    # -- expressions inside the per-pixel loop
    def expr(self, node: ast.expr, env: dict[str, tuple], loopvar: str | None) -> tuple:
        if isinstance(node, ast.Constant) and type(node.value) is int and node.value >= 0:
            return ('const', node.value)
        if isinstance(node, ast.Name):
            if node.id in env:
                return env[node.id]
            if node.id in self.consts:
                return ('const', self.consts[node.id])
            _err(node, f'{self.fn.name}: unknown name {node.id}')
        if isinstance(node, ast.Subscript):
            buf = self.buf_of(node.value)
            if buf is None or loopvar is None:
                _err(node, f'{self.fn.name}: unsupported subscript {ast.unparse(node)}')
            if buf != self.in_buf():
                _err(node, f'{self.fn.name}: reads its own output buffer: {ast.unparse(node)}')
            k, c = _linear(node.slice, loopvar)
            st = self.stride(buf, k, node)
            if not 0 <= c < st:
                _err(node, f'{self.fn.name}: offset {c} outside pixel of {st} bytes')
            return ('var', c)
        if isinstance(node, ast.BinOp):
            if isinstance(node.op, (ast.BitAnd, ast.BitOr)):
                return ('and' if isinstance(node.op, ast.BitAnd) else 'or',
                        self.expr(node.left, env, loopvar), self.expr(node.right, env, loopvar))
            if isinstance(node.op, (ast.LShift, ast.RShift)):
                amt = self.expr(node.right, env, loopvar)
                if amt[0] != 'const':
                    _err(node, f'{self.fn.name}: shift by a non-constant')
                return ('shl' if isinstance(node.op, ast.LShift) else 'shr', self.expr(node.left, env, loopvar), amt[1])
            if isinstance(node.op, ast.FloorDiv) and isinstance(node.right, ast.Constant) and node.right.value == 3:
                s = node.left
                if isinstance(s, ast.BinOp) and isinstance(s.op, ast.Add) and isinstance(s.left, ast.BinOp) \
                        and isinstance(s.left.op, ast.Add):
                    return ('avg3', self.expr(s.left.left, env, loopvar), self.expr(s.left.right, env, loopvar),
                            self.expr(s.right, env, loopvar))
            _err(node, f'{self.fn.name}: unsupported operator in {ast.unparse(node)}')
        if isinstance(node, ast.IfExp):
            t = node.test
            if isinstance(t, ast.BinOp) and isinstance(t.op, ast.BitAnd):
                m = self.expr(t.right, env, loopvar)
                if m[0] == 'const' and m[1] > 0 and m[1] & (m[1] - 1) == 0:
                    return ('test', self.expr(t.left, env, loopvar), m[1].bit_length() - 1,
                            self.expr(node.body, env, loopvar), self.expr(node.orelse, env, loopvar))
            _err(node, f'{self.fn.name}: unsupported condition {ast.unparse(t)}')
        if isinstance(node, ast.Call) and isinstance(node.func, ast.Name) and node.func.id in self.mod.helpers:
            r = self.call(node, env, loopvar)
            if isinstance(r, list):
                _err(node, 'tuple-valued helper used as a scalar')
            return r
        _err(node, f'{self.fn.name}: unsupported expression {ast.unparse(node)}')

    def call(self, node: ast.Call, env, loopvar):
        params, ret = self.mod.helpers[node.func.id]
        if node.keywords or len(node.args) != len(params):
            _err(node, 'helper call shape')
        inner = {p: self.expr(a, env, loopvar) for p, a in zip(params, node.args)}
        if isinstance(ret, ast.Tuple):
            return [self.expr(e, inner, None) for e in ret.elts]
        return self.expr(ret, inner, None)

    def values(self, node: ast.expr, n: int, env, loopvar) -> list[tuple]:
        """right-hand side giving n values."""
        if isinstance(node, ast.Call) and isinstance(node.func, ast.Name) and node.func.id in self.mod.helpers:
            r = self.call(node, env, loopvar)
            r = r if isinstance(r, list) else [r]
        elif isinstance(node, ast.Tuple):
            r = [self.expr(e, env, loopvar) for e in node.elts]
        else:
            r = [self.expr(node, env, loopvar)]
        if len(r) != n:
            _err(node, f'{self.fn.name}: {n} targets, {len(r)} values')
        return r

    def store(self, tgt: ast.expr, val: tuple, loopvar: str) -> None:
        if isinstance(tgt, ast.Name):
            self.env[tgt.id] = val
            return
        if isinstance(tgt, ast.Subscript):
            buf = self.buf_of(tgt.value)
            if buf is None or buf == self.in_buf():
                _err(tgt, f'{self.fn.name}: store into {ast.unparse(tgt)}')
            k, c = _linear(tgt.slice, loopvar)
            st = self.stride(buf, k, tgt)
            if not 0 <= c < st:
                _err(tgt, 'offset outside pixel')
            self.out[c] = val
            return
        _err(tgt, f'{self.fn.name}: unsupported target {ast.unparse(tgt)}')

    def loop(self, node: ast.For) -> None:
        it = node.iter
        ok = (isinstance(node.target, ast.Name) and isinstance(it, ast.Call) and isinstance(it.func, ast.Name)
              and it.func.id == 'range' and len(it.args) == 1 and ast.unparse(it.args[0]) in ('width * height', 'height * width')
              and not node.orelse)
        if not ok:
            _err(node, f'{self.fn.name}: loop is not `for offset in range(width * height)`')
        lv = node.target.id
        self.style.add('loop')
        for st in node.body:
            if isinstance(st, ast.If):
                self.branch(st, lv)
                continue
            self.assign(st, lv)

    def assign(self, st: ast.stmt, lv: str) -> None:
        if not isinstance(st, ast.Assign):
            _err(st, f'{self.fn.name}: unsupported statement in pixel loop: {ast.unparse(st)[:60]}')
        tgts = st.targets
        if len(tgts) == 1 and isinstance(tgts[0], (ast.Tuple, ast.List)):
            elts = tgts[0].elts
            vals = self.values(st.value, len(elts), self.env, lv)
            for t, v in zip(elts, vals):
                self.store(t, v, lv)
        else:
            v = self.expr(st.value, self.env, lv)
            for t in tgts:
                self.store(t, v, lv)

    # -- `if` statements in the pixel loop (the bluescreen codecs): both branches must assign the same outputs
    def condition(self, test: ast.expr, lv: str):
        """-> wrap(then_ir, else_ir): the choice as ETest chains, valid for byte-valued operands.
        `E < 128` is "bit 7 of E is clear"; `E == c` (c a byte literal) is "all eight bits of E are those of c", tested from
        bit 7 down (Fmt/VtfBluescreen.v eq_chain); a conjunction of equalities (`a == b == 0` means a == 0 and b == 0) nests
        them, ordered by the index of the tested byte (`and` is commutative: a reordered source gives the same chain)."""
        if isinstance(test, ast.Compare) and len(test.ops) == 1 and isinstance(test.ops[0], (ast.Lt, ast.GtE)) \
                and isinstance(test.comparators[0], ast.Constant) and test.comparators[0].value == 128:
            e = self.expr(test.left, self.env, lv)
            if isinstance(test.ops[0], ast.Lt):
                return lambda t, f: ('test', e, 7, f, t)
            return lambda t, f: ('test', e, 7, t, f)
        conj = test.values if isinstance(test, ast.BoolOp) and isinstance(test.op, ast.And) else [test]
        eqs: list[tuple[tuple, int]] = []
        for c in conj:
            if not (isinstance(c, ast.Compare) and all(isinstance(o, ast.Eq) for o in c.ops)):
                _err(c, f'{self.fn.name}: unsupported condition {ast.unparse(c)}')
            parts = [c.left, *c.comparators]
            consts = [x.value for x in parts if isinstance(x, ast.Constant) and type(x.value) is int]
            others = [x for x in parts if not (isinstance(x, ast.Constant) and type(x.value) is int)]
            if len(consts) != 1 or not others or not 0 <= consts[0] < 256:
                _err(c, f'{self.fn.name}: equality test without exactly one byte literal: {ast.unparse(c)}')
            for x in others:
                e = self.expr(x, self.env, lv)
                if e[0] != 'var':
                    _err(x, f'{self.fn.name}: equality test on something that is not one input byte: {ast.unparse(x)}')
                eqs.append((e, consts[0]))
        if len({e for e, _ in eqs}) != len(eqs):
            _err(test, f'{self.fn.name}: the same byte is tested twice')
        eqs.sort(key=lambda ec: ec[0][1])

        def eq_byte(x, c, yes, no):
            r = yes
            for k in range(8):          # bit 0 innermost ... bit 7 outermost
                r = ('test', x, k, r, no) if (c >> k) & 1 else ('test', x, k, no, r)
            return r

        def wrap(t, f):
            r = t
            for x, c in reversed(eqs):
                r = eq_byte(x, c, r, f)
            return r
        return wrap

    def branch(self, st: ast.If, lv: str) -> None:
        wrap = self.condition(st.test, lv)
        if not st.orelse:
            _err(st, f'{self.fn.name}: if without else in the pixel loop')
        saved_out, saved_env = self.out, self.env
        res = []
        for body in (st.body, st.orelse):
            self.out, self.env = {}, dict(saved_env)
            for b in body:
                if isinstance(b, ast.If):
                    _err(b, f'{self.fn.name}: nested if in the pixel loop')
                self.assign(b, lv)
            if any(k not in saved_env or self.env[k] != saved_env[k] for k in self.env):
                _err(st, f'{self.fn.name}: a branch binds a local')
            res.append(self.out)
        self.out, self.env = saved_out, saved_env
        if sorted(res[0]) != sorted(res[1]):
            _err(st, f'{self.fn.name}: the branches assign different outputs: {sorted(res[0])} / {sorted(res[1])}')
        for k in res[0]:
            self.out[k] = wrap(res[0][k], res[1][k])
        self.style.add('if')

    # -- slice copies
    def slice_of(self, node: ast.expr) -> tuple[str, int, int] | None:
        """buffer[start::step] or a bare buffer -> (buffer, start, step)."""
        b = self.buf_of(node)
        if b is not None:
            return b, 0, 1
        if isinstance(node, ast.Subscript) and isinstance(node.slice, ast.Slice):
            b = self.buf_of(node.value)
            if b is None:
                return None
            sl = node.slice
            if sl.upper is not None:
                _err(node, 'slice with an upper bound')
            return b, self.const_int(sl.lower, 0), self.const_int(sl.step, 1)
        return None

    def pattern(self, node: ast.expr) -> bytes | None:
        """b'..' * (width * height)  or  bytes(4 * width * height)."""
        if isinstance(node, ast.BinOp) and isinstance(node.op, ast.Mult) and isinstance(node.left, ast.Constant) \
                and isinstance(node.left.value, bytes) and ast.unparse(node.right) in ('width * height', 'height * width'):
            return node.left.value
        if isinstance(node, ast.Call) and isinstance(node.func, ast.Name) and node.func.id == 'bytes' and len(node.args) == 1 \
                and ast.unparse(node.args[0]) in ('4 * width * height',):
            return b'\0\0\0\0'
        return None

    def slice_assign(self, st: ast.Assign) -> None:
        self.style.add('slice')
        pat = self.pattern(st.value)
        src = None if pat is not None else self.slice_of(st.value)
        if pat is None and src is None:
            _err(st, f'{self.fn.name}: unsupported slice source {ast.unparse(st.value)}')
        if src is not None and src[0] != self.in_buf():
            _err(st, f'{self.fn.name}: slice source is the output buffer')
        for tgt in st.targets:
            t = self.slice_of(tgt)
            if t is None or isinstance(tgt, ast.Name):
                _err(tgt, f'{self.fn.name}: unsupported slice target {ast.unparse(tgt)}')
            tb, tstart, tstep = t
            if tb == self.in_buf():
                _err(tgt, f'{self.fn.name}: writes its input buffer')
            if src is not None:
                sb, sstart, sstep = src
                # strides: the step of a slice over a buffer is that buffer's bytes per pixel
                if tb == 'pix':
                    if tstep != 4:
                        _err(tgt, 'pixel slice step must be 4')
                    sst = self.stride('data', sstep, st)
                    tst = 4
                else:
                    tst = self.stride('data', tstep, st)
                    if sstep != 4:
                        _err(st, 'pixel slice step must be 4')
                    sst = 4
                if not (0 <= tstart < tst and 0 <= sstart < sst):
                    _err(st, 'slice start outside the pixel')
                self.out[tstart] = ('var', sstart)
            else:
                if tb == 'pix':
                    tst = 4
                else:
                    tst = self.stride('data', tstep if tstep != 1 else None, st)
                if tstep == 1:       # whole buffer: the pattern repeats once per pixel
                    if tstart != 0 or len(pat) != tst:
                        _err(st, f'{self.fn.name}: pattern of {len(pat)} bytes over a {tst}-byte pixel')
                    for c in range(tst):
                        self.out[c] = ('const', pat[c])
                else:
                    if tstep != tst or len(pat) != 1 or not 0 <= tstart < tst:
                        _err(st, f'{self.fn.name}: constant slice shape')
                    self.out[tstart] = ('const', pat[0])

    def run(self) -> None:
        for st in self.fn.body:
            if isinstance(st, ast.Expr) and isinstance(st.value, ast.Constant):
                continue       # docstring
            if isinstance(st, ast.For):
                self.loop(st)
            elif isinstance(st, ast.Assign):
                b = self.buf_of(st.value)
                if len(st.targets) == 1 and isinstance(st.targets[0], ast.Name) and b is not None:
                    self.views[st.targets[0].id] = b           # view_pix = memoryview(pixels)
                else:
                    self.slice_assign(st)
            else:
                _err(st, f'{self.fn.name}: unsupported statement {ast.unparse(st)[:60]}')


def _saveload_factory(mod: _Mod, fac: ast.FunctionDef, mode: str, node) -> tuple[ast.FunctionDef, ast.FunctionDef, dict[str, int]]:
    """Evaluate `saveload_rgba(mode)`: which inner functions it returns, with which closure constants."""
    if [a.arg for a in fac.args.args] != ['mode']:
        _err(fac, 'saveload factory parameters')
    consts: dict[str, int] = {}
    inner: dict[str, ast.FunctionDef] = {}

    def index_assign(st) -> bool:
        """X = mode.index('c'); returns False when it raises ValueError."""
        v = st.value
        ok = (isinstance(st, ast.Assign) and len(st.targets) == 1 and isinstance(st.targets[0], ast.Name)
              and isinstance(v, ast.Call) and isinstance(v.func, ast.Attribute) and v.func.attr == 'index'
              and isinstance(v.func.value, ast.Name) and v.func.value.id == 'mode' and len(v.args) == 1
              and isinstance(v.args[0], ast.Constant) and isinstance(v.args[0].value, str))
        if not ok:
            _err(st, f'factory statement not understood: {ast.unparse(st)[:60]}')
        pos = mode.find(v.args[0].value)
        if pos < 0:
            return False
        consts[st.targets[0].id] = pos
        return True

    def block(stmts) -> tuple[str, str] | None:
        for st in stmts:
            if isinstance(st, ast.Expr) and isinstance(st.value, ast.Constant):
                continue
            if isinstance(st, ast.FunctionDef):
                inner[st.name] = st
            elif isinstance(st, ast.Assign) and isinstance(st.targets[0], ast.Attribute) and st.targets[0].attr == '__name__':
                continue
            elif isinstance(st, ast.Return) and isinstance(st.value, ast.Tuple) and len(st.value.elts) == 2 \
                    and all(isinstance(e, ast.Name) for e in st.value.elts):
                return st.value.elts[0].id, st.value.elts[1].id
            elif isinstance(st, ast.Try):
                if len(st.handlers) != 1 or st.finalbody or ast.unparse(st.handlers[0].type) != 'ValueError':
                    _err(st, 'factory try shape')
                raised = False
                for s2 in st.body:
                    if not index_assign(s2):
                        raised = True
                        break
                r = block(st.handlers[0].body) if raised else block(st.orelse)
                if r is not None:
                    return r
            elif isinstance(st, ast.Assign):
                if not index_assign(st):
                    _err(node, f'mode {mode!r} lacks a required channel')
            else:
                _err(st, f'factory statement not understood: {ast.unparse(st)[:60]}')
        return None

    r = block(fac.body)
    if r is None or r[0] not in inner or r[1] not in inner:
        _err(fac, 'factory does not return (loader, saver)')
    return inner[r[0]], inner[r[1]], consts


def _format_sizes() -> dict[str, tuple[int, int]]:
    """ImageFormats member -> (bits per pixel, index), by evaluating the _mk_fmt(...) calls of vtf.py."""
    tree = ast.parse(src_text('vtf.py'))
    cls = next((n for n in tree.body if isinstance(n, ast.ClassDef) and n.name == 'ImageFormats'), None)
    mk = next((n for n in tree.body if isinstance(n, ast.FunctionDef) and n.name == '_mk_fmt'), None)
    if cls is None or mk is None:
        raise TranslateError('vtf.py: ImageFormats/_mk_fmt not found')
    params = [a.arg for a in mk.args.args] + [a.arg for a in mk.args.kwonlyargs]
    if params != ['r', 'g', 'b', 'a', 'grey', 'size']:
        raise TranslateError(f'vtf.py: _mk_fmt parameters changed: {params}')
    if 'size = grey + a' not in ast.unparse(mk) or 'size = r + g + b + a' not in ast.unparse(mk):
        raise TranslateError('vtf.py: _mk_fmt body changed')
    out: dict[str, tuple[int, int]] = {}
    ind = -1
    for st in cls.body:
        if isinstance(st, ast.Assign) and isinstance(st.value, ast.Call) and isinstance(st.value.func, ast.Name) \
                and st.value.func.id == '_mk_fmt':
            vals = dict(r=0, g=0, b=0, a=0, grey=0, size=0)
            for name, a in zip(['r', 'g', 'b', 'a'], st.value.args):
                vals[name] = ast.literal_eval(a)
            for kw in st.value.keywords:
                vals[kw.arg] = ast.literal_eval(kw.value)
            if vals['grey']:
                vals['r'] = vals['g'] = vals['b'] = vals['grey']
                vals['size'] = vals['grey'] + vals['a']
            if not vals['size']:
                vals['size'] = vals['r'] + vals['g'] + vals['b'] + vals['a']
            ind += 1
            out[st.targets[0].id] = (vals['size'], ind)
    return out


def codecs_ir() -> tuple[dict[str, dict], dict]:
    """name -> {'bpp', 'save': [ir], 'load': [ir], 'style'}; and side information."""
    tree = ast.parse(src_text('_py_vtf_readwrite.py'))
    mod = _Mod(tree)
    pairs: dict[str, dict[str, tuple[ast.FunctionDef, dict[str, int]]]] = {}
    for name, fn in mod.funcs.items():
        for d in ('load', 'save'):
            if name.startswith(d + '_') and not name.endswith('_impl'):
                pairs.setdefault(name[len(d) + 1:], {})[d] = (fn, {})
    for st in tree.body:
        if isinstance(st, ast.Assign) and isinstance(st.value, ast.Call) and isinstance(st.value.func, ast.Name) \
                and st.value.func.id in mod.funcs and len(st.targets) == 1 and isinstance(st.targets[0], ast.Tuple):
            names = [e.id for e in st.targets[0].elts if isinstance(e, ast.Name)]
            if len(names) != 2 or not names[0].startswith('load_') or not names[1].startswith('save_') \
                    or names[0][5:] != names[1][5:]:
                _err(st, f'factory assignment shape: {ast.unparse(st)}')
            args = st.value.args
            if len(args) != 1 or not isinstance(args[0], ast.Constant) or not isinstance(args[0].value, str):
                _err(st, 'factory argument')
            lf, sf, consts = _saveload_factory(mod, mod.funcs[st.value.func.id], args[0].value, st)
            pairs[names[0][5:]] = {'load': (lf, consts), 'save': (sf, consts)}
    sizes = _format_sizes()
    lower = {k.lower(): v for k, v in sizes.items()}
    out: dict[str, dict] = {}
    side: dict = {'not_modelled': [], 'load_only': [], 'digests': {}}
    for name in sorted(pairs):
        p = pairs[name]
        if name not in lower:
            raise TranslateError(f'codec {name} has no ImageFormats member')
        if 'save' not in p:
            if name not in LOAD_ONLY_OK:
                raise TranslateError(f'load_{name} has no save_{name}')
            side['load_only'].append(name)
            continue
        if 'load' not in p:
            raise TranslateError(f'save_{name} has no load_{name}')
        if name in NOT_MODELLED:
            side['not_modelled'].append(name)
            continue
        res = {}
        bpp = None
        style = set()
        for d in ('save', 'load'):
            fn, consts = p[d]
            c = _Codec(mod, fn, d, consts)
            c.bpp = bpp
            c.run()
            bpp = c.bpp
            n_out = 4 if d == 'load' else bpp
            if bpp is None or sorted(c.out) != list(range(n_out)):
                raise TranslateError(f'{d}_{name}: outputs assigned {sorted(c.out)}, expected 0..{(n_out or 0) - 1}')
            res[d] = [c.out[i] for i in range(n_out)]
            style |= c.style
            side['digests'][f'{d}_{name}'] = ast_digest(fn)
        if lower[name][0] != 8 * bpp:
            raise TranslateError(f'{name}: codec stride {bpp} bytes but ImageFormats size {lower[name][0]} bits')
        out[name] = {'bpp': bpp, 'save': res['save'], 'load': res['load'], 'style': sorted(style), 'index': lower[name][1]}
    side['formats'] = {k: {'bpp': v['bpp'], 'style': v['style']} for k, v in out.items()}
    side['writable_unmodelled'] = sorted(side['not_modelled'])
    return out, side


def translate_codecs() -> tuple[str, dict]:
    cod, side = codecs_ir()
    lines = ['(* GENERATED by translate/c15_pixel.py from src/srctools/_py_vtf_readwrite.py and vtf.py. Do not edit. *)',
             'From Coq Require Import NArith List String.', 'From SV Require Import Fmt.VtfPixelExpr.',
             'Import ListNotations.', 'Open Scope N_scope.', '']
    for name, c in cod.items():
        lines.append(f'Definition codec_{name} : codec := {{| bpp := {c["bpp"]};')
        lines.append('  save_e := [' + ';\n             '.join(ir_to_coq(e) for e in c['save']) + '];')
        lines.append('  load_e := [' + ';\n             '.join(ir_to_coq(e) for e in c['load']) + '] |}.')
    lines.append('Definition all_codecs : list (string * codec) := [')
    lines.append(';\n'.join(f'  ("{name}"%string, codec_{name})' for name in cod))
    lines.append('].')
    lines.append('')
    return '\n'.join(lines), side


# ------------------------------------------------------------------------------------------------ layout
CMP = {ast.Lt: 'CLt', ast.LtE: 'CLe', ast.Gt: 'CGt', ast.GtE: 'CGe', ast.Eq: 'CEq', ast.NotEq: 'CNe'}
NEG = {'CLt': 'CGe', 'CLe': 'CGt', 'CGt': 'CLe', 'CGe': 'CLt', 'CEq': 'CNe', 'CNe': 'CEq'}
FLIP = {'CLt': 'CGt', 'CLe': 'CGe', 'CGt': 'CLt', 'CGe': 'CLe', 'CEq': 'CEq', 'CNe': 'CNe'}


def _find_class(tree, name):
    for n in tree.body:
        if isinstance(n, ast.ClassDef) and n.name == name:
            return n
    raise TranslateError(f'class {name} not found')


def _find_method(cls, name):
    for n in cls.body:
        if isinstance(n, ast.FunctionDef) and n.name == name:
            return n
    raise TranslateError(f'{cls.name}.{name} not found')


def _mip_loop(init: ast.FunctionDef) -> dict:
    loop = None
    after = None
    for i, st in enumerate(init.body):
        if isinstance(st, ast.For) and ast.unparse(st.iter) == 'itertools.count()':
            loop, after = st, init.body[i + 1:]
    if loop is None or not isinstance(loop.target, ast.Name):
        _err(init, 'VTF.__init__: `for mip_count in itertools.count()` not found')
    var = loop.target.id
    body = loop.body
    if len(body) != 4:
        _err(loop, 'VTF.__init__: mip loop body shape changed')
    create, brk, sh1, sh2 = body
    # frame creation: nested for loops ending in self._frames[.., .., var] = Frame(width, height)
    inner = create
    while isinstance(inner, ast.For) and len(inner.body) == 1:
        inner = inner.body[0]
    ok = (isinstance(inner, ast.Assign) and isinstance(inner.targets[0], ast.Subscript)
          and ast.unparse(inner.targets[0].value) == 'self._frames'
          and isinstance(inner.targets[0].slice, ast.Tuple) and len(inner.targets[0].slice.elts) == 3
          and ast.unparse(inner.targets[0].slice.elts[2]) == var and ast.unparse(inner.value) == 'Frame(width, height)')
    if not ok:
        _err(create, 'VTF.__init__: frame creation not recognised')
    if not (isinstance(brk, ast.If) and len(brk.body) == 1 and isinstance(brk.body[0], ast.Break) and not brk.orelse
            and isinstance(brk.test, ast.BoolOp) and len(brk.test.values) == 2):
        _err(brk, 'VTF.__init__: break test not recognised')
    tests = {}
    for t in brk.test.values:
        if not (isinstance(t, ast.Compare) and len(t.ops) == 1 and isinstance(t.left, ast.Name) and t.left.id in ('width', 'height')
                and isinstance(t.comparators[0], ast.Constant) and type(t.comparators[0].value) is int and t.comparators[0].value >= 0):
            _err(t, 'VTF.__init__: break comparison not recognised')
        tests[t.left.id] = (CMP[type(t.ops[0])], t.comparators[0].value)
    if set(tests) != {'width', 'height'}:
        _err(brk, 'VTF.__init__: break test must mention width and height')
    shifts = {}
    for s in (sh1, sh2):
        if not (isinstance(s, ast.AugAssign) and isinstance(s.op, ast.RShift) and isinstance(s.target, ast.Name)
                and isinstance(s.value, ast.Constant) and type(s.value.value) is int):
            _err(s, 'VTF.__init__: shift not recognised')
        shifts[s.target.id] = s.value.value
    if set(shifts) != {'width', 'height'}:
        _err(loop, 'VTF.__init__: shifts must update width and height')
    delta = None
    for st in after:
        if isinstance(st, ast.Assign) and ast.unparse(st.targets[0]) == 'self.mipmap_count':
            v = st.value
            if isinstance(v, ast.Name) and v.id == var:
                delta = 0
            elif isinstance(v, ast.BinOp) and isinstance(v.op, ast.Add) and isinstance(v.right, ast.Constant) \
                    and type(v.right.value) is int and v.right.value >= 0 and isinstance(v.left, ast.Name) and v.left.id == var:
                delta = v.right.value
            elif isinstance(v, ast.BinOp) and isinstance(v.op, ast.Add) and isinstance(v.left, ast.Constant) \
                    and type(v.left.value) is int and v.left.value >= 0 and isinstance(v.right, ast.Name) and v.right.id == var:
                delta = v.left.value
            else:
                _err(st, f'VTF.__init__: mipmap_count expression not recognised: {ast.unparse(v)}')
    if delta is None:
        _err(init, 'VTF.__init__: store to self.mipmap_count not found after the loop')
    return {'brk_w': tests['width'], 'brk_h': tests['height'], 'or': isinstance(brk.test.op, ast.Or),
            'shr_w': shifts['width'], 'shr_h': shifts['height'], 'delta': delta, 'line': loop.lineno}


def _loop_nest(fn: ast.FunctionDef, count_name: str) -> dict:
    """The `for data_mipmap in reversed(range(<count>))` nest of save/read."""
    for st in ast.walk(fn):
        if isinstance(st, ast.For) and ast.unparse(st.iter) == f'reversed(range({count_name}))':
            order = ['mip_reversed']
            roles = {ast.unparse(st.target): 'mip_reversed'}     # loop variable -> what it counts (names do not matter)
            cur = st
            body = cur.body
            dims = {}
            while True:
                fors = [b for b in body if isinstance(b, ast.For)]
                for b in body:
                    if isinstance(b, ast.Assign) and isinstance(b.targets[0], ast.Name) and b.targets[0].id in ('mip_width', 'mip_height'):
                        dims[b.targets[0].id] = ast.unparse(b.value)
                if len(fors) != 1:
                    break
                cur = fors[0]
                it = ast.unparse(cur.iter)
                if it in ('range(frame_count)', 'range(self.frame_count)'):
                    order.append('frame')
                elif it == 'depth_seq':
                    order.append('depth_or_side')
                else:
                    _err(cur, f'{fn.name}: unknown loop {it}')
                roles[ast.unparse(cur.target)] = order[-1]
                body = cur.body
            key = None
            for b in ast.walk(cur):
                if isinstance(b, ast.Subscript) and ast.unparse(b.value) in ('self._frames', 'vtf._frames') and isinstance(b.slice, ast.Tuple):
                    key = [ast.unparse(e) for e in b.slice.elts]
            if key is None:
                _err(st, f'{fn.name}: frame table access not found')
            return {'order': order, 'key': key, 'key_roles': [roles.get(k, k) for k in key], 'var': st.target.id, 'dims': dims, 'line': st.lineno}
    _err(fn, f'{fn.name}: mipmap loop over reversed(range({count_name})) not found')


def _nnf_reject(test: ast.expr, neg: bool) -> list[tuple[str, str, str]]:
    """The rejection test as a pure disjunction of atoms (var, cmp, bound); fail closed otherwise."""
    if isinstance(test, ast.UnaryOp) and isinstance(test.op, ast.Not):
        return _nnf_reject(test.operand, not neg)
    if isinstance(test, ast.BoolOp):
        is_or = isinstance(test.op, ast.Or) != neg
        if not is_or:
            _err(test, 'bounds test is not a disjunction of comparisons')
        out = []
        for v in test.values:
            out += _nnf_reject(v, neg)
        return out
    if isinstance(test, ast.Compare):
        parts = [test.left, *test.comparators]
        if len(test.ops) > 1 and not neg:
            _err(test, 'chained comparison in a positive position is a conjunction')
        out = []
        for a, op, b in zip(parts, test.ops, parts[1:]):
            if type(op) not in CMP:
                _err(test, 'comparison operator')
            c = CMP[type(op)]
            if neg:
                c = NEG[c]
            ta, tb = _bterm(a), _bterm(b)
            if ta[0] == 'v' and tb[0] == 'b':
                out.append((ta[1], c, tb[1]))
            elif ta[0] == 'b' and tb[0] == 'v':
                out.append((tb[1], FLIP[c], ta[1]))
            else:
                _err(test, f'bounds comparison not understood: {ast.unparse(test)}')
        return out
    _err(test, f'bounds test not understood: {ast.unparse(test)}')


def _bterm(node: ast.expr) -> tuple[str, str]:
    s = ast.unparse(node)
    if s in ('x', 'y'):
        return 'v', 'BX' if s == 'x' else 'BY'
    if s == 'self.width':
        return 'b', 'BWidth'
    if s == 'self.height':
        return 'b', 'BHeight'
    if isinstance(node, ast.Constant) and type(node.value) is int:
        return 'b', 'BZero' if node.value == 0 else f'(BConst ({node.value}))'
    if isinstance(node, ast.UnaryOp) and isinstance(node.op, ast.USub) and isinstance(node.operand, ast.Constant):
        return 'b', f'(BConst (-{node.operand.value}))'
    _err(node, f'bounds term not understood: {s}')


def _zexpr(node: ast.expr, names: dict[str, str]) -> str:
    """Integer arithmetic (+, *, -) over known names -> Coq Z expression."""
    if isinstance(node, ast.Constant) and type(node.value) is int:
        return str(node.value) if node.value >= 0 else f'({node.value})'
    s = ast.unparse(node)
    if s in names:
        return names[s]
    if isinstance(node, ast.BinOp) and type(node.op) in (ast.Add, ast.Mult, ast.Sub):
        op = {ast.Add: '+', ast.Mult: '*', ast.Sub: '-'}[type(node.op)]
        return f'({_zexpr(node.left, names)} {op} {_zexpr(node.right, names)})'
    _err(node, f'arithmetic not understood: {s}')


def _split_const(node: ast.expr) -> tuple[ast.expr, int]:
    """E + k  ->  (E, k);  E -> (E, 0)"""
    if isinstance(node, ast.BinOp) and isinstance(node.op, ast.Add) and isinstance(node.right, ast.Constant) and type(node.right.value) is int:
        return node.left, node.right.value
    return node, 0


def _pixel_access(cls: ast.ClassDef, fn: ast.FunctionDef, tree: ast.Module | None = None) -> dict:
    # helper methods of the same class (e.g. a shared bounds check + offset computation) are inlined first; locals that
    # merely name an expression (`off = (y * self.width + x) * 4`) are replaced by the expression (c15_norm)
    fn = c15_norm.inline_self_calls(cls, fn, tree=tree)
    unpack = [st for st in fn.body if isinstance(st, ast.Assign) and ast.unparse(st.targets[0]) in ('(x, y)', 'x, y')]
    if len(unpack) != 1 or ast.unparse(unpack[0].value) != 'item':
        _err(fn, f'{fn.name}: `x, y = item` not found')
    checks = [st for st in fn.body if isinstance(st, ast.If) and len(st.body) == 1 and isinstance(st.body[0], ast.Raise)]
    atoms: list[tuple[str, str, str]] = []
    for c in checks:
        exc = c.body[0].exc
        if exc is None or 'IndexError' not in ast.unparse(exc) or c.orelse:
            _err(c, f'{fn.name}: raise in bounds test is not IndexError')
        atoms += _nnf_reject(c.test, False)
    names = {'x': 'x', 'y': 'y', 'self.width': 'w', 'self.height': 'h'}
    # every use of self._data must be E+0 .. E+3 for ONE offset expression E, after the test
    first_use = None
    span = 0
    bases: dict[str, ast.expr] = {}
    for st in fn.body:
        for n in ast.walk(st):
            if isinstance(n, ast.Subscript) and ast.unparse(n.value) == 'self._data':
                first_use = first_use if first_use is not None else c15_norm.seq(st)
                if isinstance(n.slice, ast.Slice):
                    if n.slice.lower is None or n.slice.upper is None or n.slice.step is not None:
                        _err(n, f'{fn.name}: data slice not E:E+k')
                    (lo, k0), (hi, k1) = _split_const(n.slice.lower), _split_const(n.slice.upper)
                    if ast.unparse(lo) != ast.unparse(hi) or k0 != 0 or k1 <= 0:
                        _err(n, f'{fn.name}: data slice not E:E+k')
                    bases[ast.unparse(lo)] = lo
                    span = max(span, k1)
                else:
                    e, k = _split_const(n.slice)
                    if k < 0:
                        _err(n, f'{fn.name}: data index not E+k: {ast.unparse(n.slice)}')
                    bases[ast.unparse(e)] = e
                    span = max(span, k + 1)
    if first_use is None:
        _err(fn, f'{fn.name}: no pixel data access found')
    if len(bases) != 1:
        _err(fn, f'{fn.name}: pixel data accessed at more than one offset expression: {sorted(bases)}')
    off = _zexpr(next(iter(bases.values())), names)
    if checks and max(c15_norm.seq(c) for c in checks) > first_use:
        _err(fn, f'{fn.name}: bounds test after the data access')
    return {'atoms': atoms, 'off': off, 'span': span, 'line': fn.lineno}


def _scale_down(fn: ast.FunctionDef) -> dict:
    params = [a.arg for a in fn.args.args]
    if params != ['filt', 'src_width', 'src_height', 'width', 'height', 'src', 'dest']:
        _err(fn, f'scale_down parameters changed: {params}')
    names = {'src_width': 'sw', 'src_height': 'sh', 'width': 'w', 'height': 'h'}
    defs: list[tuple[str, str]] = []
    body = [s for s in fn.body if not (isinstance(s, ast.Expr) and isinstance(s.value, ast.Constant))]
    i = 0
    while i < len(body) and isinstance(body[i], ast.If) and isinstance(body[i].test, ast.Compare) \
            and 'filt' not in ast.unparse(body[i].test):
        st = body[i]
        t = st.test
        if len(t.ops) != 1 or type(t.ops[0]) not in (ast.NotEq, ast.Eq):
            _err(st, 'scale_down: size test not ==/!=')
        cond = f'(Z.eqb {_zexpr(t.left, names)} {_zexpr(t.comparators[0], names)})'
        if isinstance(t.ops[0], ast.NotEq):
            cond = f'(negb {cond})'
        def tup(block):
            if len(block) != 1 or not isinstance(block[0], ast.Assign) or not isinstance(block[0].targets[0], ast.Tuple) \
                    or not isinstance(block[0].value, ast.Tuple):
                _err(st, 'scale_down: branch is not a tuple assignment')
            return [e.id for e in block[0].targets[0].elts], block[0].value.elts
        n1, v1 = tup(st.body)
        n2, v2 = tup(st.orelse)
        if n1 != n2:
            _err(st, 'scale_down: branches assign different names')
        new = []
        for nm, a, b in zip(n1, v1, v2):
            new.append((nm, f'if {cond} then {_zexpr(a, names)} else {_zexpr(b, names)}'))
        for nm, e in new:
            defs.append((nm, e))
        for nm, _ in new:
            names[nm] = nm
        i += 1
    got = [d[0] for d in defs]
    if sorted(got) != ['horiz_off', 'per_column', 'per_row', 'vert_off']:
        _err(fn, f'scale_down: offsets computed: {got}')
    # filter branches: both are evaluated SYMBOLICALLY (locals are names for polynomials / sums of texels, loops over a
    # literal range of channels are unrolled), so renamed locals, extra locals and reordered addends do not matter
    if i >= len(body) or not isinstance(body[i], ast.If):
        _err(fn, 'scale_down: filter dispatch not found')
    disp = body[i]
    near, bil = disp, (disp.orelse[0] if disp.orelse and isinstance(disp.orelse[0], ast.If) else None)
    if bil is None or ast.unparse(bil.test) != 'filt.value == 4':
        _err(disp, 'scale_down: bilinear branch not found')
    syms = {'width', 'height', 'src_width', 'src_height', 'horiz_off', 'vert_off', 'per_row', 'per_column'}
    brec = _sym_run(bil.body, syms)
    px = [r for r in brec if r[0] == 'px']
    if len(px) != len(brec) or not px:
        _err(bil, 'scale_down: bilinear body not recognised')
    dst = off2 = div = None
    terms: list[tuple[bool, bool]] | None = None
    H, V = _p_var('horiz_off'), _p_var('vert_off')
    allowed = {_p_key({}): (False, False), _p_key(H): (True, False), _p_key(V): (False, True), _p_key(_p_add(H, V)): (True, True)}
    chans = set()
    for _, idx, val in px:
        if val[0] != 'div':
            _err(bil, 'scale_down: bilinear value is not a floor division of a sum of texels')
        # the channel is the constant part of the destination index
        c = idx.get((), 0)
        chans.add(c)
        d = _p_add(idx, _p_const(c), -1)
        srcs = [_p_add(q, _p_const(c), -1) for q in val[1]]
        base = [q for q in srcs if not any(('horiz_off' in m or 'vert_off' in m) for m in q)]
        if len(base) != 1:
            _err(bil, 'scale_down: bilinear addends have no common upper-left texel')
        tt = []
        for q in srcs:
            k = _p_key(_p_add(q, base[0], -1))
            if k not in allowed:
                _err(bil, 'scale_down: bilinear addend is not the block corner + {0, horiz_off, vert_off, both}')
            tt.append(allowed[k])
        if dst is None:
            dst, off2, div, terms = d, base[0], val[2], tt
        elif _p_key(d) != _p_key(dst) or _p_key(base[0]) != _p_key(off2) or val[2] != div or tt != terms:
            _err(bil, 'scale_down: the channels are not computed alike')
    if chans != {0, 1, 2, 3}:
        _err(bil, f'scale_down: bilinear channels written: {sorted(chans)}')
    if not (_p_vars(dst) <= {'width', 'x', 'y'} and _p_vars(off2) <= {'per_row', 'per_column', 'x', 'y'}):
        _err(bil, 'scale_down: bilinear offsets use unexpected names')
    # nearest: dest[E:E+4] = src[E2 + T[filt.value] : E2 + T[filt.value] + 4]
    nrec = _sym_run(near.body, syms)
    if len(nrec) != 1 or nrec[0][0] != 'slice':
        _err(near, 'scale_down: nearest-neighbour copy not recognised')
    _, lo, hi, lo2, hi2 = nrec[0]
    if lo2[0] != 'tab' or hi2[0] != 'tab' or len(lo2[1]) != len(hi2[1]) or lo[0] != 'p' or hi[0] != 'p':
        _err(near, 'scale_down: nearest-neighbour offset table not found')
    near_terms = []
    same = _p_key(lo[1]) == _p_key(dst) and _p_key(_p_add(hi[1], lo[1], -1)) == _p_key(_p_const(4))
    for a, bq in zip(lo2[1], hi2[1]):
        k = _p_key(_p_add(a, off2, -1))
        if k not in allowed:
            _err(near, 'scale_down: nearest offset is not the block corner + {0, horiz_off, vert_off, both}')
        near_terms.append(allowed[k])
        same = same and _p_key(_p_add(bq, a, -1)) == _p_key(_p_const(4))
    ren = {'width': 'w', 'x': 'x', 'y': 'y', 'per_row': 'per_row', 'per_column': 'per_column'}
    return {'defs': defs, 'off': _p_coq(dst, ren), 'off2': _p_coq(off2, ren), 'terms': terms, 'div': div, 'nearest': near_terms,
            'nearest_same_offsets': bool(same), 'line': fn.lineno}


# ---- polynomials over names (symbolic evaluation of index arithmetic) --------------------------------------------
def _p_const(c: int) -> dict:
    return {(): c} if c else {}


def _p_var(v: str) -> dict:
    return {(v,): 1}


def _p_add(a: dict, b: dict, sign: int = 1) -> dict:
    out = dict(a)
    for m, c in b.items():
        out[m] = out.get(m, 0) + sign * c
        if out[m] == 0:
            del out[m]
    return out


def _p_mul(a: dict, b: dict) -> dict:
    out: dict = {}
    for m1, c1 in a.items():
        for m2, c2 in b.items():
            m = tuple(sorted(m1 + m2))
            out[m] = out.get(m, 0) + c1 * c2
            if out[m] == 0:
                del out[m]
    return out


def _p_key(a: dict):
    return tuple(sorted(a.items()))


def _p_vars(a: dict) -> set[str]:
    return {v for m in a for v in m}


def _p_coq(a: dict, ren: dict[str, str]) -> str:
    if not a:
        return '0'
    parts = []
    for m, c in sorted(a.items()):
        f = [str(c) if c >= 0 else f'({c})'] + [ren[v] for v in m]
        parts.append('(' + ' * '.join(f) + ')')
    return '(' + ' + '.join(parts) + ')'


def _sym_run(stmts: list[ast.stmt], syms: set[str]) -> list[tuple]:
    """Symbolic run of straight-line index arithmetic inside `for <y> in range(height): for <x> in range(width):` loops.
    -> records ('px', index polynomial, ('div', [source index polynomials], n))  for  dest[i] = (src[a] + src[b] + ...) // n
               ('slice', lo, hi, lo2, hi2)                                       for  dest[lo:hi] = src[lo2:hi2]
    A local is whatever its defining expression evaluates to; `for c in range(4)` / `in (0, 1, 2, 3)` is unrolled."""
    out: list[tuple] = []

    def ev(node: ast.expr, env: dict):
        if isinstance(node, ast.Constant) and type(node.value) is int:
            return ('p', _p_const(node.value))
        if isinstance(node, ast.Name):
            if node.id in env:
                return env[node.id]
            if node.id in syms:
                return ('p', _p_var(node.id))
            _err(node, f'arithmetic not understood: {node.id}')
        if isinstance(node, ast.BinOp) and isinstance(node.op, (ast.Add, ast.Sub, ast.Mult)):
            a, b = ev(node.left, env), ev(node.right, env)
            if isinstance(node.op, ast.Mult):
                if a[0] == b[0] == 'p':
                    return ('p', _p_mul(a[1], b[1]))
            elif a[0] == b[0] == 'p':
                return ('p', _p_add(a[1], b[1], 1 if isinstance(node.op, ast.Add) else -1))
            elif isinstance(node.op, ast.Add) and a[0] == b[0] == 'src':
                return ('src', a[1] + b[1])
            elif isinstance(node.op, ast.Add) and {a[0], b[0]} == {'p', 'tab'}:
                pp, tt = (a, b) if a[0] == 'p' else (b, a)
                return ('tab', [_p_add(t, pp[1]) for t in tt[1]])
            _err(node, f'arithmetic not understood: {ast.unparse(node)}')
        if isinstance(node, ast.BinOp) and isinstance(node.op, ast.FloorDiv):
            a = ev(node.left, env)
            if a[0] == 'src' and isinstance(node.right, ast.Constant) and type(node.right.value) is int:
                return ('div', a[1], node.right.value)
            _err(node, f'division not understood: {ast.unparse(node)}')
        if isinstance(node, ast.Subscript) and isinstance(node.value, ast.Name) and node.value.id == 'src' and node.value.id not in env:
            if isinstance(node.slice, ast.Slice):
                if node.slice.lower is None or node.slice.upper is None or node.slice.step is not None:
                    _err(node, 'source slice without bounds')
                return ('srcslice', ev(node.slice.lower, env), ev(node.slice.upper, env))
            i_ = ev(node.slice, env)
            if i_[0] != 'p':
                _err(node, 'source index is not arithmetic')
            return ('src', [i_[1]])
        if isinstance(node, ast.Subscript) and isinstance(node.value, (ast.List, ast.Tuple)) and ast.unparse(node.slice) == 'filt.value':
            es = [ev(e, env) for e in node.value.elts]
            if any(e[0] != 'p' for e in es):
                _err(node, 'offset table entries are not arithmetic')
            return ('tab', [e[1] for e in es])
        _err(node, f'arithmetic not understood: {ast.unparse(node)}')

    def run(body: list[ast.stmt], env: dict) -> None:
        for st in body:
            if isinstance(st, ast.Expr) and isinstance(st.value, ast.Constant):
                continue
            if isinstance(st, (ast.Assign, ast.AnnAssign)) and (st.value is not None):
                tgts = st.targets if isinstance(st, ast.Assign) else [st.target]
                if len(tgts) != 1:
                    _err(st, 'scale_down: chained assignment')
                t = tgts[0]
                if isinstance(t, ast.Name):
                    if t.id in syms or t.id in ('src', 'dest'):
                        _err(st, f'scale_down: {t.id} is rebound inside a filter branch')
                    env[t.id] = ev(st.value, env)
                    continue
                if isinstance(t, ast.Subscript) and isinstance(t.value, ast.Name) and t.value.id == 'dest' and 'dest' not in env:
                    v = ev(st.value, env)
                    if isinstance(t.slice, ast.Slice):
                        if t.slice.lower is None or t.slice.upper is None or t.slice.step is not None or v[0] != 'srcslice':
                            _err(st, 'scale_down: slice copy not understood')
                        out.append(('slice', ev(t.slice.lower, env), ev(t.slice.upper, env), v[1], v[2]))
                    else:
                        i_ = ev(t.slice, env)
                        if i_[0] != 'p':
                            _err(st, 'scale_down: destination index is not arithmetic')
                        out.append(('px', i_[1], v))
                    continue
                _err(st, f'scale_down: assignment not understood: {ast.unparse(st)[:60]}')
            if isinstance(st, ast.For) and isinstance(st.target, ast.Name) and not st.orelse:
                it = st.iter
                its = ast.unparse(it)
                if its in ('range(height)', 'range(width)'):
                    role = 'y' if its == 'range(height)' else 'x'
                    if any(role in _p_vars(v[1]) for v in env.values() if v[0] == 'p'):
                        _err(st, f'scale_down: two loops over {its}')
                    run(st.body, dict(env, **{st.target.id: ('p', _p_var(role))}))
                    continue
                vals = None
                if isinstance(it, ast.Call) and isinstance(it.func, ast.Name) and it.func.id == 'range' and len(it.args) == 1 \
                        and isinstance(it.args[0], ast.Constant) and type(it.args[0].value) is int and 0 < it.args[0].value <= 8:
                    vals = list(range(it.args[0].value))
                elif isinstance(it, (ast.Tuple, ast.List)) and it.elts and all(isinstance(e, ast.Constant) and type(e.value) is int for e in it.elts):
                    vals = [e.value for e in it.elts]
                if vals is None:
                    _err(st, f'scale_down: loop not understood: {its}')
                for c in vals:
                    run(st.body, dict(env, **{st.target.id: ('p', _p_const(c))}))
                continue
            _err(st, f'scale_down: statement not understood: {ast.unparse(st)[:60]}')
    run(stmts, {})
    return out


# ---- side lists (cubemaps with / without sphere map) -------------------------------------------------------------
def _if_else(stmts: list[ast.stmt]) -> list[ast.stmt]:
    """`if c: return A` followed by the rest of the block  ==  `if c: return A  else: <rest>`"""
    stmts = [s for s in stmts if not (isinstance(s, ast.Expr) and isinstance(s.value, ast.Constant))]
    for i, st in enumerate(stmts):
        if isinstance(st, ast.If) and not st.orelse and st.body and isinstance(st.body[-1], ast.Return) and stmts[i + 1:]:
            new = ast.If(test=st.test, body=st.body, orelse=_if_else(stmts[i + 1:]))
            return stmts[:i] + [_positive(ast.copy_location(new, st))]
    return [_positive(s) if isinstance(s, ast.If) else s for s in stmts]


def _positive(st: ast.If) -> ast.If:
    """`if A not in B: X else: Y`  ==  `if A in B: Y else: X`  (likewise `is not`, `!=`, `not c`) when both branches exist"""
    t = st.test
    neg = (isinstance(t, ast.UnaryOp) and isinstance(t.op, ast.Not)) or \
          (isinstance(t, ast.Compare) and len(t.ops) == 1 and isinstance(t.ops[0], (ast.NotIn, ast.IsNot, ast.NotEq)))
    if neg and st.orelse:
        return ast.copy_location(ast.If(test=c15_norm.negate(t), body=st.orelse, orelse=st.body), st)
    return st


def _side_list(tree: ast.Module, node: ast.expr, depth: int = 0) -> list[int]:
    """value of a module-level expression denoting a list of CubeSide members, as indexes into the enum"""
    if depth > 6:
        _err(node, 'side list definition too deep')
    cube = _find_class(tree, 'CubeSide')
    members = [st.targets[0].id for st in cube.body if isinstance(st, ast.Assign) and isinstance(st.targets[0], ast.Name)
               and isinstance(st.value, ast.Constant) and type(st.value.value) is int]
    values = [st.value.value for st in cube.body if isinstance(st, ast.Assign) and isinstance(st.targets[0], ast.Name)
              and isinstance(st.value, ast.Constant) and type(st.value.value) is int]
    if len(set(values)) != len(values) or not members:
        _err(cube, 'CubeSide has aliases or no members')
    s = ast.unparse(node)
    if s in ('list(CubeSide)', 'tuple(CubeSide)'):
        return list(range(len(members)))
    if isinstance(node, (ast.List, ast.Tuple)):
        out = []
        for e in node.elts:
            if isinstance(e, ast.Attribute) and ast.unparse(e.value) == 'CubeSide' and e.attr in members:
                out.append(members.index(e.attr))
            else:
                _err(e, f'side list element not understood: {ast.unparse(e)}')
        return out
    if isinstance(node, ast.Call) and ast.unparse(node.func) in ('list', 'tuple') and len(node.args) == 1:
        return _side_list(tree, node.args[0], depth + 1)
    if isinstance(node, ast.Subscript) and isinstance(node.slice, ast.Slice) and node.slice.step is None:
        base = _side_list(tree, node.value, depth + 1)
        def bound(b):
            if b is None:
                return None
            try:
                v = ast.literal_eval(b)
            except Exception:
                _err(b, 'slice bound of a side list is not a literal')
            if type(v) is not int:
                _err(b, 'slice bound of a side list is not an integer')
            return v
        return base[bound(node.slice.lower):bound(node.slice.upper)]
    if isinstance(node, ast.Name):
        defs = [st for st in tree.body if isinstance(st, (ast.Assign, ast.AnnAssign)) and st.value is not None
                and any(isinstance(t, ast.Name) and t.id == node.id for t in (st.targets if isinstance(st, ast.Assign) else [st.target]))]
        if len(defs) != 1:
            _err(node, f'{node.id}: expected one module-level definition, found {len(defs)}')
        return _side_list(tree, defs[0].value, depth + 1)
    _err(node, f'side list not understood: {s}')


def _sides_info(tree: ast.Module, vtf: ast.ClassDef) -> dict:
    dr = _find_method(vtf, '_depth_range')
    params = [a.arg for a in dr.args.args]
    if dr.args.vararg or dr.args.kwarg or dr.args.kwonlyargs or not params or params[0] != 'self' or len(params) > 2:
        _err(dr, f'_depth_range parameters: {params}')
    body = _if_else(dr.body)
    pname = params[1] if len(params) == 2 else None
    falls_back = False
    if pname is not None:
        if len(dr.args.defaults) != 1 or not (isinstance(dr.args.defaults[0], ast.Constant) and dr.args.defaults[0].value is None):
            _err(dr, '_depth_range: the version parameter must default to None')
        if body and isinstance(body[0], ast.If) and ast.unparse(body[0].test) == f'{pname} is None' and not body[0].orelse \
                and len(body[0].body) == 1 and ast.unparse(body[0].body[0]) == f'{pname} = self.version[1]':
            falls_back = True
            body = body[1:]
        else:
            _err(dr, '_depth_range: `if <param> is None: <param> = self.version[1]` not found')
    if len(body) != 1 or not isinstance(body[0], ast.If) or ast.unparse(body[0].test) not in ('VTFFlags.ENVMAP in self.flags',):
        _err(dr, '_depth_range: `if VTFFlags.ENVMAP in self.flags` not found')
    top = body[0]
    flat = _if_else(top.orelse)
    if len(flat) != 1 or not isinstance(flat[0], ast.Return) or ast.unparse(flat[0].value) != 'range(self.depth)':
        _err(top, '_depth_range: the non-cubemap branch does not return range(self.depth)')
    inner = _if_else(top.body)
    if len(inner) != 1 or not isinstance(inner[0], ast.If):
        _err(top, '_depth_range: version test not found')
    vt = inner[0]
    t = vt.test
    if not (isinstance(t, ast.Compare) and len(t.ops) == 1 and type(t.ops[0]) in CMP and isinstance(t.comparators[0], ast.Constant)
            and type(t.comparators[0].value) is int):
        _err(vt, f'_depth_range: version test not understood: {ast.unparse(t)}')
    left = ast.unparse(t.left)
    if left == 'self.version[1]':
        uses_param = False
    elif pname is not None and left == pname and falls_back:
        uses_param = True
    else:
        _err(vt, f'_depth_range: version test on {left}')
    th, el = _if_else(vt.body), _if_else(vt.orelse)
    if len(th) != 1 or len(el) != 1 or not isinstance(th[0], ast.Return) or not isinstance(el[0], ast.Return):
        _err(vt, '_depth_range: branches of the version test must return a side list')
    info = {'cmp': CMP[type(t.ops[0])], 'threshold': t.comparators[0].value,
            'then': _side_list(tree, th[0].value), 'else': _side_list(tree, el[0].value), 'uses_param': uses_param, 'line': dr.lineno}

    def calls(fn, owner):
        out = []
        for n in ast.walk(fn):
            if isinstance(n, ast.Call) and isinstance(n.func, ast.Attribute) and n.func.attr == '_depth_range':
                if ast.unparse(n.func.value) != owner or n.keywords and [k.arg for k in n.keywords] != [pname]:
                    _err(n, f'{fn.name}: _depth_range call not understood: {ast.unparse(n)}')
                arg = n.args[0] if n.args else (n.keywords[0].value if n.keywords else None)
                out.append((n, arg))
        return out

    def stores(fn, name):
        return sum(1 for n in ast.walk(fn) if isinstance(n, ast.Name) and n.id == name and isinstance(n.ctx, ast.Store))

    # ---- save: which minor version is handed to _depth_range
    save = _find_method(vtf, 'save')
    cs = calls(save, 'self')
    if len(cs) != 1:
        _err(save, f'save: {len(cs)} calls of _depth_range')
    call, arg = cs[0]
    written_name = None
    for n in ast.walk(save):
        if isinstance(n, ast.Call) and ast.unparse(n.func) == 'struct.pack' and len(n.args) == 3 and isinstance(n.args[2], ast.Name) \
                and isinstance(n.args[1], ast.Name) and 'major' in n.args[1].id:
            written_name = n.args[2].id
    if written_name is None:
        _err(save, 'save: the struct.pack of the version numbers not found')
    if arg is None or not uses_param:
        info['save'] = 'MObject'
    elif isinstance(arg, ast.Name) and arg.id == written_name and stores(save, written_name) == 1:
        info['save'] = 'MWritten'
    elif ast.unparse(arg) == 'self.version[1]':
        info['save'] = 'MObject'
    else:
        _err(call, f'save: argument of _depth_range not understood: {ast.unparse(arg)}')
    # ---- read: the object under construction gets the version found in the file before the side list is asked for
    read = _find_method(vtf, 'read')
    cr = calls(read, 'vtf')
    if len(cr) != 1:
        _err(read, f'read: {len(cr)} calls of _depth_range')
    rcall, rarg = cr[0]
    file_minor = None
    for n in ast.walk(read):
        if isinstance(n, ast.Assign) and isinstance(n.value, ast.Call) and ast.unparse(n.value.func) == 'struct.unpack' \
                and isinstance(n.targets[0], (ast.Tuple, ast.List)) and len(n.targets[0].elts) == 2 \
                and all(isinstance(e, ast.Name) for e in n.targets[0].elts) and 'major' in n.targets[0].elts[0].id:
            file_minor = n.targets[0].elts[1].id
    if file_minor is None or stores(read, file_minor) != 1:
        _err(read, 'read: the unpack of the version numbers not found')
    if rarg is None or not uses_param:
        vs = [n for n in ast.walk(read) if isinstance(n, ast.Assign) and ast.unparse(n.targets[0]) == 'vtf.version']
        if len(vs) != 1 or not (isinstance(vs[0].value, ast.Tuple) and len(vs[0].value.elts) == 2 and ast.unparse(vs[0].value.elts[1]) == file_minor):
            _err(read, 'read: vtf.version is not set to the version found in the file')
        if c15_norm.seq(vs[0]) > c15_norm.seq(rcall):
            _err(rcall, 'read: _depth_range() is called before vtf.version is set')
        info['read'] = 'MWritten'
    elif isinstance(rarg, ast.Name) and rarg.id == file_minor:
        info['read'] = 'MWritten'
    else:
        _err(rcall, f'read: argument of _depth_range not understood: {ast.unparse(rarg)}')
    # ---- compute_mipmaps and __init__ work on the frames the object has: no version argument
    for name in ('compute_mipmaps', '__init__'):
        for c, a in calls(_find_method(vtf, name), 'self'):
            if a is not None:
                _err(c, f'{name}: _depth_range is called with a version')
    # ---- what save() does for a side the object does not have (a 7.5 cubemap written as 7.2-7.4 has no sphere map)
    loop = None
    for n in ast.walk(save):
        if isinstance(n, ast.For) and ast.unparse(n.iter) == 'reversed(range(self.mipmap_count))':
            loop = n
    if loop is None:
        _err(save, 'save: frame loop not found')
    mv = loop.target.id if isinstance(loop.target, ast.Name) else '?'
    want_dims = [f'max(self.width >> {mv}, 1)', f'max(self.height >> {mv}, 1)']
    blank = False
    lookups: set[str] = set()       # distinct lookup expressions (a local that named the looked-up frame may have been inlined)
    for n in ast.walk(loop):
        if isinstance(n, ast.Try):
            looks = [b for b in n.body if isinstance(b, ast.Assign) and isinstance(b.value, ast.Subscript) and ast.unparse(b.value.value) == 'self._frames']
            if not looks:
                continue
            var = ast.unparse(looks[0].targets[0])
            if len(n.body) != 1 or n.orelse or n.finalbody or len(n.handlers) != 1:
                _err(n, 'save: try around the frame lookup not understood')
            h = n.handlers[0]
            if h.type is None or ast.unparse(h.type) != 'KeyError' or len(h.body) != 1 or not isinstance(h.body[0], ast.Assign) \
                    or ast.unparse(h.body[0].targets[0]) != var:
                _err(h, 'save: handler of the frame lookup not understood')
            v = h.body[0].value
            if isinstance(v, ast.Call) and ast.unparse(v.func) == 'Frame' and [ast.unparse(a) for a in v.args] == want_dims and not v.keywords:
                blank = True
            else:
                _err(h, f'save: a missing side is replaced by {ast.unparse(v)}, expected Frame({", ".join(want_dims)})')
        if isinstance(n, ast.Subscript) and ast.unparse(n.value) == 'self._frames':
            lookups.add(ast.unparse(n))
        if isinstance(n, ast.Call) and ast.unparse(n.func) == 'self._frames.get':
            _err(n, 'save: self._frames.get(...) in the frame loop is not understood')
    if len(lookups) != 1:
        _err(loop, f'save: {len(lookups)} different frame table lookups in the frame loop')
    info['missing_blank'] = blank
    return info


def _compute_from_previous(cm: ast.FunctionDef) -> bool:
    """`for M in range(1, self.mipmap_count)`: the level self._frames[A, B, M] and self._frames[A, B, M - 1] of the SAME
    frame and side are used (whatever the variables are called)"""
    for n in ast.walk(cm):
        if isinstance(n, ast.For) and isinstance(n.target, ast.Name) and ast.unparse(n.iter) == 'range(1, self.mipmap_count)':
            m = n.target.id
            subs = [x for x in ast.walk(n) if isinstance(x, ast.Subscript) and ast.unparse(x.value) == 'self._frames'
                    and isinstance(x.slice, ast.Tuple) and len(x.slice.elts) == 3]
            cur = {tuple(ast.unparse(e) for e in x.slice.elts[:2]) for x in subs if ast.unparse(x.slice.elts[2]) == m}
            prev = {tuple(ast.unparse(e) for e in x.slice.elts[:2]) for x in subs if ast.unparse(x.slice.elts[2]) == f'{m} - 1'}
            others = [x for x in subs if ast.unparse(x.slice.elts[2]) not in (m, f'{m} - 1')]
            return len(cur) == 1 and cur == prev and not others
    return False


def layout_info() -> dict:
    tree = c15_norm.normalised_tree(src_text('vtf.py'))
    vtf = _find_class(tree, 'VTF')
    frame = _find_class(tree, 'Frame')
    info = {
        'mip': _mip_loop(_find_method(vtf, '__init__')),
        'save': _loop_nest(_find_method(vtf, 'save'), 'self.mipmap_count'),
        'read': _loop_nest(_find_method(vtf, 'read'), 'mipmap_count'),
        'getitem': _pixel_access(frame, _find_method(frame, '__getitem__'), tree),
        'setitem': _pixel_access(frame, _find_method(frame, '__setitem__'), tree),
    }
    info['sides'] = _sides_info(tree, vtf)
    rd = info['read']['dims']
    info['read_dims_max_shr'] = (rd.get('mip_width') == f'max(width >> {info["read"]["var"]}, 1)'
                                 and rd.get('mip_height') == f'max(height >> {info["read"]["var"]}, 1)')
    # compute_mipmaps: for mipmap in range(1, self.mipmap_count): rescale_from(level mipmap - 1)
    cm = _find_method(vtf, 'compute_mipmaps')
    info['compute_from_previous_level'] = _compute_from_previous(cm)
    rw = ast.parse(src_text('_py_vtf_readwrite.py'))
    sd = next((n for n in rw.body if isinstance(n, ast.FunctionDef) and n.name == 'scale_down'), None)
    if sd is None:
        raise TranslateError('scale_down not found')
    info['scale'] = _scale_down(sd)
    return info


def _atoms_coq(atoms) -> str:
    return '[' + '; '.join(f'({v}, {c}, {b})' for v, c, b in atoms) + ']'


def _order_coq(o, sides_model: bool = False) -> str:
    m = {'mip_reversed': 'LMipReversed', 'frame': 'LFrame', 'depth_or_side': 'LDepthOrSide'}
    if sides_model:
        m = {'mip_reversed': 'VMipRev', 'frame': 'VFrame', 'depth_or_side': 'VSide'}
    return '[' + '; '.join(m[x] for x in o) + ']'


def translate_layout() -> tuple[str, dict]:
    info = layout_info()
    mip = info['mip']
    sc = info['scale']
    b = lambda x: 'true' if x else 'false'
    L = ['(* GENERATED by translate/c15_pixel.py from src/srctools/vtf.py and _py_vtf_readwrite.py. Do not edit. *)',
         'From Coq Require Import ZArith NArith List Bool.', 'From SV Require Import Fmt.VtfLayout Fmt.VtfSides.',
         'Import ListNotations.', '',
         f'(* VTF.__init__, vtf.py:{mip["line"]} *)',
         'Definition gen_mipcfg : mipcfg := {|',
         f'  brk_w := ({mip["brk_w"][0]}, {mip["brk_w"][1]}%N); brk_h := ({mip["brk_h"][0]}, {mip["brk_h"][1]}%N);',
         f'  brk_or := {b(mip["or"])}; shr_w := {mip["shr_w"]}%N; shr_h := {mip["shr_h"]}%N; count_delta := {mip["delta"]}%N |}}.',
         '',
         'Inductive loopvar := LMipReversed | LFrame | LDepthOrSide.',
         'Definition loopvar_eqb (a b : loopvar) : bool := match a, b with LMipReversed, LMipReversed | LFrame, LFrame | LDepthOrSide, LDepthOrSide => true | _, _ => false end.',
         'Fixpoint order_eqb (a b : list loopvar) : bool := match a, b with [], [] => true | x :: a\', y :: b\' => loopvar_eqb x y && order_eqb a\' b\' | _, _ => false end.',
         f'Definition save_order : list loopvar := {_order_coq(info["save"]["order"])}.',
         f'Definition read_order : list loopvar := {_order_coq(info["read"]["order"])}.',
         f'Definition gen_save_order : list lvar := {_order_coq(info["save"]["order"], True)}.',
         f'Definition gen_read_order : list lvar := {_order_coq(info["read"]["order"], True)}.',
         f'(* VTF._depth_range, vtf.py:{info["sides"]["line"]}, and its callers save() / read() *)',
         f'Definition gen_sidescfg : sidescfg := {{| sd_cmp := {info["sides"]["cmp"]}; sd_threshold := {info["sides"]["threshold"]}%Z;',
         f'  sd_then := [{"; ".join(str(x) for x in info["sides"]["then"])}]%nat; sd_else := [{"; ".join(str(x) for x in info["sides"]["else"])}]%nat;',
         f'  sd_save := {info["sides"]["save"]}; sd_read := {info["sides"]["read"]}; sd_missing_blank := {b(info["sides"]["missing_blank"])} |}}.',
         f'(* key tuples: save {info["save"]["key"]}  read {info["read"]["key"]} *)',
         f'Definition frame_key_is_frame_depth_mip : bool := {b(info["save"]["key_roles"] == ["frame", "depth_or_side", "mip_reversed"] and info["read"]["key_roles"] == ["frame", "depth_or_side", "mip_reversed"])}.',
         f'Definition read_dims_are_max_shr_1 : bool := {b(info["read_dims_max_shr"])}.',
         f'Definition compute_mipmaps_from_previous_level : bool := {b(info["compute_from_previous_level"])}.',
         '',
         'Open Scope Z_scope.',
         f'(* Frame.__getitem__, vtf.py:{info["getitem"]["line"]}; Frame.__setitem__, vtf.py:{info["setitem"]["line"]} *)',
         f'Definition getitem_reject : list atom := {_atoms_coq(info["getitem"]["atoms"])}.',
         f'Definition setitem_reject : list atom := {_atoms_coq(info["setitem"]["atoms"])}.',
         f'Definition getitem_off (x y w h : Z) : Z := {info["getitem"]["off"]}.',
         f'Definition setitem_off (x y w h : Z) : Z := {info["setitem"]["off"]}.',
         f'Definition getitem_span : Z := {info["getitem"]["span"]}.',
         f'Definition setitem_span : Z := {info["setitem"]["span"]}.',
         '',
         f'(* scale_down, _py_vtf_readwrite.py:{sc["line"]} *)']
    done: list[str] = []
    for nm, e in sc['defs']:
        lets = ''.join(f'let {p} := gen_{p} sw sh w h in ' for p in done)
        L.append(f'Definition gen_{nm} (sw sh w h : Z) : Z := {lets}{e}.')
        done.append(nm)
    L += ['Definition gen_scalecfg : scalecfg := {| horiz_off := gen_horiz_off; per_column := gen_per_column; vert_off := gen_vert_off; per_row := gen_per_row |}.',
          f'Definition gen_dst_off (w x y : Z) : Z := {sc["off"]}.',
          f'Definition gen_src_off2 (per_row per_column x y : Z) : Z := {sc["off2"]}.',
          f'Definition bilinear_terms : list (bool * bool) := [{"; ".join(f"({b(h)}, {b(v)})" for h, v in sc["terms"])}].',
          f'Definition bilinear_div : Z := {sc["div"]}.',
          f'Definition nearest_terms : list (bool * bool) := [{"; ".join(f"({b(h)}, {b(v)})" for h, v in sc["nearest"])}].',
          f'Definition nearest_offsets_same_as_bilinear : bool := {b(sc["nearest_same_offsets"])}.',
          '']
    return '\n'.join(L), info


GEN = {'PixelCodecs_gen': translate_codecs, 'VtfLayout_gen': translate_layout}
