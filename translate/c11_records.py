"""C11 translator, third part: per-record field orders (placeholder, filled in below)."""
from __future__ import annotations

import ast


def generate(tree: ast.Module) -> tuple[str, dict]:
    return '', {}
