"""C11 translator, third part: the FULL field order of every fixed-size lump record, on both sides.

For each record of RECORDS (a stream of translate/c11_formats.STREAMS under a branch configuration) the reader's struct
site is followed to the tuple of local variables that receive the unpacked values, every variable is followed (through
intermediate assignments, slices, index look-ups, asserts `a == b`, attribute assignments) to the attributes of the object
that is constructed from it; on the writer's side every argument of the pack call is followed back (through locals,
accumulating lists, find_or_insert / find_or_extend helpers, `len()`) to the attributes of the object being written.
Each slot becomes a sorted list of labels `attr`, `attr.x`, `attr[0]`, `attr:ref` (index into a table), `attr:first` /
`attr:count` (a run inside a table); a slot that packs two attributes into one integer has two labels.

The generated lists are compared in Coq (Fmt/BspRecords.v: `record_ok`), together with the number of values of the struct
format in every applicable layout table.  Nothing about bsp.py's field names is hard-wired here; hard-wired are only the
branch flags (is_vitamin, has_ambient) of each record variant and the layout tables each variant applies to.

Fail-closed: a slot whose variable reaches no attribute, a pack argument that mentions no attribute, an unknown loop
shape, an undecidable choice between several pack calls -> TranslateError.
"""
from __future__ import annotations

import ast
from typing import Any

from harness.common import TranslateError
from translate import c11_formats as F

# record name, stream name in c11_formats.STREAMS, branch flags, layout tables it applies to
ALL_L = ['STANDARD', 'V19', 'INFRA', 'VITAMIN', 'CHAOS']
NONVIT_L = ['STANDARD', 'V19', 'INFRA', 'CHAOS']
RECORDS: list[tuple[str, str, dict[str, Any], list[str]]] = [
    ('planes', 'planes', {}, ALL_L),
    ('vertexes', 'vertexes', {}, ALL_L),
    ('primitives', 'primitives', {'is_vitamin': False}, NONVIT_L),
    ('faces', 'faces', {'is_vitamin': False}, NONVIT_L),
    ('faces_vitamin', 'faces_vitamin', {'is_vitamin': True}, ['VITAMIN']),
    ('brushsides', 'brushsides', {'is_vitamin': False}, NONVIT_L),
    ('brushsides_vitamin', 'brushsides_vitamin', {'is_vitamin': True}, ['VITAMIN']),
    ('brushes', 'brushes', {}, ALL_L),
    ('leafwaterdata', 'leafwaterdata', {}, ALL_L),
    ('leafs', 'leafs', {'is_vitamin': False, 'has_ambient': False}, ['STANDARD', 'INFRA', 'CHAOS']),
    ('leafs_v19', 'leafs', {'is_vitamin': False, 'has_ambient': True}, ['V19']),
    ('leafs_vitamin', 'leafs_vitamin', {'is_vitamin': True, 'has_ambient': False}, ['VITAMIN']),
    ('nodes', 'nodes', {}, ALL_L),
    ('texdata', 'texdata', {'is_vitamin': False}, NONVIT_L),
    ('texdata_vitamin', 'texdata_vitamin', {'is_vitamin': True}, ['VITAMIN']),
    ('texinfo', 'texinfo', {}, ALL_L),
    ('bmodels', 'bmodels', {}, ALL_L),
    ('cubemaps', 'cubemaps', {}, ALL_L),
    ('overlay_fades', 'overlay_fades', {}, ALL_L),
    ('overlay_system_levels', 'overlay_system_levels', {}, ALL_L),
    # detail props: one struct, three classes; the branch taken is fixed by the class (writer) / the type codes (reader).
    # The codes of each class are the ones proved to dispatch correctly by detail_kind_dispatch (BspFormats_gen).
    ('detail_model', 'dprp_detail', {'mro': ['DetailPropModel', 'DetailProp'], 'type_codes': [0]}, ALL_L),
    ('detail_sprite', 'dprp_detail', {'mro': ['DetailPropSprite', 'DetailProp'], 'type_codes': [1]}, ALL_L),
    ('detail_shape', 'dprp_detail', {'mro': ['DetailPropShape', 'DetailPropSprite', 'DetailProp'], 'type_codes': [2, 3]}, ALL_L),
]
FLAG_NAMES = {'is_vitamin': 'is_vitamin', 'self.is_vitamin': 'is_vitamin', 'has_ambient': 'has_ambient'}
PASSTHROUGH = {'int', 'float', 'round', 'bool', 'abs', 'coord', 'bytes', 'list', 'tuple'}
STR_METHODS = {'casefold', 'lower', 'upper', 'strip', 'rstrip', 'lstrip', 'title', 'capitalize', 'swapcase'}
XYZ = 'xyz'
COMPONENTS = {'Vec': ['x', 'y', 'z'], 'Angle': ['pitch', 'yaw', 'roll']}     # positional constructor arguments of srctools.math
CONST = '<constant>'


def parents_of(fn: ast.AST) -> dict[int, ast.AST]:
    par: dict[int, ast.AST] = {}
    for p in ast.walk(fn):
        for ch in ast.iter_child_nodes(p):
            par[id(ch)] = p
    return par


def decide(test: ast.AST, flags: dict[str, Any]) -> bool | None:
    s = ast.unparse(test)
    if s in FLAG_NAMES and FLAG_NAMES[s] in flags:
        return flags[FLAG_NAMES[s]]
    # isinstance(prop, C) for an object whose exact class (with its ancestors) is given
    if isinstance(test, ast.Call) and ast.unparse(test.func) == 'isinstance' and len(test.args) == 2 and 'mro' in flags \
            and isinstance(test.args[1], ast.Name):
        return test.args[1].id in flags['mro']
    # detail_type == k / detail_type in (k, ...) for a record whose type code lies in a given set
    if isinstance(test, ast.Compare) and len(test.ops) == 1 and ast.unparse(test.left) == 'detail_type' and 'type_codes' in flags:
        c = test.comparators[0]
        if isinstance(test.ops[0], ast.Eq) and isinstance(c, ast.Constant):
            vals = {c.value}
        elif isinstance(test.ops[0], ast.In) and isinstance(c, ast.Tuple) and all(isinstance(e, ast.Constant) for e in c.elts):
            vals = {e.value for e in c.elts}
        else:
            return None
        codes = set(flags['type_codes'])
        if codes <= vals:
            return True
        if not (codes & vals):
            return False
        return None
    if isinstance(test, ast.UnaryOp) and isinstance(test.op, ast.Not):
        d = decide(test.operand, flags)
        return None if d is None else not d
    if isinstance(test, ast.BoolOp):
        ds = [decide(v, flags) for v in test.values]
        if isinstance(test.op, ast.And):
            if any(d is False for d in ds):
                return False
            return True if all(d is True for d in ds) else None
        if any(d is True for d in ds):
            return True
        return False if all(d is False for d in ds) else None
    return None


class Live:
    """The statements / expressions of a function that are live under a flag configuration."""

    def __init__(self, fn: ast.FunctionDef, flags: dict[str, Any]) -> None:
        self.fn, self.flags = fn, flags
        self.par = parents_of(fn)
        self.dead: set[int] = set()
        for n in ast.walk(fn):
            if isinstance(n, (ast.If, ast.IfExp)):
                d = decide(n.test, flags)
                if d is not None:
                    dead = (n.orelse if d else n.body)
                    for st in (dead if isinstance(dead, list) else [dead]):
                        for sub in ast.walk(st):
                            self.dead.add(id(sub))
        self.nodes = [n for n in ast.walk(fn) if id(n) not in self.dead]

    def is_live(self, n: ast.AST) -> bool:
        return id(n) not in self.dead

    def conds(self, n: ast.AST) -> list[ast.AST]:
        """Tests of the undecided `if` statements around n."""
        out = []
        cur = n
        while id(cur) in self.par:
            p = self.par[id(cur)]
            if isinstance(p, ast.If) and cur is not p.test and decide(p.test, self.flags) is None:
                out.append(p.test)
            cur = p
        return out


# ------------------------------------------------------------------------------------------------ reader side
def names_with_roles(e: ast.AST, prune: Any = None) -> list[tuple[str, str]]:
    """Every Name loaded in e with the role of its position: ':first' (lower bound of a slice), ':count' (upper bound only),
    ':ref' (index of a subscript), '' otherwise."""
    out: list[tuple[str, str]] = []

    def go(x: ast.AST, role: str) -> None:
        if prune is not None and prune(x):
            return
        if isinstance(x, ast.Name):
            if isinstance(x.ctx, ast.Load):
                out.append((x.id, role))
        elif isinstance(x, ast.Subscript):
            go(x.value, role)
            sl = x.slice
            if isinstance(sl, ast.Slice):
                lows = {n.id for n in ast.walk(sl.lower) if isinstance(n, ast.Name)} if sl.lower is not None else set()
                if sl.lower is not None:
                    go(sl.lower, role or ':first')
                if sl.upper is not None:
                    for n in ast.walk(sl.upper):
                        if isinstance(n, ast.Name) and n.id not in lows:
                            out.append((n.id, role or ':count'))
            else:
                go(sl, role or ':ref')
        elif isinstance(x, ast.Attribute):
            go(x.value, role)
        else:
            for ch in ast.iter_child_nodes(x):
                go(ch, role)
    go(e, '')
    return out


def with_role(tok: str, role: str) -> str:
    if not role:
        return tok
    base = tok.split(':')[0]
    return base + role


class Reader:
    def __init__(self, fn: ast.FunctionDef, flags: dict[str, bool], classes: dict[str, list[str]]) -> None:
        self.fn, self.live, self.classes = fn, Live(fn, flags), classes
        self.edges: dict[str, set[tuple[str, str]]] = {}     # var -> {(role, target var)}
        self.direct: dict[str, set[str]] = {}                # var -> {token}
        self.build()

    def edge(self, src: str, role: str, dst: str) -> None:
        if src != dst:
            self.edges.setdefault(src, set()).add((role, dst))

    def tok(self, var: str, token: str) -> None:
        self.direct.setdefault(var, set()).add(token)

    def build(self) -> None:
        for n in self.live.nodes:
            if isinstance(n, ast.Call) and isinstance(n.func, ast.Name) and n.func.id in self.classes:
                if 'mro' in self.live.flags and n.func.id != self.live.flags['mro'][0] and n.func.id.startswith('DetailProp'):
                    raise TranslateError(f'{self.fn.name}: line {n.lineno}: {n.func.id}(...) is live for class {self.live.flags["mro"][0]}')
                fields = self.classes[n.func.id]
                if len(n.args) > len(fields):
                    raise TranslateError(f'{self.fn.name}: line {n.lineno}: {n.func.id}(...) has more arguments than fields')
                for k in n.keywords:
                    # attrs strips the leading underscore of a private attribute in __init__
                    if k.arg is None or not any(k.arg == f or k.arg == f.lstrip('_') for f in fields):
                        raise TranslateError(f'{self.fn.name}: line {n.lineno}: {n.func.id}(...) keyword `{k.arg}` is not a field')
                by_kw = [(k.value, next(f for f in fields if k.arg == f or k.arg == f.lstrip('_'))) for k in n.keywords]
                for a, f in list(zip(n.args, fields)) + by_kw:
                    if isinstance(a, ast.Call) and isinstance(a.func, ast.Name) and a.func.id in COMPONENTS and len(a.args) == 3:
                        for k, c in enumerate(a.args):
                            for v, r in names_with_roles(c):
                                self.tok(v, with_role(f'{f}.{COMPONENTS[a.func.id][k]}', r))
                    elif isinstance(a, ast.Tuple):
                        for k, c in enumerate(a.elts):
                            for v, r in names_with_roles(c):
                                self.tok(v, with_role(f'{f}[{k}]', r))
                    else:
                        for v, r in names_with_roles(a):
                            self.tok(v, with_role(f, r))
            elif isinstance(n, ast.Assign):
                # values handed to a constructor are followed through the constructor, not through the variable that holds the object
                srcs = names_with_roles(n.value, lambda x: isinstance(x, ast.Call) and isinstance(x.func, ast.Name)
                                        and x.func.id in self.classes)
                for t in n.targets:
                    if isinstance(t, ast.Name):
                        for v, r in srcs:
                            self.edge(v, r, t.id)
                    elif isinstance(t, ast.Attribute):
                        for v, r in srcs:
                            self.tok(v, with_role(t.attr, r))
                    elif isinstance(t, (ast.Tuple, ast.List)):
                        for el in t.elts:
                            if isinstance(el, ast.Name):
                                for v, r in srcs:
                                    self.edge(v, r, el.id)
            elif isinstance(n, ast.Assert):
                tests = n.test.values if isinstance(n.test, ast.BoolOp) else [n.test]
                for c in tests:
                    if isinstance(c, ast.Compare) and len(c.ops) == 1 and isinstance(c.ops[0], ast.Eq) \
                            and isinstance(c.left, ast.Name) and isinstance(c.comparators[0], ast.Name):
                        self.edge(c.left.id, '', c.comparators[0].id)
                        self.edge(c.comparators[0].id, '', c.left.id)

    def dests(self, var: str) -> set[str]:
        seen: set[tuple[str, str]] = set()
        out: set[str] = set()

        def go(v: str, role: str) -> None:
            if (v, role) in seen:
                return
            seen.add((v, role))
            for t in self.direct.get(v, ()):
                out.add(with_role(t, role) if role else t)
            for r, d in self.edges.get(v, ()):
                go(d, role or r)
        go(var, '')
        return out


def reader_slots(fn: ast.FunctionDef, site: dict, flags: dict[str, bool], classes: dict[str, list[str]]) -> list[list[str]]:
    live = Live(fn, flags)
    par = live.par
    node = site['node']
    # the call that iterates / unpacks the records of this site
    call: ast.Call | None = None
    if isinstance(node, ast.Call):
        call = node
    else:
        aliases = {n.targets[0].id for n in ast.walk(fn) if isinstance(n, ast.Assign) and n.value is node and isinstance(n.targets[0], ast.Name)}
        for n in ast.walk(fn):
            if isinstance(n, ast.Call) and isinstance(n.func, ast.Attribute) and n.func.attr in ('iter_unpack', 'unpack', 'unpack_from'):
                if n.func.value is node or (isinstance(n.func.value, ast.Name) and n.func.value.id in aliases):
                    if live.is_live(n):
                        call = n
    if call is None:
        raise TranslateError(f'{fn.name}: line {site["line"]}: no unpack call found for the record site')
    # map(Vec, call): the record IS a Vec
    p = par.get(id(call))
    if isinstance(p, ast.Call) and ast.unparse(p.func) == 'map' and len(p.args) == 2 and ast.unparse(p.args[0]) == 'Vec' and p.args[1] is call:
        return [['x'], ['y'], ['z']]
    # enclosing loop / comprehension whose iterable contains the call
    cur: ast.AST = call
    target = None
    while id(cur) in par:
        p = par[id(cur)]
        if isinstance(p, ast.For) and cur is p.iter:
            target, it = p.target, p.iter
            break
        if isinstance(p, ast.comprehension) and cur is p.iter:
            target, it = p.target, p.iter
            break
        cur = p
    pa = par.get(id(call))
    if target is None and isinstance(pa, ast.Assign) and pa.value is call and len(pa.targets) == 1 \
            and isinstance(pa.targets[0], (ast.Tuple, ast.List)):
        target, it = pa.targets[0], call         # (a, b, ...) = struct_read(fmt, buf)
    if target is None:
        raise TranslateError(f'{fn.name}: line {call.lineno}: the record site is not the iterable of a loop')
    # which part of the target receives the record
    rec_t: ast.AST = target
    if it is not call:
        if isinstance(it, ast.Call) and ast.unparse(it.func) == 'enumerate' and it.args and it.args[0] is call \
                and isinstance(target, ast.Tuple) and len(target.elts) == 2:
            rec_t = target.elts[1]
        elif isinstance(it, ast.Call) and ast.unparse(it.func) in ('zip', 'itertools.zip_longest') and call in it.args \
                and isinstance(target, ast.Tuple) and len(target.elts) == len(it.args):
            rec_t = target.elts[it.args.index(call)]
        else:
            raise TranslateError(f'{fn.name}: line {call.lineno}: loop shape around the record site not recognised')
    if isinstance(rec_t, (ast.Tuple, ast.List)):
        slots_v = rec_t.elts
    elif isinstance(rec_t, ast.Name):
        cands = [n for n in live.nodes if isinstance(n, ast.Assign) and isinstance(n.value, ast.Name) and n.value.id == rec_t.id
                 and len(n.targets) == 1 and isinstance(n.targets[0], (ast.Tuple, ast.List))]
        if len(cands) != 1:
            raise TranslateError(f'{fn.name}: expected exactly one live `(...) = {rec_t.id}` under {flags}, found {len(cands)}')
        slots_v = cands[0].targets[0].elts
    else:
        raise TranslateError(f'{fn.name}: line {call.lineno}: record target not recognised')
    if not all(isinstance(v, ast.Name) for v in slots_v):
        raise TranslateError(f'{fn.name}: line {call.lineno}: record target is not a flat tuple of names')
    rd = Reader(fn, flags, classes)
    out = []
    for v in slots_v:
        d = sorted(rd.dests(v.id))
        if not d:
            if 'type_codes' in flags:
                # a slot this class does not use (or the type code itself): the writer must put a constant there
                d = [CONST]
            else:
                raise TranslateError(f'{fn.name}: unpacked variable `{v.id}` reaches no attribute of a constructed object')
        out.append(d)
    return out


# ------------------------------------------------------------------------------------------------ writer side
class Writer:
    def __init__(self, fn: ast.FunctionDef, flags: dict[str, bool], ann: dict[str, dict[str, str]]) -> None:
        self.fn, self.live, self.ann = fn, Live(fn, flags), ann
        self.params = {a.arg for a in fn.args.args}
        # record variables: loop / comprehension targets, and locals that alias an attribute of one
        self.recvars: set[str] = set()
        for n in self.live.nodes:
            if isinstance(n, (ast.For, ast.comprehension)):
                for t in ast.walk(n.target):
                    if isinstance(t, ast.Name):
                        self.recvars.add(t.id)
        self.assigns: dict[str, list[tuple[ast.AST, ast.AST]]] = {}     # local -> [(value expr, statement)]
        self.binders: dict[str, str] = {}                               # local callable -> find_or_insert / find_or_extend
        for n in self.live.nodes:
            if isinstance(n, ast.Assign):
                for t in n.targets:
                    if isinstance(t, ast.Name):
                        self.assigns.setdefault(t.id, []).append((n.value, n))
                        if isinstance(n.value, ast.Call) and ast.unparse(n.value.func) in ('find_or_insert', 'find_or_extend'):
                            self.binders[t.id] = ast.unparse(n.value.func)
                    elif isinstance(t, ast.Subscript) and isinstance(t.value, ast.Name):
                        # d[key] = v : remember the key as a source of later look-ups d[...]
                        self.assigns.setdefault(t.value.id, []).append((t.slice, n))
            elif isinstance(n, ast.AnnAssign) and isinstance(n.target, ast.Name) and n.value is not None:
                self.assigns.setdefault(n.target.id, []).append((n.value, n))
            elif isinstance(n, ast.AugAssign) and isinstance(n.target, ast.Name):
                self.assigns.setdefault(n.target.id, []).append((n.value, n))
            elif isinstance(n, ast.Expr) and isinstance(n.value, ast.Call) and isinstance(n.value.func, ast.Attribute) \
                    and n.value.func.attr in ('extend', 'append') and isinstance(n.value.func.value, ast.Name) and n.value.args:
                self.assigns.setdefault(n.value.func.value.id, []).append((n.value.args[0], n))
        self.masked: list[str] = []
        self.aliases: set[str] = set()
        # `tdat = info._info` names another record (labels are that record's attributes); `pos = cube.origin` names a value
        # object of this record (labels are `origin.x`): decided by the annotation of the attribute
        self.alias_prefix: dict[str, str] = {}
        for name, lst in self.assigns.items():
            srcs = [v for v, _ in lst if isinstance(v, ast.Attribute) and isinstance(v.value, ast.Name) and v.value.id in self.recvars]
            if srcs:
                self.aliases.add(name)
                prefixes = set()
                for v in srcs:
                    types = {c[v.attr].strip('\'"') for c in ann.values() if v.attr in c}
                    types = {t[9:-1].strip('\'"') if t.startswith('Optional[') and t.endswith(']') else t for t in types}
                    prefixes.add('' if not types or any(t in ann for t in types) else v.attr)
                # mixed definitions keep the label of the attribute alone (as before)
                self.alias_prefix[name] = prefixes.pop() if len(lst) == len(srcs) and len(prefixes) == 1 else ''

    def attr_chain(self, e: ast.AST) -> tuple[str, list[str]] | None:
        parts: list[str] = []
        cur = e
        while isinstance(cur, ast.Attribute):
            parts.append(cur.attr)
            cur = cur.value
        if isinstance(cur, ast.Name):
            return cur.id, parts[::-1]
        return None

    def W(self, e: ast.AST, role: str, seen: frozenset[str]) -> set[str]:
        if isinstance(e, ast.Constant):
            return set()
        ch = self.attr_chain(e)
        if ch is not None and ch[1] and (ch[0] in self.recvars or ch[0] in self.aliases):
            parts = [p for p in ch[1]]
            if self.alias_prefix.get(ch[0]):
                parts = [self.alias_prefix[ch[0]]] + parts
            if parts and parts[-1] == 'value':
                parts = parts[:-1]
            if not parts:
                return set()
            if len(parts) == 1:
                return {with_role(parts[0], role)}
            if len(parts) == 2:
                return {with_role(f'{parts[0]}.{parts[1]}', role)}
            raise TranslateError(f'{self.fn.name}: line {e.lineno}: attribute chain too deep: {ast.unparse(e)}')
        if ch is not None and ch[0] == 'self':
            return set()
        if isinstance(e, ast.Name):
            if e.id in self.recvars and e.id not in self.assigns:
                return set()
            if e.id in seen:
                return set()
            out: set[str] = set()
            for v, st in self.assigns.get(e.id, []):
                out |= self.W(v, role, seen | {e.id})
                if isinstance(st, ast.AugAssign):
                    for c in self.live.conds(st):
                        out |= self.W(c, role, seen | {e.id})
            return out
        if isinstance(e, ast.Call):
            f = ast.unparse(e.func)
            if f == 'len' and len(e.args) == 1:
                a = e.args[0]
                ch = self.attr_chain(a)
                if ch is not None and ch[1]:
                    return self.W(a, role or ':count', seen)
                return self.W(a, role or ':first', seen)
            if f == 'map' and len(e.args) == 2:
                return self.W(e.args[1], role, seen) if not isinstance(e.args[0], ast.Name) or e.args[0].id not in self.binders \
                    else self.W(e.args[1], role or (':first' if self.binders[e.args[0].id] == 'find_or_extend' else ':ref'), seen)
            if isinstance(e.func, ast.Name):
                if e.func.id in self.binders:
                    r = ':first' if self.binders[e.func.id] == 'find_or_extend' else ':ref'
                    return set().union(*[self.W(a, role or r, seen) for a in e.args]) if e.args else set()
                if e.func.id in PASSTHROUGH:
                    return set().union(*[self.W(a, role, seen) for a in e.args]) if e.args else set()
                if e.func.id in self.params or e.func.id in self.assigns:
                    return set().union(*[self.W(a, role or ':ref', seen) for a in e.args]) if e.args else set()
            if isinstance(e.func, ast.Attribute) and e.func.attr in ('pack',) or f == 'struct.pack':
                return set()
            if isinstance(e.func, ast.Attribute) and e.func.attr in STR_METHODS and not e.args and not e.keywords:
                # name.casefold() and the like: still (a function of) that attribute
                return self.W(e.func.value, role, seen)
            raise TranslateError(f'{self.fn.name}: line {e.lineno}: call not recognised in a packed value: {ast.unparse(e)[:60]}')
        if isinstance(e, ast.Subscript):
            if isinstance(e.value, ast.Name) and e.value.id not in self.recvars:
                return self.W(e.slice, role or ':ref', seen) | set()
            return self.W(e.value, role, seen)
        if isinstance(e, (ast.ListComp, ast.GeneratorExp)):
            return set().union(*[self.W(g.iter, role, seen) for g in e.generators])
        if isinstance(e, ast.Dict):
            return set().union(*[self.W(x, role, seen) for x in list(e.keys) + list(e.values) if x is not None]) if e.keys else set()
        if isinstance(e, ast.Compare) and len(e.ops) == 1 and isinstance(e.ops[0], (ast.In, ast.NotIn)) \
                and isinstance(e.comparators[0], ast.Name) and e.comparators[0].id not in self.recvars:
            # `key in table`: the same look-up as table[key]
            return self.W(e.left, role or ':ref', seen)
        if isinstance(e, (ast.BinOp, ast.UnaryOp, ast.BoolOp, ast.Compare, ast.IfExp, ast.Tuple, ast.List)):
            if isinstance(e, ast.BinOp) and isinstance(e.op, (ast.BitAnd, ast.Mod)):
                self.masked.append(f'{self.fn.name}:{e.lineno}: {ast.unparse(e)[:60]}')
            out = set()
            for c in ast.iter_child_nodes(e):
                if isinstance(c, ast.expr):
                    out |= self.W(c, role, seen)
            return out
        raise TranslateError(f'{self.fn.name}: line {getattr(e, "lineno", 0)}: expression not recognised in a packed value: {ast.unparse(e)[:60]}')

    def is_constant(self, e: ast.AST) -> bool:
        """A literal, or a local whose every live assignment is a literal."""
        if isinstance(e, ast.Constant):
            return True
        if isinstance(e, ast.Name) and e.id in self.assigns:
            return all(isinstance(v, ast.Constant) for v, _ in self.assigns[e.id])
        return False

    def arity(self, e: ast.AST) -> list[str]:
        """Labels of the components of a starred attribute, from the class annotation."""
        ch = self.attr_chain(e)
        if ch is None or len(ch[1]) != 1:
            raise TranslateError(f'{self.fn.name}: line {e.lineno}: starred argument is not an attribute of the record')
        attr = ch[1][0]
        mro = self.live.flags.get('mro')
        types = {c[attr] for cn, c in self.ann.items() if attr in c and (mro is None or cn in mro)}
        if len(types) != 1:
            raise TranslateError(f'{self.fn.name}: attribute `{attr}` has no unique annotation ({sorted(types)})')
        t = types.pop()
        if t == 'Vec':
            return [f'{attr}.{c}' for c in XYZ]
        if t.startswith('tuple[') and '...' not in t:
            k = len(ast.parse(t, mode='eval').body.slice.elts)        # type: ignore[attr-defined]
            return [f'{attr}[{i}]' for i in range(k)]
        raise TranslateError(f'{self.fn.name}: starred attribute `{attr}` of type {t} has no fixed length')

    def expand_args(self, args: list[ast.AST]) -> list[ast.AST | str]:
        out: list[ast.AST | str] = []
        for a in args:
            if isinstance(a, ast.Starred):
                v = a.value
                if isinstance(v, ast.Name) and v.id in self.assigns:
                    elems: list[ast.AST] | None = None
                    for val, st in sorted(self.assigns[v.id], key=lambda p: p[1].lineno):
                        if not isinstance(val, ast.Tuple):
                            raise TranslateError(f'{self.fn.name}: line {st.lineno}: `{v.id}` is starred into a pack call but is not a tuple literal')
                        new: list[ast.AST] = []
                        for el in val.elts:
                            if isinstance(el, ast.Starred) and isinstance(el.value, ast.Name) and el.value.id == v.id:
                                if elems is None:
                                    raise TranslateError(f'{self.fn.name}: line {st.lineno}: `*{v.id}` before its definition')
                                new += elems
                            else:
                                new.append(el)
                        elems = new
                    out += self.expand_args(elems or [])
                else:
                    out += self.arity(v)
            else:
                out.append(a)
        return out


MASKED: list[str] = []


def writer_slots(fn: ast.FunctionDef, site: dict, flags: dict[str, bool], ann: dict[str, dict[str, str]]) -> list[list[str]]:
    wr = Writer(fn, flags, ann)
    if site['call'] == 'struct.pack':
        calls = [site['node']]
        args_of = lambda c: c.args[1:]      # noqa: E731
    else:
        calls = F._pack_calls(site['owner'], site)
        args_of = lambda c: c.args          # noqa: E731
    if site['owner'] is not fn:
        raise TranslateError(f'{fn.name}: record pack site lives in a helper function; not supported for field orders')
    calls = [c for c in calls if wr.live.is_live(c)]
    if len(calls) != 1:
        raise TranslateError(f'{fn.name}: line {site["line"]}: expected exactly one live pack call under {flags}, found {len(calls)}')
    out = []
    for a in wr.expand_args(list(args_of(calls[0]))):
        if isinstance(a, str):
            out.append([a])
            continue
        t = sorted(wr.W(a, '', frozenset()))
        if not t and 'mro' in flags and wr.is_constant(a):
            t = [CONST]
        if not t:
            raise TranslateError(f'{fn.name}: line {a.lineno}: packed value `{ast.unparse(a)[:50]}` mentions no attribute of the record')
        out.append(t)
    MASKED.extend(m for m in wr.masked if m not in MASKED)
    return out


def pack_call_census(fns: dict[str, ast.FunctionDef], helpers: dict[str, ast.FunctionDef], sites: dict[str, list[dict]],
                     helper_sites: dict[str, list[dict]]) -> int:
    """Every call that turns values into bytes inside a lump function must be one of the sites of the format census
    (struct.pack / write_array / defer with a recognised format, or .pack() on a recognised layout entry or Struct).
    Anything else (an unknown `.pack(`, `pack_into`, `int.to_bytes`) fails closed."""
    n = 0
    for name, f in list(fns.items()) + list(helpers.items()):
        if name in F.CONTAINER_FUNCS:
            continue
        known: set[int] = set()
        for s in (sites.get(name, []) if name in fns else helper_sites.get(name, [])):
            if 'via' in s:
                continue
            if s['call'] == 'struct.pack':
                known.add(id(s['node']))
            elif s['call'] in ('layout', 'struct.Struct'):
                for c in F._pack_calls(s['owner'], s):
                    known.add(id(c))
        for c in ast.walk(f):
            if not isinstance(c, ast.Call):
                continue
            fu = ast.unparse(c.func)
            is_pack = fu in ('struct.pack', 'struct.pack_into') or \
                (isinstance(c.func, ast.Attribute) and c.func.attr in ('pack', 'pack_into', 'to_bytes'))
            if not is_pack:
                continue
            n += 1
            if id(c) not in known:
                raise TranslateError(f'{name}: line {c.lineno}: `{fu}(...)` produces bytes but is not a site of the format census')
    return n


# ------------------------------------------------------------------------------------------------ bit packing constants
def shift_constants(fns: dict[str, ast.FunctionDef], fold: F.Folder) -> dict[str, Any]:
    """The constants of the fields that share one integer: reader mask / shift and writer shift / guard."""
    out: dict[str, Any] = {}

    def ints(fn: ast.FunctionDef, pred) -> list[ast.AST]:
        return [n for n in ast.walk(fn) if pred(n)]
    # overlays: face_ro & ((1 << K) - 1), face_ro >> K ; writer: render_order << K | face_cnt, guard face_cnt <= OVERLAY_FACE_COUNT
    ro = fns['_lmp_read_overlays']
    wo = fns['_lmp_write_overlays']
    r_shift = [fold.fold(n.right) for n in ast.walk(ro) if isinstance(n, ast.BinOp) and isinstance(n.op, ast.RShift)]
    r_mask = [fold.fold(n.right.left.right) for n in ast.walk(ro) if isinstance(n, ast.BinOp) and isinstance(n.op, ast.BitAnd)
              and isinstance(n.right, ast.BinOp) and isinstance(n.right.op, ast.Sub) and isinstance(n.right.left, ast.BinOp)
              and isinstance(n.right.left.op, ast.LShift) and ast.unparse(n.right.left.left) == '1' and ast.unparse(n.right.right) == '1']
    w_shift = [fold.fold(n.right) for n in ast.walk(wo) if isinstance(n, ast.BinOp) and isinstance(n.op, ast.LShift)]
    if len(r_shift) != 1 or len(r_mask) != 1 or len(w_shift) != 1:
        raise TranslateError('overlays: render-order shift / mask constants not found exactly once on each side')
    out['overlay'] = (r_shift[0], r_mask[0], w_shift[0])
    # faces: prim_num & M, prim_num & B ; writer: guard prim_count > M', prim_count |= B'
    rf = fns['_read_faces_common']
    wf = fns['_write_faces_common']
    r_and = sorted({fold.fold(n.right) for n in ast.walk(rf) if isinstance(n, ast.BinOp) and isinstance(n.op, ast.BitAnd)
                    and isinstance(n.right, ast.Constant)})
    w_or = [fold.fold(n.value) for n in ast.walk(wf) if isinstance(n, ast.AugAssign) and isinstance(n.op, ast.BitOr) and isinstance(n.value, ast.Constant)]
    w_guard = [fold.fold(n.test.comparators[0]) for n in ast.walk(wf) if isinstance(n, ast.If) and isinstance(n.test, ast.Compare)
               and ast.unparse(n.test.left) == 'prim_count' and isinstance(n.test.ops[0], ast.Gt) and n.body and isinstance(n.body[-1], ast.Raise)]
    if len(r_and) != 2 or len(w_or) != 1 or len(w_guard) != 1:
        raise TranslateError('faces: primitive count mask / flag constants not found')
    out['face_prims'] = (r_and[0], r_and[1], w_guard[0], w_or[0])      # reader count mask, reader flag bit, writer max count, writer flag bit
    # leafs: both sides must use the layout's LEAF_AREA_OFFSET (and nothing else) as the shift
    rl = fns['_lmp_read_visleafs']
    wl = fns['_lmp_write_visleafs']

    def shifts(fn: ast.FunctionDef, op: type) -> list[str]:
        return [ast.unparse(n.right) for n in ast.walk(fn) if isinstance(n, ast.BinOp) and isinstance(n.op, op)
                and ast.unparse(n.left) != '1']
    key = "self.lump_layout['LEAF_AREA_OFFSET']"
    masks = [ast.unparse(n.right) for n in ast.walk(rl) if isinstance(n, ast.BinOp) and isinstance(n.op, ast.BitAnd)]
    out['leaf_area_shift_from_layout'] = (shifts(rl, ast.RShift) == [key] and shifts(wl, ast.LShift) == [key]
                                          and masks == [f'(1 << {key}) - 1'])
    # brush sides: bevel & 1, bevel & ~1 ; writer is_bevel_plane | bits
    rb = fns['_lmp_read_brushes']
    b_and = sorted(ast.unparse(n.right) for n in ast.walk(rb) if isinstance(n, ast.BinOp) and isinstance(n.op, ast.BitAnd))
    out['bevel_masks_complementary'] = b_and == ['1', '~1']
    return out


# ------------------------------------------------------------------------------------------------ main
def class_tables(tree: ast.Module) -> tuple[dict[str, list[str]], dict[str, dict[str, str]]]:
    """attrs classes of the module: positional constructor fields (inherited first) and their annotations."""
    raw: dict[str, tuple[list[str], list[tuple[str, str]]]] = {}
    for n in tree.body:
        if isinstance(n, ast.ClassDef) and any('attrs.define' in ast.unparse(d) or 'attrs.frozen' in ast.unparse(d) for d in n.decorator_list):
            own = [(s.target.id, ast.unparse(s.annotation)) for s in n.body if isinstance(s, ast.AnnAssign) and isinstance(s.target, ast.Name)]
            raw[n.name] = ([ast.unparse(b) for b in n.bases], own)
    fields: dict[str, list[str]] = {}
    ann: dict[str, dict[str, str]] = {}

    def full(c: str) -> list[tuple[str, str]]:
        bases, own = raw[c]
        out: list[tuple[str, str]] = []
        for b in bases:
            if b in raw:
                out += full(b)
        return out + own
    for c in raw:
        fl = full(c)
        fields[c] = [f for f, _ in fl]
        ann[c] = {f: t.strip('\'"') for f, t in fl}
    return fields, ann


def generate(tree: ast.Module) -> tuple[str, dict]:
    consts: dict[str, Any] = {}
    for n in tree.body:
        if isinstance(n, ast.Assign) and len(n.targets) == 1 and isinstance(n.targets[0], ast.Name) \
                and isinstance(n.value, ast.Constant) and isinstance(n.value.value, (str, int)) and not isinstance(n.value.value, bool):
            consts[n.targets[0].id] = n.value.value
    fold = F.Folder(consts)
    bsp_cls = next((n for n in tree.body if isinstance(n, ast.ClassDef) and n.name == 'BSP'), None)
    if bsp_cls is None:
        raise TranslateError('class BSP not found')
    fns = {f.name: f for f in bsp_cls.body if isinstance(f, ast.FunctionDef)}
    helpers = {f.name: f for f in tree.body if isinstance(f, ast.FunctionDef)}
    helper_sites = {name: hs for name, f in helpers.items() if (hs := F.census(f, fold))}
    sites = {name: s for name, f in fns.items() if (s := F.census(f, fold, helper_sites))}
    streams = {name: (ralts, walts) for name, _a, ralts, walts in F.STREAMS}
    classes, ann = class_tables(tree)

    lines = []
    MASKED.clear()
    side: dict[str, Any] = {'records': {}}
    for rname, sname, flags, lays in RECORDS:
        if sname not in streams:
            raise TranslateError(f'record {rname}: stream {sname} is not in the pairing table')
        ralts, walts = streams[sname]
        rs: list[list[str]] = []
        for fn, k in ralts[0]:
            if fn not in sites or k >= len(sites[fn]):
                raise TranslateError(f'record {rname}: reader site {fn}#{k} does not exist')
            rs += reader_slots(fns[fn], sites[fn][k], flags, classes)
        ws: list[list[str]] = []
        for fn, k in walts[0]:
            if fn not in sites or k >= len(sites[fn]):
                raise TranslateError(f'record {rname}: writer site {fn}#{k} does not exist')
            ws += writer_slots(fns[fn], sites[fn][k], flags, ann)
        side['records'][rname] = {'stream': sname, 'layouts': lays, 'read': rs, 'write': ws}

        def cl(slots: list[list[str]]) -> str:
            return '[' + '; '.join('[' + '; '.join(F.coq_s(t) for t in s) + ']' for s in slots) + ']'
        lines.append(f'  ({F.coq_s(rname)}, {F.coq_s(sname)}, [{"; ".join(F.coq_s(x) for x in lays)}],\n    {cl(rs)},\n    {cl(ws)})')
    side['pack_calls_in_census'] = pack_call_census(fns, helpers, sites, helper_sites)
    side['masked_before_pack'] = list(MASKED)
    sc = shift_constants(fns, fold)
    # every value a VisLeafFlags member can take (explicit members; add_unknown(locals(), n) names all bits below n)
    flag_vals: list[int] = []
    fcls = next((n for n in tree.body if isinstance(n, ast.ClassDef) and n.name == 'VisLeafFlags'), None)
    if fcls is None:
        raise TranslateError('class VisLeafFlags not found')
    for st in fcls.body:
        if isinstance(st, ast.Expr) and isinstance(st.value, ast.Constant) and isinstance(st.value.value, str):
            continue
        if isinstance(st, ast.Assign) and isinstance(st.value, ast.Constant) and isinstance(st.value.value, int):
            flag_vals.append(st.value.value)
        elif isinstance(st, ast.Expr) and isinstance(st.value, ast.Call) and ast.unparse(st.value.func) == 'add_unknown' \
                and len(st.value.args) == 2 and isinstance(st.value.args[1], ast.Constant):
            flag_vals.append((1 << st.value.args[1].value) - 1)
        else:
            raise TranslateError(f'VisLeafFlags: line {st.lineno}: member not recognised')
    side['leaf_flag_values'] = flag_vals
    side['bit_packing'] = {k: (list(v) if isinstance(v, tuple) else v) for k, v in sc.items()}
    o = sc['overlay']
    fp = sc['face_prims']
    text = '\n'.join([
        '(* record name, stream, layouts it applies to, labels of every slot on the reading side, on the writing side *)',
        'Definition records : list record := [', ';\n'.join(lines), '].',
        '(* fields sharing one integer: overlay (reader shift, reader mask bits, writer shift); faces primitive count',
        '   (reader count mask, reader flag mask, writer largest count, writer flag bit) *)',
        f'Definition overlay_bits : nat * nat * nat := ({o[0]}%nat, {o[1]}%nat, {o[2]}%nat).',
        f'Definition face_prim_bits : N * N * N * N := ({fp[0]}%N, {fp[1]}%N, {fp[2]}%N, {fp[3]}%N).',
        '(* pack arguments of the records above that apply `&` or `%` to a value (silent narrowing before struct can reject) *)',
        'Definition masked_before_pack : list string := [' + '; '.join(F.coq_s(m.replace('"', "'")) for m in MASKED) + '].',
        '(* detail-prop record variants: class, type codes assumed for the reader\'s branch *)',
        'Definition detail_record_codes : list (string * list nat) := [' + '; '.join(
            f'({F.coq_s(fl["mro"][0])}, [{"; ".join(str(c) + "%nat" for c in fl["type_codes"])}])' for _n, _s, fl, _l in RECORDS if 'mro' in fl) + '].',
        f'Definition pack_calls_in_census : nat := {side["pack_calls_in_census"]}%nat.',
        f'Definition leaf_flag_values : list N := [{"; ".join(str(v) for v in flag_vals)}]%N.',
        f'Definition leaf_area_shift_from_layout : bool := {"true" if sc["leaf_area_shift_from_layout"] else "false"}.',
        f'Definition bevel_masks_complementary : bool := {"true" if sc["bevel_masks_complementary"] else "false"}.',
    ])
    return text, side
