"""C08 translator: census of ID acquisition and release sites in vmf.py / instancing.py -> Gen/IdSites_gen.v.

Fail-closed: any `.discard`/`.remove`/`.get_id`/`.clear` call on an `*_id` manager attribute, and any store to an
`.id` attribute, must be classified; anything else raises TranslateError.

Round 2: census of the map argument at every constructor call and nested `.copy()` call inside the `copy` methods of
the ID-bearing classes and inside `instancing.collapse_one` (does the copy allocate in the destination map?), and the
shape of the nav-node ('nodeid') handling (re-allocation in add_ent/add_ents, release in remove_ent, release by the
destructor).
"""
from __future__ import annotations

import ast

from harness.common import TranslateError, src_text, ast_digest, SRC
from translate import c08_keys, c08_norm, c08_parse, c08_ctor

KINDS = {'ent_id': 'KEnt', 'solid_id': 'KSolid', 'face_id': 'KFace', 'group_id': 'KGroup', 'vis_id': 'KVis',
         'node_id': 'KNode'}
# Functions that take an object out of the map (the object stays usable afterwards).
REMOVE_FUNCS = {'remove_ent', 'remove_brush', 'remove'}


def _enclosing(tree: ast.AST):
    """Yield (class_name, func_name, node) for every node inside a function."""
    def walk(node, cls, fn):
        for ch in ast.iter_child_nodes(node):
            if isinstance(ch, ast.ClassDef):
                yield from walk(ch, ch.name, None)
            elif isinstance(ch, (ast.FunctionDef, ast.AsyncFunctionDef)):
                yield from walk(ch, cls, ch.name if fn is None else fn)
            else:
                yield cls, fn, ch
                yield from walk(ch, cls, fn)
    yield from walk(tree, None, None)


def _enclosing_fn(node: ast.AST, parents: dict[int, ast.AST]):
    while node is not None and not isinstance(node, (ast.FunctionDef, ast.AsyncFunctionDef)):
        node = parents.get(id(node))
    return node


def _manager_escapes(rel: str, tree: ast.Module, parents: dict[int, ast.AST]) -> None:
    """Fail-closed: an ID manager may only be the receiver of a method call (those calls are what the census
    classifies), be created in VMF.__init__, or be read (membership, len, iteration).  A manager that is bound to
    a local name, passed to a function, stored or returned could be released through the alias without the census
    seeing it.  Attributes of the same name that a class declares as a plain field (Solid.group_id: an integer)
    are not managers."""
    fields = {c.name: {st.target.id for st in c.body if isinstance(st, ast.AnnAssign) and isinstance(st.target, ast.Name)
                       and 'IDMan' not in ast.unparse(st.annotation)}
              for c in ast.walk(tree) if isinstance(c, ast.ClassDef)}
    for cls, fn, node in _enclosing(tree):
        if not (isinstance(node, ast.Attribute) and node.attr in KINDS):
            continue
        if node.attr in fields.get(cls, ()) and isinstance(node.value, ast.Name) and node.value.id == 'self':
            continue
        p = parents.get(id(node))
        if isinstance(node.ctx, ast.Store):
            if cls == 'VMF' and fn == '__init__' and isinstance(p, ast.Assign) and isinstance(p.value, ast.Call):
                continue
            raise TranslateError(f'{rel}:{node.lineno}: the ID manager `{ast.unparse(node)}` is replaced outside VMF.__init__')
        if isinstance(node.ctx, ast.Del):
            raise TranslateError(f'{rel}:{node.lineno}: the ID manager `{ast.unparse(node)}` is deleted')
        if isinstance(p, ast.Attribute) and p.value is node:
            pp = parents.get(id(p))
            if isinstance(pp, ast.Call) and pp.func is p:
                continue            # a method call on the manager: classified by the census
        if isinstance(p, ast.Compare) and any(node is c for c in p.comparators) and all(isinstance(o, (ast.In, ast.NotIn)) for o in p.ops):
            continue
        if isinstance(p, ast.Call) and isinstance(p.func, ast.Name) and p.func.id in ('len', 'sorted', 'list', 'set', 'frozenset', 'iter', 'max', 'min') \
                and len(p.args) == 1 and p.args[0] is node and not p.keywords:
            continue
        if isinstance(p, (ast.For, ast.comprehension)) and p.iter is node:
            continue
        raise TranslateError(f'{rel}:{node.lineno}: the ID manager `{ast.unparse(node)}` is bound to a name, passed on or stored: '
                             'releases through the alias could not be classified')


def translate() -> tuple[str, dict]:
    releases: list[tuple[str, str, str, int]] = []   # kind, site, func, line
    pending: list[tuple[str, str, str, int]] = []    # discard/remove calls on a manager: kind, class, func, line
    acquires: list[tuple[str, str, int]] = []
    id_stores: list[tuple[str, int, bool]] = []
    side: dict = {'files': {}}
    fix_pos = None
    fix_defer = None
    fix_start = None
    lower_guard = None
    class_kind: list[tuple[str, int, bool]] = []
    EXPECT = {'Side': {'KFace'}, 'Solid': {'KSolid'}, 'Entity': {'KEnt', 'KNode'}, 'VisGroup': {'KVis'}, 'EntityGroup': {'KGroup'}}
    trees = {}
    parents_of: dict[str, dict] = {}
    for rel in ('vmf.py', 'instancing.py'):
        tree = trees[rel] = ast.parse(src_text(rel))
        parents_of[rel] = c08_keys.parent_map(tree)
        _manager_escapes(rel, tree, parents_of[rel])
        for cls, fn, node in _enclosing(tree):
            # calls on managers
            if isinstance(node, ast.Call) and isinstance(node.func, ast.Attribute) \
                    and isinstance(node.func.value, ast.Attribute) and node.func.value.attr in KINDS:
                kind = KINDS[node.func.value.attr]
                meth = node.func.attr
                if cls in EXPECT and meth in ('discard', 'remove', 'get_id'):
                    class_kind.append((f'{cls}.{fn}:{meth}:{kind}', node.lineno, kind in EXPECT[cls]))
                if meth in ('discard', 'remove'):
                    pending.append((kind, cls, fn, node.lineno))
                elif meth == 'get_id':
                    acquires.append((kind, f'{cls}.{fn}', node.lineno))
                elif meth in ('clear',):
                    releases.append((kind, 'SOther', f'{cls}.{fn}', node.lineno))
                elif meth in ('__contains__', '__len__', '__iter__'):
                    pass
                else:
                    raise TranslateError(f'{rel}:{node.lineno}: unknown IDMan method {meth}')
            # stores to .id
            if isinstance(node, ast.Assign):
                for tgt in node.targets:
                    if isinstance(tgt, ast.Attribute) and tgt.attr == 'id' and rel == 'vmf.py' and cls not in ('FixupValue', None):
                        v = node.value
                        if isinstance(v, ast.Name):      # `new_id = <manager>.get_id(..)` ... `self.id = new_id`
                            encl = _enclosing_fn(node, parents_of[rel])
                            v = (c08_norm.single_assignment(encl, v.id) if encl is not None else None) or v
                        ok = (isinstance(v, ast.Call) and isinstance(v.func, ast.Attribute) and v.func.attr == 'get_id'
                              and isinstance(v.func.value, ast.Attribute) and v.func.value.attr in KINDS)
                        id_stores.append((f'{cls}.{fn}', node.lineno, ok))
                    elif isinstance(tgt, (ast.Tuple, ast.List)) and rel == 'vmf.py' and cls not in ('FixupValue', None) \
                            and any(isinstance(e, ast.Attribute) and e.attr == 'id' for e in ast.walk(tgt)):
                        id_stores.append((f'{cls}.{fn} (unpacking)', node.lineno, False))
            if isinstance(node, (ast.AugAssign, ast.AnnAssign)) and isinstance(node.target, ast.Attribute) and node.target.attr == 'id' \
                    and rel == 'vmf.py' and cls not in ('FixupValue', None):
                id_stores.append((f'{cls}.{fn} (in-place)', node.lineno, False))
        side['files'][rel] = {'n_release': len(releases) + len(pending), 'n_acquire': len(acquires)}
        if rel == 'vmf.py':
            # IDMan digest (hand-modelled; a change escalates the correspondence budget)
            for n in tree.body:
                if isinstance(n, ast.ClassDef) and n.name == 'IDMan':
                    side['idman_digest'] = ast_digest(n)
                    lower_guard = _lower_guard(n)
                if isinstance(n, ast.ClassDef) and n.name == 'EntityFixup':
                    for f in n.body:
                        if isinstance(f, ast.FunctionDef) and f.name == '__init__':
                            fix_pos, fix_defer = _fixup_init_shape(f)
                        if isinstance(f, ast.FunctionDef) and f.name == '__setitem__':
                            fix_start = _fixup_set_start(f)
    # A release inside a helper is classified by the functions that (transitively) call the helper.
    callers: dict[str, set[tuple]] = {}
    for rel, tree in trees.items():
        for cls, fn, node in _enclosing(tree):
            if isinstance(node, ast.Call) and fn is not None:
                name = node.func.attr if isinstance(node.func, ast.Attribute) else node.func.id if isinstance(node.func, ast.Name) else None
                if name is not None and name != fn:
                    callers.setdefault(name, set()).add((cls, fn))

    def sites_of(kind, fn, seen, depth=0) -> set[str]:
        if fn == '__del__':
            return {'SDel'}
        if fn in REMOVE_FUNCS:
            return {'SRemoveFromMap'}
        if fn in ('__setitem__', '__delitem__', 'pop', 'popitem', 'clear') and kind == 'KNode':
            return {'SKeyEdit'}
        cs = {c for c in callers.get(fn, set()) if c[1] not in seen}
        if not cs or depth >= 3 or not fn.startswith('_'):      # only private helpers are resolved through their callers
            return {'SOther'}
        out: set[str] = set()
        for _, f2 in sorted(cs, key=str):
            out |= sites_of(kind, f2, seen | {f2}, depth + 1)
        return out
    rel_rows = []
    for kind, cls, fn, line in pending:
        for site in sorted(sites_of(kind, fn, {fn})):
            rel_rows.append((kind, site, f'{cls}.{fn}', line))
    releases = rel_rows + releases          # `.clear()` rows collected above stay SOther
    if fix_pos is None or fix_start is None:
        raise TranslateError('EntityFixup.__init__/__setitem__ not recognised')
    if 'idman_digest' not in side:
        raise TranslateError('class IDMan not found')
    # the managers are not touched by any other module (fail-closed: such a module would have to join the census)
    for path in sorted(SRC.rglob('*.py')):
        rel = path.relative_to(SRC).as_posix()
        if rel in trees:
            continue
        text = path.read_text(encoding='utf8')
        if any('.' + a in text for a in KINDS if a != 'group_id'):
            for n in ast.walk(ast.parse(text)):
                if isinstance(n, ast.Attribute) and n.attr in KINDS and n.attr != 'group_id':
                    raise TranslateError(f'{rel}:{n.lineno}: `{ast.unparse(n)}`: an ID manager is used outside vmf.py / instancing.py, '
                                         'which the census does not cover')
    copy_rows = _copy_census(trees['vmf.py'], trees['instancing.py'])
    node_realloc, node_in_del = _node_shape(trees['vmf.py'], acquires, releases)
    # round 3: every way a key can enter an entity's private keyvalue dictionary (all modules that mention it)
    key_trees = dict(trees)
    for path in sorted(SRC.rglob('*.py')):
        rel = path.relative_to(SRC).as_posix()
        if rel not in key_trees and '._keys' in path.read_text(encoding='utf8'):
            key_trees[rel] = ast.parse(path.read_text(encoding='utf8'))
    key_rows, key_exposed, key_reads = c08_keys.keys_census(key_trees)
    node_registers = c08_keys.node_setitem_registers(trees['vmf.py'])
    fx_rows, fx_exposed, fx_reads = c08_keys.fixup_census(trees)
    # round 4: VMF.parse as a program (the steps that touch entity / brush / face IDs, in source order)
    parse_prog, parse_side = c08_parse.parse_program(trees['vmf.py'])
    # round 4: constructor calls outside copy() (make_prism-style helpers, parse classmethods, readers in other modules)
    ctor_trees = dict(trees)
    for path in sorted(SRC.rglob('*.py')):
        rel = path.relative_to(SRC).as_posix()
        text = path.read_text(encoding='utf8')
        if rel not in ctor_trees and any(c + '(' in text for c in c08_parse.ID_CLASSES):
            ctor_trees[rel] = ast.parse(text)
    ctor_rows = c08_parse.ctor_census(ctor_trees)
    man_ok, man_side = c08_parse.manager_choice(trees['vmf.py'])
    # round 5: the constructor of every ID-bearing class as a step list + the shape of its destructor
    ctor_step_rows = c08_ctor.ctor_steps(trees['vmf.py'])
    shallow_rows = c08_ctor.shallow_copy_rows(trees['vmf.py'], ctor_step_rows)
    lines = [
        '(* GENERATED by translate/c08_sites.py from /repo/src/srctools/vmf.py, instancing.py. Do not edit. *)',
        'From Coq Require Import ZArith List String.', 'Import ListNotations.', 'Open Scope string_scope.',
        'Inductive kind := KEnt | KSolid | KFace | KGroup | KVis | KNode.',
        'Inductive site := SDel | SRemoveFromMap | SKeyEdit | SOther.',
        'Definition release_sites : list (kind * site * string) := [',
        ';\n'.join(f'  ({k}, {s}, "{f}")' for k, s, f, _ in releases),
        '].',
        'Definition acquire_sites : list (kind * string) := [',
        ';\n'.join(f'  ({k}, "{f}")' for k, f, _ in acquires),
        '].',
        '(* every store to an object\'s .id attribute: is its right-hand side a get_id call on a manager? *)',
        'Definition id_stores : list (string * bool) := [',
        ';\n'.join(f'  ("{f}", {"true" if ok else "false"})' for f, _, ok in id_stores),
        '].',
        f'Definition idman_lower_guard : bool := {"true" if lower_guard else "false"}.',
        'Definition class_kind_sites : list (string * bool) := [',
        ';\n'.join(f'  ("{n}", {"true" if ok else "false"})' for n, _, ok in class_kind),
        '].',
        f'Definition fixup_init_requires_positive : bool := {"true" if fix_pos else "false"}.',
        f'Definition fixup_set_start : Z := {fix_start}%Z.',
        f'Definition fixup_init_defers_reinsertion : bool := {"true" if fix_defer else "false"}.',
        '(* the map argument of every constructor / nested copy() call inside copy() methods and collapse_one:',
        '   does the new object take its ID from the destination map? *)',
        'Definition copy_sites : list (kind * string * bool) := [',
        ';\n'.join(f'  ({k}, "{d}", {"true" if ok else "false"})' for k, d, ok, _ in copy_rows),
        '].',
        f'Definition node_realloc_on_add : bool := {"true" if node_realloc else "false"}.',
        f'Definition node_release_in_del : bool := {"true" if node_in_del else "false"}.',
        '(* every place that can put a key into an entity\'s private keyvalue dictionary: does it go through',
        '   Entity.__setitem__ (where the nodeid is registered) or provably not concern the nodeid key? *)',
        'Inductive kwsite := KwCtor | KwSetitem | KwOther.',
        'Definition keys_write_sites : list (string * string * kwsite * bool) := [',
        ';\n'.join('  ("%s", "%s", %s, %s)' % (f, d.replace('"', '""'), c, 'true' if ok else 'false') for f, d, c, ok, _ in key_rows),
        '].',
        f'Definition node_setitem_registers : bool := {"true" if node_registers else "false"}.',
        '(* every place that can put a value into the index table of an EntityFixup: the constructor\'s accepting store and',
        '   the lowest-unused-index store of __setitem__ (both recognised above), or an index-preserving duplicate *)',
        'Definition fixup_write_sites : list (string * string * kwsite * bool) := [',
        ';\n'.join('  ("%s", "%s", %s, %s)' % (f, d.replace('"', '""'), c, 'true' if ok else 'false') for f, d, c, ok, _ in fx_rows),
        '].',
        '(* the steps of VMF.parse that touch entity / brush / face IDs, in source order (interpreted by SM/IdNest.v TParse) *)',
        '(* constructor calls of ID-bearing classes outside copy(): is the map a parameter / self / a fresh VMF(), the same for the whole function? *)',
        'Definition helper_ctor_sites : list (string * string * bool) := [',
        ';\n'.join('  ("%s", "%s(%s)", %s)' % (w, c, a.replace('"', '""'), 'true' if ok else 'false') for w, c, a, ok, _ in ctor_rows),
        '].',
        f'Definition managers_are_idman_unless_preserve_ids : bool := {"true" if man_ok else "false"}.',
        'Inductive parse_step := GPPlaceholder | GPWorld | GPDropPlaceholder | GPEntities | GPReleasePlaceholder.',
        'Definition parse_steps : list parse_step := [' + '; '.join(parse_prog) + '].',
        *c08_ctor.coq_rows(ctor_step_rows),
        '(* copy.copy() of an object of an ID class whose destructor releases: does it go through copy() / the constructor? *)',
        'Definition shallow_copy_sites : list (kind * string * bool) := [',
        ';\n'.join('  (%s, "%s: %s", %s)' % (k, c, d.replace('"', '""'), 'true' if ok else 'false') for k, c, ok, d in shallow_rows),
        '].',
        '',
    ]
    side.update(releases=[list(r) for r in releases], acquires=[list(a) for a in acquires],
                id_stores=[list(s) for s in id_stores], fixup_init_requires_positive=fix_pos, fixup_set_start=fix_start, fixup_init_defers=fix_defer,
                idman_lower_guard=lower_guard, class_kind=[list(c) for c in class_kind],
                copy_sites=[list(c) for c in copy_rows], node_realloc_on_add=node_realloc, node_release_in_del=node_in_del,
                keys_write_sites=[list(r) for r in key_rows], keys_exposed=key_exposed, keys_read_sites=key_reads,
                node_setitem_registers=node_registers,
                fixup_write_sites=[list(r) for r in fx_rows], fixup_exposed=fx_exposed, fixup_read_sites=fx_reads,
                node_copy_registers=all(ok for _, _, c, ok, _ in key_rows if c == 'KwCtor'))
    side.update(parse_side)
    side.update(man_side)
    side['helper_ctor_sites'] = [list(r) for r in ctor_rows]
    side['ctor_classes'] = ctor_step_rows
    side['shallow_copy_sites'] = [list(r) for r in shallow_rows]
    return '\n'.join(lines), side


def _self_attr(node: ast.AST, attr: str) -> bool:
    return isinstance(node, ast.Attribute) and node.attr == attr and isinstance(node.value, ast.Name) and node.value.id == 'self'


def _params(f: ast.FunctionDef) -> list[str]:
    return [a.arg for a in f.args.posonlyargs + f.args.args][1:]


def _lower_guard(cls: ast.ClassDef) -> bool:
    """IDMan.discard / remove: is the hint lowered for every released element below it (False), or only for positive
    ones (True)?  Semantic: the conditions on the path to the single store to `self.search_pos` are normalised to atoms
    (`0 < e`, `e > 0`, `e >= 1`, nested ifs, either order, any parameter name, `min(self.search_pos, e)`)."""
    res = set()
    for f in cls.body:
        if isinstance(f, ast.FunctionDef) and f.name in ('discard', 'remove'):
            params = _params(f)
            if len(params) != 1:
                raise TranslateError(f'IDMan.{f.name}: expected one parameter, found {params}')
            env = {params[0]: '$e'}
            parents = c08_keys.parent_map(f)
            if any(isinstance(n, ast.AugAssign) and _self_attr(n.target, 'search_pos') for n in ast.walk(f)):
                raise TranslateError(f'IDMan.{f.name}: augmented assignment to the hint')
            stores = [n for n in ast.walk(f) if isinstance(n, ast.Assign) and any(_self_attr(t, 'search_pos') for t in n.targets)]
            if len(stores) != 1 or len(stores[0].targets) != 1:
                raise TranslateError(f'IDMan.{f.name}: expected exactly one store to the hint (line {f.lineno})')
            st = stores[0]
            atoms = set(c08_norm.path_condition(st, f, parents, env))
            v = st.value
            if c08_norm.canon(v, env) == '$e':
                pass
            elif isinstance(v, ast.Call) and isinstance(v.func, ast.Name) and v.func.id == 'min' and not v.keywords \
                    and sorted(c08_norm.canon(x, env) for x in v.args) == ['$e', 'self.search_pos']:
                atoms.add(('lt', '$e', 'self.search_pos'))
            else:
                raise TranslateError(f'IDMan.{f.name}: unrecognised new hint `{ast.unparse(v)}`')
            below = {('lt', '$e', 'self.search_pos'), ('le', '$e', 'self.search_pos')}
            if not atoms & below:
                raise TranslateError(f'IDMan.{f.name}: the hint is not only lowered')
            extra = atoms - below - {('pos', '$e')}
            if extra:
                raise TranslateError(f'IDMan.{f.name}: unrecognised extra condition on lowering the hint: {sorted(extra)}')
            res.add(('pos', '$e') in atoms)
    if len(res) != 1:
        raise TranslateError('IDMan.discard/remove: guards differ or are missing')
    return res.pop()


def _stores_into(stmts: list[ast.stmt], attr: str) -> list[ast.Assign]:
    return [n for st in stmts for n in ast.walk(st) if isinstance(n, ast.Assign)
            and any(isinstance(t, ast.Subscript) and _self_attr(t.value, attr) for t in n.targets)]


def _is_empty_call(v: ast.AST | None, names: tuple[str, ...]) -> bool:
    if isinstance(v, ast.Call) and isinstance(v.func, ast.Name) and v.func.id in names and not v.args and not v.keywords:
        return True
    return (isinstance(v, ast.List) and not v.elts and 'list' in names) or (isinstance(v, ast.Dict) and not v.keys and 'dict' in names)


def _fixup_init_shape(f: ast.FunctionDef) -> tuple[bool, bool]:
    """EntityFixup.__init__: (the acceptance test requires a positive index, refused values are re-inserted after the
    whole list has been scanned).  Independent of local names, of the order/spelling of the tests and of which branch
    of the decision comes first."""
    where = 'EntityFixup.__init__'
    params = _params(f)
    if not params:
        raise TranslateError(f'{where}: no parameter')
    src = params[0]

    def iter_is(e: ast.AST, name: str) -> bool:
        if isinstance(e, ast.Name):
            if e.id == name:
                return True
            v = c08_norm.single_assignment(f, e.id)
            return v is not None and iter_is(v, name)
        return (isinstance(e, ast.Call) and isinstance(e.func, ast.Name) and e.func.id in ('list', 'tuple', 'iter')
                and len(e.args) == 1 and not e.keywords and iter_is(e.args[0], name))
    first = [n for n in f.body if isinstance(n, ast.For) and iter_is(n.iter, src)]
    if len(first) != 1 or not isinstance(first[0].target, ast.Name) or first[0].orelse:
        raise TranslateError(f'{where}: first pass over the fixup list not found')
    loop = first[0]
    env = {loop.target.id: '$fix'}
    test, a, b = c08_norm.split_branches(loop.body, where)
    sa, sb = _stores_into(a, '_fixup'), _stores_into(b, '_fixup')
    if bool(sa) == bool(sb):
        raise TranslateError(f'{where}: cannot tell the accepting branch (line {loop.lineno})')
    atoms = c08_norm.conj_atoms(test, env, neg=not sa)
    acc, ref = (a, b) if sa else (b, a)
    seen = [x for x in atoms if x[0] == 'notin' and x[1] == '$fix.id']
    if len(seen) != 1:
        raise TranslateError(f'{where}: acceptance test without a single `index not in <seen>` condition: {sorted(atoms)}')
    # lower bounds on the index: `0 < i` / `i >= 1` (atom pos), or `K <= i` / `K < i` with an integer literal K
    bounds = []
    for x in atoms - {seen[0]}:
        if x == ('pos', '$fix.id'):
            bounds.append(1)
        elif x[0] in ('le', 'lt') and x[2] == '$fix.id' and x[1].lstrip('-').isdigit():
            bounds.append(int(x[1]) + (x[0] == 'lt'))
        else:
            raise TranslateError(f'{where}: unrecognised acceptance condition {x}')
    require_positive = bool(bounds) and max(bounds) >= 1
    seen_name = seen[0][2]
    if not _is_empty_call(c08_norm.single_assignment(f, seen_name), ('set',)):
        raise TranslateError(f'{where}: `{seen_name}` is not a local set that starts empty')
    # the accepting branch records the index and stores the value itself
    adds = [n for st in acc for n in ast.walk(st) if isinstance(n, ast.Call) and isinstance(n.func, ast.Attribute)
            and n.func.attr == 'add' and isinstance(n.func.value, ast.Name) and n.func.value.id == seen_name
            and len(n.args) == 1 and c08_norm.canon(n.args[0], env) == '$fix.id']
    if len(adds) != 1:
        raise TranslateError(f'{where}: the accepted index is not recorded in `{seen_name}`')
    store = (sa or sb)
    if len(store) != 1 or c08_norm.canon(store[0].value, env) != '$fix':
        raise TranslateError(f'{where}: the accepting branch does not store the value as it is')
    # the refusing branch
    if len(ref) != 1:
        raise TranslateError(f'{where}: unrecognised handling of refused indexes (line {ref[0].lineno if ref else loop.lineno})')
    st = ref[0]
    if isinstance(st, ast.Expr) and isinstance(st.value, ast.Call) and isinstance(st.value.func, ast.Attribute) \
            and st.value.func.attr == 'append' and isinstance(st.value.func.value, ast.Name) \
            and len(st.value.args) == 1 and c08_norm.canon(st.value.args[0], env) == '$fix':
        lst = st.value.func.value.id
        if not _is_empty_call(c08_norm.single_assignment(f, lst), ('list',)):
            raise TranslateError(f'{where}: `{lst}` is not a local list that starts empty')
        later = [n for n in f.body if isinstance(n, ast.For) and n.lineno > loop.lineno and iter_is(n.iter, lst)]
        if len(later) != 1 or not isinstance(later[0].target, ast.Name):
            raise TranslateError(f'{where}: refused values collected in `{lst}` are not re-inserted by a later loop')
        env2 = {later[0].target.id: '$fix'}
        sets = [x for x in later[0].body if isinstance(x, ast.Assign) and len(x.targets) == 1 and isinstance(x.targets[0], ast.Subscript)
                and isinstance(x.targets[0].value, ast.Name) and x.targets[0].value.id == 'self']
        if len(sets) != 1 or len(later[0].body) != 1 or c08_norm.canon(sets[0].targets[0].slice, env2) != '$fix.var':
            raise TranslateError(f'{where}: the later loop does not re-insert through self[<var>] = <value>')
        return require_positive, True
    if isinstance(st, ast.Assign) and len(st.targets) == 1 and isinstance(st.targets[0], ast.Subscript) \
            and isinstance(st.targets[0].value, ast.Name) and st.targets[0].value.id == 'self' \
            and c08_norm.canon(st.targets[0].slice, env) == '$fix.var':
        return require_positive, False
    raise TranslateError(f'{where}: unrecognised handling of refused indexes `{ast.unparse(st)}` (line {st.lineno})')


def _fixup_set_start(f: ast.FunctionDef) -> int:
    """EntityFixup.__setitem__: start value K of the lowest-unused-index search; the searched container must be the
    collection of the `.id`s of `self._fixup.values()`, and the counter must become the index of the new FixupValue."""
    where = 'EntityFixup.__setitem__'
    var, start, container, loop = c08_norm.search_loop(f, where)
    if isinstance(container, ast.Name):
        cdef = c08_norm.single_assignment(f, container.id)
        if cdef is None:
            raise TranslateError(f'{where}: searched container `{container.id}` is not a single-assignment local')
        container = cdef
    if isinstance(container, ast.Call) and isinstance(container.func, ast.Name) and container.func.id in ('set', 'frozenset', 'list', 'tuple') \
            and len(container.args) == 1 and not container.keywords:
        container = container.args[0]
    if not (isinstance(container, (ast.SetComp, ast.ListComp, ast.GeneratorExp)) and len(container.generators) == 1):
        raise TranslateError(f'{where}: searched container is not a comprehension over the stored values')
    g = container.generators[0]
    if g.ifs or not isinstance(g.target, ast.Name) or ast.unparse(g.iter) != 'self._fixup.values()' \
            or c08_norm.canon(container.elt, {g.target.id: '$v'}) != '$v.id':
        raise TranslateError(f'{where}: searched container is not the set of indexes in use')
    calls = [n for n in ast.walk(f) if isinstance(n, ast.Call) and isinstance(n.func, ast.Name) and n.func.id == 'FixupValue'
             and n.lineno >= loop.lineno]
    if len(calls) != 1:
        raise TranslateError(f'{where}: expected one FixupValue(...) after the search, found {len(calls)}')
    c = calls[0]
    idarg = c.args[2] if len(c.args) > 2 else next((k.value for k in c.keywords if k.arg == 'id'), None)
    if not (isinstance(idarg, ast.Name) and idarg.id == var):
        raise TranslateError(f'{where}: the new value does not take the searched index')
    return start


# ------------------------------------------------------------------------------------------------ copy census
ID_CLASSES = {'Entity': 'KEnt', 'Solid': 'KSolid', 'Side': 'KFace', 'VisGroup': 'KVis', 'EntityGroup': 'KGroup'}
# A nested copy of an object of the class also copies what it contains.
AFFECTS = {'Entity': ['KEnt', 'KSolid', 'KFace'], 'Solid': ['KSolid', 'KFace'], 'Side': ['KFace'],
           'VisGroup': ['KVis'], 'EntityGroup': ['KGroup']}
MAP_PARAMS = ('vmf_file', 'vmf', 'map')


def _id_containers(tree: ast.Module) -> dict[str, dict[str, str]]:
    """class -> {attribute: ID class of the elements}, from the class-level annotations `attr: list[...Cls...]`."""
    out: dict[str, dict[str, str]] = {}
    for n in tree.body:
        if not isinstance(n, ast.ClassDef):
            continue
        for st in n.body:
            if isinstance(st, ast.AnnAssign) and isinstance(st.target, ast.Name):
                ann = ast.unparse(st.annotation)
                if not (ann.startswith('list[') or ann.startswith('List[') or ann.startswith('dict[')):
                    continue
                for cls in ID_CLASSES:
                    if ann in (f'list[{cls}]', f"list['{cls}']", f'List[{cls}]', f"List['{cls}']",
                               f"dict[int, '{cls}']", f'dict[int, {cls}]'):
                        out.setdefault(n.name, {})[st.target.id] = cls
    return out


def _copy_signatures(tree: ast.Module) -> dict[str, tuple[ast.FunctionDef, str, int]]:
    """ID class -> (copy FunctionDef, name of its map parameter, positional index of that parameter)."""
    out = {}
    for n in tree.body:
        if isinstance(n, ast.ClassDef) and n.name in ID_CLASSES:
            for f in n.body:
                if isinstance(f, ast.FunctionDef) and f.name == 'copy':
                    params = [a.arg for a in f.args.args][1:]
                    mp = [p for p in params if p in MAP_PARAMS]
                    if len(mp) != 1:
                        raise TranslateError(f'{n.name}.copy: cannot identify the map parameter among {params}')
                    out[n.name] = (f, mp[0], params.index(mp[0]))
    missing = set(ID_CLASSES) - set(out)
    if missing:
        raise TranslateError(f'no copy() method found for {sorted(missing)}')
    return out


def _aliases(fn: ast.FunctionDef) -> dict[str, ast.AST]:
    """Local names assigned exactly once by a plain `name = expr` statement."""
    seen: dict[str, list[ast.AST]] = {}
    for n in ast.walk(fn):
        if isinstance(n, ast.Assign) and len(n.targets) == 1 and isinstance(n.targets[0], ast.Name):
            seen.setdefault(n.targets[0].id, []).append(n.value)
    return {k: v[0] for k, v in seen.items() if len(v) == 1}


def _is_forward(expr: ast.AST | None, param: str, aliases: dict[str, ast.AST] | None = None) -> bool:
    """Is `expr` the destination map: `param`, or `param or self.<map attr>` (possibly through one local name)?"""
    if expr is None:
        return False
    if aliases and isinstance(expr, ast.Name) and expr.id != param and expr.id in aliases:
        return _is_forward(aliases[expr.id], param)
    if isinstance(expr, ast.Name) and expr.id == param:
        return True
    if isinstance(expr, ast.BoolOp) and isinstance(expr.op, ast.Or) and len(expr.values) == 2:
        a, b = expr.values
        return (isinstance(a, ast.Name) and a.id == param and isinstance(b, ast.Attribute)
                and isinstance(b.value, ast.Name) and b.value.id == 'self' and b.attr in ('map', 'vmf'))
    return False


def _map_arg(call: ast.Call, index: int, names: tuple[str, ...]) -> ast.AST | None:
    for kw in call.keywords:
        if kw.arg in names:
            return kw.value
        if kw.arg is None:
            raise TranslateError(f'line {call.lineno}: **kwargs in a copy call')
    if any(isinstance(a, ast.Starred) for a in call.args):
        raise TranslateError(f'line {call.lineno}: *args in a copy call')
    return call.args[index] if len(call.args) > index else None


def _loop_bindings(fn: ast.FunctionDef) -> dict[str, ast.AST]:
    """Name -> iterable expression, for every `for name in it` statement and comprehension in the function."""
    out: dict[str, ast.AST] = {}
    for n in ast.walk(fn):
        if isinstance(n, ast.For) and isinstance(n.target, ast.Name):
            out[n.target.id] = n.iter
        elif isinstance(n, ast.comprehension) and isinstance(n.target, ast.Name):
            out[n.target.id] = n.iter
    return out


def _check_param_rebinding(cls: str, fn: ast.FunctionDef, param: str) -> None:
    """The map parameter of a copy() method may only be re-bound by `if <param> is None: <param> = self.<map>` (then the
    bare parameter still denotes the destination map); any other assignment to it is not understood."""
    parents = c08_keys.parent_map(fn)
    for n in ast.walk(fn):
        if isinstance(n, ast.Name) and n.id == param and isinstance(n.ctx, (ast.Store, ast.Del)):
            st = parents.get(id(n))
            guard = parents.get(id(st))
            ok = (isinstance(st, ast.Assign) and len(st.targets) == 1 and isinstance(st.value, ast.Attribute)
                  and isinstance(st.value.value, ast.Name) and st.value.value.id == 'self' and st.value.attr in ('map', 'vmf')
                  and isinstance(guard, ast.If) and any(st is x for x in guard.body)
                  and ast.unparse(guard.test) in (f'{param} is None', f'not {param}', f'{param} == None'))
            if not ok:
                raise TranslateError(f'{cls}.copy: the map parameter `{param}` is re-bound at line {n.lineno} in a way that is not understood')


def _resolve_iter(expr: ast.AST, fn: ast.FunctionDef, where: str) -> ast.Attribute:
    """The attribute a loop iterates over, through `list(..)`-like wrappers and single-assignment locals; fail-closed."""
    for _ in range(6):
        if isinstance(expr, ast.Attribute):
            return expr
        if isinstance(expr, ast.Call) and isinstance(expr.func, ast.Name) and expr.func.id in ('list', 'tuple', 'sorted', 'reversed', 'iter') \
                and expr.args:
            expr = expr.args[0]
            continue
        if isinstance(expr, ast.Call) and isinstance(expr.func, ast.Attribute) and expr.func.attr in ('values', 'copy') and not expr.args:
            expr = expr.func.value      # <dict>.values() / <list>.copy()
            continue
        if isinstance(expr, ast.Subscript) and isinstance(expr.slice, ast.Slice):
            expr = expr.value           # <list>[:]
            continue
        if isinstance(expr, ast.Name):
            v = c08_norm.single_assignment(fn, expr.id)
            if v is not None:
                expr = v
                continue
        break
    raise TranslateError(f'{where}: cannot tell what `{ast.unparse(expr)}` (line {getattr(expr, "lineno", "?")}) iterates over')


def _copy_census(vmf_tree: ast.Module, inst_tree: ast.Module) -> list[tuple[str, str, bool, int]]:
    """(kind, description, allocates in the destination map?, line) for every ID-relevant call in copy()/collapse_one."""
    cont = _id_containers(vmf_tree)
    sigs = _copy_signatures(vmf_tree)
    rows: list[tuple[str, str, bool, int]] = []
    for cls, (fn, param, _) in sigs.items():
        n_ctor = 0
        binds = _loop_bindings(fn)
        al = _aliases(fn)
        al.pop(param, None)
        _check_param_rebinding(cls, fn, param)
        # `if vmf is None: vmf = self.vmf` makes the bare parameter the destination map as well.
        for call in (n for n in ast.walk(fn) if isinstance(n, ast.Call)):
            f = call.func
            if isinstance(f, ast.Name) and f.id in ID_CLASSES:
                ok = _is_forward(_map_arg(call, 0, MAP_PARAMS), param, al)
                rows.append((ID_CLASSES[f.id], f'{cls}.copy: {f.id}(...)', ok, call.lineno))
                n_ctor += f.id == cls
            elif isinstance(f, ast.Attribute) and f.attr == 'copy' and isinstance(f.value, ast.Name) and f.value.id in binds:
                it = _resolve_iter(binds[f.value.id], fn, f'{cls}.copy')
                if isinstance(it.value, ast.Name) and it.value.id == 'self':
                    elem = cont.get(cls, {}).get(it.attr)
                    if elem is None:
                        continue        # a container of objects without IDs (planes, outputs, ...)
                    callee_param, callee_idx = sigs[elem][1], sigs[elem][2]
                    ok = _is_forward(_map_arg(call, callee_idx, (callee_param,)), param, al)
                    # only the bare parameter may be passed down (the callee applies its own default)
                    for k in AFFECTS[elem]:
                        rows.append((k, f'{cls}.copy: {f.value.id}.copy(...) over self.{it.attr}', ok, call.lineno))
        if n_ctor != 1:
            raise TranslateError(f'{cls}.copy: expected exactly one {cls}(...) constructor call, found {n_ctor}')
    # instancing.collapse_one: copies of the instance map's objects must be made in the destination map
    fns = [n for n in inst_tree.body if isinstance(n, ast.FunctionDef) and n.name == 'collapse_one'
           and not any(ast.unparse(d).endswith('overload') for d in n.decorator_list)]
    if len(fns) != 1:
        raise TranslateError('instancing.collapse_one not found (or more than one implementation)')
    fn = fns[0]
    dest = fn.args.args[0].arg
    binds = _loop_bindings(fn)
    n_coll = 0
    for call in (n for n in ast.walk(fn) if isinstance(n, ast.Call)):
        f = call.func
        if isinstance(f, ast.Name) and f.id in ID_CLASSES:
            ok = _is_forward(_map_arg(call, 0, MAP_PARAMS), dest)
            rows.append((ID_CLASSES[f.id], f'collapse_one: {f.id}(...)', ok, call.lineno))
        if not (isinstance(f, ast.Attribute) and f.attr == 'copy' and isinstance(f.value, ast.Name) and f.value.id in binds):
            continue
        it = _resolve_iter(binds[f.value.id], fn, 'collapse_one')
        # iterables of the form <anything>.vmf.<attr> / <anything>.<attr> with attr a VMF container of ID objects
        if it.attr in cont.get('VMF', {}):
            elem = cont['VMF'][it.attr]
            callee_param, callee_idx = sigs[elem][1], sigs[elem][2]
            ok = _is_forward(_map_arg(call, callee_idx, (callee_param,)), dest)
            for k in AFFECTS[elem]:
                rows.append((k, f'collapse_one: {f.value.id}.copy(...) over {ast.unparse(it)}', ok, call.lineno))
            n_coll += 1
    if n_coll < 2:
        raise TranslateError(f'instancing.collapse_one: expected copies of brushes and entities, found {n_coll} copy sites')
    return rows


def _node_shape(vmf_tree: ast.Module, acquires, releases) -> tuple[bool, bool]:
    """(add_ent/add_ents allocate a node ID, the destructor releases the node ID)."""
    realloc = any(k == 'KNode' and f in ('VMF.add_ent', 'VMF.add_ents') for k, f, _ in acquires)
    in_del = any(k == 'KNode' and s == 'SDel' for k, s, _, _ in releases)
    for n in vmf_tree.body:
        if isinstance(n, ast.ClassDef) and n.name == 'Entity':
            for f in n.body:
                if isinstance(f, ast.FunctionDef) and f.name == '__del__':
                    for st in ast.walk(f):
                        if isinstance(st, ast.Delete):
                            for t in st.targets:
                                if (isinstance(t, ast.Subscript) and isinstance(t.value, ast.Name) and t.value.id == 'self'
                                        and isinstance(t.slice, ast.Constant) and isinstance(t.slice.value, str)
                                        and t.slice.value.casefold() == 'nodeid'):
                                    in_del = True
                        # the other spellings of the same deletion: self.pop('nodeid'[, default]), self.__delitem__('nodeid'),
                        # self.clear() / self.clear_keys() (they all end in __delitem__('nodeid'))
                        if isinstance(st, ast.Call) and isinstance(st.func, ast.Attribute) and isinstance(st.func.value, ast.Name) \
                                and st.func.value.id == 'self':
                            if st.func.attr in ('pop', '__delitem__') and st.args and isinstance(st.args[0], ast.Constant) \
                                    and isinstance(st.args[0].value, str) and st.args[0].value.casefold() == 'nodeid':
                                in_del = True
                            if st.func.attr in ('clear', 'clear_keys') and not st.args:
                                in_del = True
    return realloc, in_del


GEN = {'IdSites_gen': translate}
