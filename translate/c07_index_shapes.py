"""C07 translator: the *shape* of the decisive functions of vmf.py  ->  Gen/IndexShapes_gen.v
(types and semantics: rocq/SM/IndexShapes.v; theorems: rocq/SM/IndexShapeProofs.v).

  gen_setitem_shape   Entity.__setitem__: the case-insensitive lookup loop — which spelling of the key (stored /
                      caller's / folded) fetches the previous value and stores the new one, on the path where a
                      stored key matches and on the `for ... else` path, and whether the previous value is fetched
                      before or after the store.  Found by a symbolic walk of both paths.
  gen_search_shape    VMF.search: the prelude (`if not name: return`, `name = name.casefold()`, the `*` test and
                      strip) and the statements of both branches as a program over
                      scan-of-by_target.items() / yield-from-index[name] / if-name-in-index.
  gen_search_scans_snapshot   every scan loop of search iterates a copy (`list(...)`) of the items
  gen_copyset_iter    CopySet.__iter__ as a generator program (snapshot / yield from cur | self | self - cur | copy)
  gen_setitem_maint   Entity.__setitem__, everything after the lookup loop: the `if key_fold == 'classname' ... elif
                      key_fold == 'targetname' ...` chain as a program (SM/IndexMaint.v [mprog]) of index removals /
                      additions, the recursive `self['classname'] = 'worldspawn'`, direct `_keys` stores and raises.
                      Early returns are translated in continuation-passing style (`if c: ...; return` followed by S
                      is `if c: ... else: S`), boolean / key locals are inlined; branches about other keys (nodeid,
                      property C08) must not touch the indexes and are skipped.
  gen_remove_copyset  _remove_copyset as a shape (SM/IndexRemove.v [rc_shape]): how the set is fetched (.get / defaultdict
                      read / read after a membership test), whether anything runs when there is none, discard vs
                      remove, when the key is deleted.  Early returns are normalised to `if`/`else`.
  gen_add_ents        VMF.add_ents as a program over its iterable argument (SM/IndexMaint.v [aeprog]): is the argument
                      materialised, which collection is each loop / extend fed from, what does each loop body do.

Fail-closed: any statement or expression outside the recognised forms raises TranslateError.
"""
from __future__ import annotations

import ast

from harness.common import SRC, TranslateError

INDEXES = ('by_class', 'by_target')


def _find(tree: ast.Module, cls: str | None, name: str) -> ast.FunctionDef:
    body = tree.body
    if cls is not None:
        for n in body:
            if isinstance(n, ast.ClassDef) and n.name == cls:
                body = n.body
                break
        else:
            raise TranslateError(f'class {cls} not found in vmf.py')
    hits = [n for n in body if isinstance(n, ast.FunctionDef) and n.name == name
            and not any(isinstance(d, ast.Name) and d.id == 'overload' for d in n.decorator_list)]
    if len(hits) != 1:
        raise TranslateError(f'{cls + "." if cls else ""}{name}: {len(hits)} definitions found')
    return hits[0]


def _strip_doc(body: list[ast.stmt]) -> list[ast.stmt]:
    if body and isinstance(body[0], ast.Expr) and isinstance(body[0].value, ast.Constant) and isinstance(body[0].value.value, str):
        return body[1:]
    return body


def _is_self_keys(n: ast.AST) -> bool:
    return isinstance(n, ast.Attribute) and n.attr == '_keys' and isinstance(n.value, ast.Name) and n.value.id == 'self'


def _mentions_keys(n: ast.AST) -> bool:
    return any(isinstance(x, ast.Attribute) and x.attr == '_keys' for x in ast.walk(n))


# ---------------------------------------------------------------------------------------------- Entity.__setitem__
class _Path:
    """Abstract state along one path through the lookup prefix of __setitem__."""

    def __init__(self, key_param: str) -> None:
        self.env: dict[str, tuple] = {key_param: ('spell', 'KCaller')}
        self.stored: str | None = None       # spelling under which the new value was stored

    def spelling(self, e: ast.expr, where: str) -> str:
        if isinstance(e, ast.Name):
            v = self.env.get(e.id)
            if v is not None and v[0] == 'spell':
                return v[1]
            raise TranslateError(f'{where}: key expression {e.id!r} has no known spelling')
        if isinstance(e, ast.Call) and isinstance(e.func, ast.Attribute) and e.func.attr == 'casefold' and not e.args \
                and isinstance(e.func.value, ast.Name) and self.env.get(e.func.value.id) == ('spell', 'KCaller'):
            return 'KFoldedKey'
        raise TranslateError(f'{where}: unrecognised key expression {ast.unparse(e)}')

    def value(self, e: ast.expr, where: str) -> tuple:
        """Abstract value of the right-hand side of an assignment."""
        if isinstance(e, ast.Constant) and e.value is None:
            return ('none',)
        # self._keys.get(X) / self._keys.get(X, None) / self._keys[X]
        if isinstance(e, ast.Call) and isinstance(e.func, ast.Attribute) and e.func.attr == 'get' and _is_self_keys(e.func.value):
            if not e.args or e.keywords or len(e.args) > 2 or (len(e.args) == 2 and not (
                    isinstance(e.args[1], ast.Constant) and e.args[1].value in (None, ''))):
                raise TranslateError(f'{where}: unrecognised _keys.get call {ast.unparse(e)}')
            return ('read', self.spelling(e.args[0], where), self.stored is None)
        if isinstance(e, ast.Subscript) and _is_self_keys(e.value):
            return ('read', self.spelling(e.slice, where), self.stored is None)
        if _mentions_keys(e):
            raise TranslateError(f'{where}: unrecognised use of _keys in {ast.unparse(e)}')
        try:
            return ('spell', self.spelling(e, where))
        except TranslateError:
            return ('opaque',)

    def simple(self, st: ast.stmt, where: str) -> None:
        if isinstance(st, ast.AnnAssign) and st.value is not None:
            st = ast.Assign(targets=[st.target], value=st.value, lineno=st.lineno)
        if isinstance(st, ast.Assign) and len(st.targets) == 1:
            t = st.targets[0]
            if isinstance(t, ast.Name):
                self.env[t.id] = self.value(st.value, where)
                return
            if isinstance(t, ast.Subscript) and _is_self_keys(t.value):
                if self.stored is not None:
                    raise TranslateError(f'{where}: second store into _keys on one path')
                self.stored = self.spelling(t.slice, where)
                return
        if isinstance(st, ast.Expr) and isinstance(st.value, ast.Constant):
            return
        raise TranslateError(f'{where}: unrecognised statement in the lookup prefix: {ast.unparse(st)[:80]}')


def _setitem_shape(fn: ast.FunctionDef) -> tuple[str, dict, dict]:
    where = f'Entity.__setitem__:{fn.lineno}'
    params = [a.arg for a in fn.args.args]
    if len(params) != 3 or params[0] != 'self':
        raise TranslateError(f'{where}: unexpected parameters {params}')
    key_param = params[1]
    body = _strip_doc(fn.body)
    # the prefix ends at the first top-level `if` that compares with the literal 'classname' (index maintenance)
    cut = None
    for i, st in enumerate(body):
        if isinstance(st, ast.If) and any(isinstance(x, ast.Constant) and x.value == 'classname' for x in ast.walk(st.test)):
            cut = i
            break
    if cut is None:
        raise TranslateError(f'{where}: index maintenance (`if ... == "classname"`) not found')
    prefix, rest = body[:cut], body[cut:]
    loops = [i for i, st in enumerate(prefix) if isinstance(st, ast.For)]
    if len(loops) != 1:
        raise TranslateError(f'{where}: expected exactly one lookup loop in the prefix, found {len(loops)}')
    li = loops[0]
    loop: ast.For = prefix[li]  # type: ignore[assignment]
    if not (isinstance(loop.target, ast.Name) and _is_self_keys(loop.iter)):
        raise TranslateError(f'{where}: lookup loop is not `for k in self._keys`')
    kvar = loop.target.id
    if len(loop.body) != 1 or not isinstance(loop.body[0], ast.If) or loop.body[0].orelse:
        raise TranslateError(f'{where}: lookup loop body is not a single `if`')
    test = loop.body[0].test
    hit_body = list(loop.body[0].body)
    if not hit_body or not isinstance(hit_body[-1], ast.Break):
        raise TranslateError(f'{where}: the matching branch of the lookup loop does not end in `break`')
    hit_body = hit_body[:-1]

    def run(path_body: list[ast.stmt], hit: bool) -> _Path:
        p = _Path(key_param)
        for st in prefix[:li]:
            p.simple(st, where)
        if hit:
            p.env[kvar] = ('spell', 'KStored')
        for st in path_body:
            p.simple(st, where)
        for st in prefix[li + 1:]:
            p.simple(st, where)
        if p.stored is None:
            raise TranslateError(f'{where}: no store into _keys on the {"matching" if hit else "else"} path')
        return p

    # the loop test, evaluated in the environment at loop entry
    p0 = _Path(key_param)
    for st in prefix[:li]:
        p0.simple(st, where)
    p0.env[kvar] = ('spell', 'KStored')
    if not (isinstance(test, ast.Compare) and len(test.ops) == 1 and isinstance(test.ops[0], ast.Eq)):
        raise TranslateError(f'{where}: lookup test is not an equality')
    sides = [test.left, test.comparators[0]]

    def side(e: ast.expr) -> tuple[str, bool]:
        """(which key, folded?)"""
        if isinstance(e, ast.Call) and isinstance(e.func, ast.Attribute) and e.func.attr == 'casefold' and not e.args \
                and isinstance(e.func.value, ast.Name):
            sp = p0.spelling(e.func.value, where)
            if sp in ('KStored', 'KCaller'):
                return sp, True
            raise TranslateError(f'{where}: unrecognised test operand {ast.unparse(e)}')
        sp = p0.spelling(e, where)
        if sp == 'KFoldedKey':
            return 'KCaller', True
        return sp, False
    s0, s1 = side(sides[0]), side(sides[1])
    if {s0[0], s1[0]} != {'KStored', 'KCaller'}:
        raise TranslateError(f'{where}: lookup test does not compare a stored key with the given key')
    lfold = s0[1] if s0[0] == 'KStored' else s1[1]
    rfold = s0[1] if s0[0] == 'KCaller' else s1[1]

    hit = run(hit_body, True)
    miss = run(list(loop.orelse), False)
    # the variable holding the previous value: the one folded in the _remove_copyset calls of the maintenance part
    # (a key local of the maintenance part — `old = (orig_val or '').casefold()` — is looked through: what counts is
    # the variable assigned in the lookup prefix that the removal key is computed from)
    rest_locals: dict[str, list[ast.expr]] = {}
    for st in rest:
        for n in ast.walk(st):
            if isinstance(n, ast.AnnAssign) and n.value is not None and isinstance(n.target, ast.Name):
                rest_locals.setdefault(n.target.id, []).append(n.value)
            elif isinstance(n, ast.Assign):
                for t in n.targets:
                    if isinstance(t, ast.Name):
                        rest_locals.setdefault(t.id, []).append(n.value)
                    elif not isinstance(t, (ast.Subscript, ast.Attribute)):
                        raise TranslateError(f'{where}: unrecognised assignment target in the maintenance part: {ast.unparse(t)}')
            elif isinstance(n, ast.NamedExpr):
                raise TranslateError(f'{where}: assignment expression in the maintenance part')

    def roots(names: set[str], seen: frozenset = frozenset()) -> set[str]:
        out: set[str] = set()
        for nm in names:
            if nm in rest_locals and nm not in seen:
                for v in rest_locals[nm]:
                    out |= roots({x.id for x in ast.walk(v) if isinstance(x, ast.Name)}, seen | {nm})
            else:
                out.add(nm)
        return out
    orig_vars: set[str] = set()
    for st in rest:
        for n in ast.walk(st):
            if isinstance(n, ast.Call) and isinstance(n.func, ast.Name) and n.func.id == '_remove_copyset' and len(n.args) == 3:
                names = {x.id for x in ast.walk(n.args[1]) if isinstance(x, ast.Name)}
                orig_vars |= roots(names)
    if len(orig_vars) != 1:
        raise TranslateError(f'{where}: cannot identify the previous-value variable (candidates {sorted(orig_vars)})')
    ov = orig_vars.pop()
    # the rest must not re-assign it
    for st in rest:
        for n in ast.walk(st):
            if isinstance(n, (ast.Assign, ast.AugAssign, ast.AnnAssign)):
                tg = n.targets if isinstance(n, ast.Assign) else [n.target]
                if any(isinstance(t, ast.Name) and t.id == ov for t in tg):
                    raise TranslateError(f'{where}: previous-value variable {ov} re-assigned in the maintenance part')

    def rd(p: _Path, which: str) -> str:
        v = p.env.get(ov)
        if v is None:
            raise TranslateError(f'{where}: {ov} is not assigned on the {which} path')
        if v[0] == 'none':
            return 'RNone'
        if v[0] == 'read':
            return f'({"RBefore" if v[2] else "RAfter"} {v[1]})'
        raise TranslateError(f'{where}: {ov} does not come from _keys on the {which} path')
    if miss.stored == 'KStored' or 'KStored' in rd(miss, 'else'):
        raise TranslateError(f'{where}: the loop variable is used on the `else` path')
    shape = dict(lfold=lfold, rfold=rfold, hit_read=rd(hit, 'matching'), hit_store=hit.stored,
                 miss_read=rd(miss, 'else'), miss_store=miss.stored, orig_var=ov)
    b = lambda x: 'true' if x else 'false'   # noqa: E731
    coq = (f'Definition gen_setitem_shape : setitem_shape :=\n  SetShape {b(lfold)} {b(rfold)} {shape["hit_read"]} '
           f'{shape["hit_store"]} {shape["miss_read"]} {shape["miss_store"]}.\n')
    ctx = dict(where=where, rest=rest, hit=hit, miss=miss, key_param=key_param, val_param=params[2], orig_var=ov,
               prefix=prefix[:li], post=prefix[li + 1:])
    return coq, shape, ctx


# ---------------------------------------------------------------------------------------------- VMF.search
def _self_index(e: ast.expr) -> str | None:
    if isinstance(e, ast.Attribute) and e.attr in INDEXES and isinstance(e.value, ast.Name) and e.value.id == 'self':
        return e.attr
    return None


def _maybe_copy(e: ast.expr) -> tuple[ast.expr, bool]:
    """list(X) / tuple(X) -> (X, True)."""
    if isinstance(e, ast.Call) and isinstance(e.func, ast.Name) and e.func.id in ('list', 'tuple') and len(e.args) == 1 and not e.keywords:
        return e.args[0], True
    return e, False


class _SearchTr:
    def __init__(self, name_var: str, where: str) -> None:
        self.nv = name_var
        self.where = where
        self.snapshots = True
        # round 5: plain lookups `self.by_X.get(name[, <empty default>])`, possibly bound to a local or chained with `or`.
        # locals: name -> atom; an atom is ('t'|'c', default_is_iterable).  known: atoms known not to be None on this path
        self.locals: dict[str, tuple[str, bool]] = {}
        self.known: set[str] = set()

    def is_name(self, e: ast.expr) -> bool:
        return isinstance(e, ast.Name) and e.id == self.nv

    # -- plain lookups (round 5)
    def atom(self, e: ast.expr) -> tuple[str, bool] | None:
        if isinstance(e, ast.Name) and e.id in self.locals:
            return self.locals[e.id]
        if isinstance(e, ast.Call) and isinstance(e.func, ast.Attribute) and e.func.attr == 'get' and _self_index(e.func.value) \
                and not e.keywords and 1 <= len(e.args) <= 2 and self.is_name(e.args[0]):
            iterable = False
            if len(e.args) == 2:
                d = e.args[1]
                if isinstance(d, ast.Constant) and d.value is None:
                    iterable = False
                elif (isinstance(d, (ast.Tuple, ast.List)) and not d.elts) or (isinstance(d, ast.Constant) and d.value == '') or (
                        isinstance(d, ast.Call) and isinstance(d.func, ast.Name) and d.func.id in ('set', 'frozenset', 'tuple', 'list')
                        and not d.args and not d.keywords):
                    iterable = True        # an empty collection: falsy, and `yield from` it yields nothing
                else:
                    return None
            return ('t' if _self_index(e.func.value) == 'by_target' else 'c', iterable)
        return None

    def alts(self, e: ast.expr) -> list[tuple[str, bool]] | None:
        """`A or B or ...` over plain lookups: the first one that is truthy, else the last."""
        if isinstance(e, ast.BoolOp) and isinstance(e.op, ast.Or):
            out = [self.atom(v) for v in e.values]
            return None if any(a is None for a in out) else out   # type: ignore[return-value]
        a = self.atom(e)
        return None if a is None else [a]

    @staticmethod
    def ne(a: tuple[str, bool]) -> str:
        return 'CNeTarget' if a[0] == 't' else 'CNeClass'

    def under(self, a: tuple[str, bool] | None, f):
        """run f() on a path where lookup `a` is known not to be None; bindings made inside do not leak"""
        saved = (dict(self.locals), set(self.known))
        if a is not None:
            self.known.add(a[0])
        try:
            return f()
        finally:
            self.locals, self.known = saved

    def yield_get(self, a: tuple[str, bool], w: str) -> str:
        if not (a[1] or a[0] in self.known):
            raise TranslateError(f'{w}: `yield from` a .get() lookup that may be None')
        return 'PYieldGetTarget' if a[0] == 't' else 'PYieldGetClass'

    def block(self, stmts: list[ast.stmt], top: bool = False) -> str:
        if not stmts:
            return 'PSkip'
        st, rest = stmts[0], stmts[1:]
        if isinstance(st, ast.AnnAssign) and st.value is not None:
            st = ast.Assign(targets=[st.target], value=st.value, lineno=st.lineno)
        if isinstance(st, ast.Assign) and len(st.targets) == 1 and isinstance(st.targets[0], ast.Name) and st.targets[0].id != self.nv:
            w = f'{self.where}:{st.lineno}'
            al = self.alts(st.value)
            if al is None or not top:
                raise TranslateError(f'{w}: unrecognised assignment {ast.unparse(st)[:80]}')
            x = st.targets[0].id

            def bind(al: list[tuple[str, bool]]) -> str:
                # x = A or B: on the path where A is truthy x is A, otherwise x is (B or ...)
                def cont(a: tuple[str, bool]):
                    def go() -> str:
                        self.locals[x] = a
                        return self.block(rest, top)
                    return go
                if len(al) == 1:
                    return self.under(None, cont(al[0]))
                yes = self.under(al[0], cont(al[0]))
                return f'(PIf {self.ne(al[0])} {yes} {bind(al[1:])})'
            return bind(al)
        a = self.stmt(st)
        if not rest:
            return a
        return f'(PSeq {a} {self.block(rest, top)})'

    def stmt(self, st: ast.stmt) -> str:
        w = f'{self.where}:{st.lineno}'
        if isinstance(st, ast.Pass):
            return 'PSkip'
        if isinstance(st, ast.Expr) and isinstance(st.value, ast.YieldFrom):
            v = st.value.value
            if isinstance(v, ast.Subscript) and _self_index(v.value) and self.is_name(v.slice):
                return 'PYieldTarget' if _self_index(v.value) == 'by_target' else 'PYieldClass'
            al = self.alts(v)
            if al is not None:
                # yield from (A or B): A when it is truthy, else B
                acc = self.yield_get(al[-1], w)
                for a in reversed(al[:-1]):
                    acc = f'(PIf {self.ne(a)} {self.under(a, lambda a=a: self.yield_get(a, w))} {acc})'
                return acc
            raise TranslateError(f'{w}: unrecognised `yield from` {ast.unparse(v)}')
        if isinstance(st, ast.If):
            t = st.test
            neg = False
            while isinstance(t, ast.UnaryOp) and isinstance(t.op, ast.Not):
                t, neg = t.operand, not neg
            # `x is None` / `x is not None` on a plain lookup: the key is absent / present
            if isinstance(t, ast.Compare) and len(t.ops) == 1 and isinstance(t.ops[0], (ast.Is, ast.IsNot)) \
                    and isinstance(t.comparators[0], ast.Constant) and t.comparators[0].value is None and self.atom(t.left) is not None:
                a = self.atom(t.left)
                if a[1]:
                    raise TranslateError(f'{w}: `is None` test of a lookup with a default')
                present, absent = (st.orelse, st.body) if isinstance(t.ops[0], ast.Is) != neg else (st.body, st.orelse)
                yes = self.under(a, lambda: self.block(present))
                no = self.under(None, lambda: self.block(absent))
                return f'(PIf {"CInTarget" if a[0] == "t" else "CInClass"} {yes} {no})'
            # truthiness of a plain lookup / an `or` chain of them: some set has a member
            al = self.alts(t)
            if al is not None:
                body, orelse = (st.orelse, st.body) if neg else (st.body, st.orelse)
                acc = self.under(None, lambda: self.block(orelse))
                for a in reversed(al):
                    acc = f'(PIf {self.ne(a)} {self.under(a, lambda: self.block(body))} {acc})'
                return acc
            t = st.test
            if isinstance(t, ast.Compare) and len(t.ops) == 1 and isinstance(t.ops[0], ast.In) and self.is_name(t.left):
                coll, _ = _maybe_copy(t.comparators[0])
                if isinstance(coll, ast.Call) and isinstance(coll.func, ast.Attribute) and coll.func.attr == 'keys' and not coll.args:
                    coll = coll.func.value
                ix = _self_index(coll)
                if ix:
                    c = 'CInTarget' if ix == 'by_target' else 'CInClass'
                    return f'(PIf {c} {self.block(st.body)} {self.block(st.orelse)})'
            raise TranslateError(f'{w}: unrecognised condition {ast.unparse(t)}')
        if isinstance(st, ast.For) and not st.orelse:
            it, copied = _maybe_copy(st.iter)
            if not (isinstance(it, ast.Call) and isinstance(it.func, ast.Attribute) and it.func.attr == 'items'
                    and not it.args and _self_index(it.func.value) == 'by_target'):
                raise TranslateError(f'{w}: unrecognised loop over {ast.unparse(st.iter)}')
            if not (isinstance(st.target, ast.Tuple) and len(st.target.elts) == 2
                    and all(isinstance(x, ast.Name) for x in st.target.elts)):
                raise TranslateError(f'{w}: unrecognised loop target')
            kv, sv = (x.id for x in st.target.elts)   # type: ignore[union-attr]
            if kv in self.locals or sv in self.locals:
                raise TranslateError(f'{w}: the scan loop re-binds a local that holds a lookup')
            if len(st.body) != 1 or not isinstance(st.body[0], ast.If) or st.body[0].orelse:
                raise TranslateError(f'{w}: scan loop body is not a single `if`')
            inner = st.body[0]
            if not (len(inner.body) == 1 and isinstance(inner.body[0], ast.Expr) and isinstance(inner.body[0].value, ast.YieldFrom)
                    and isinstance(inner.body[0].value.value, ast.Name) and inner.body[0].value.value.id == sv):
                raise TranslateError(f'{w}: scan loop does not `yield from` the set of the item')
            t = inner.test
            if not (isinstance(t, ast.BoolOp) and isinstance(t.op, ast.And) and len(t.values) == 2):
                raise TranslateError(f'{w}: scan test is not `<k> is not None and <match>`')
            g, m = t.values
            if not (isinstance(g, ast.Compare) and len(g.ops) == 1 and isinstance(g.ops[0], ast.IsNot)
                    and isinstance(g.left, ast.Name) and g.left.id == kv
                    and isinstance(g.comparators[0], ast.Constant) and g.comparators[0].value is None):
                raise TranslateError(f'{w}: scan loop lacks the `is not None` guard')

            def keyside(e: ast.expr) -> bool | None:
                """is `e` the item key (False) / its casefold (True)?"""
                if isinstance(e, ast.Name) and e.id == kv:
                    return False
                if isinstance(e, ast.Call) and isinstance(e.func, ast.Attribute) and e.func.attr == 'casefold' and not e.args \
                        and isinstance(e.func.value, ast.Name) and e.func.value.id == kv:
                    return True
                return None
            if isinstance(m, ast.Compare) and len(m.ops) == 1 and isinstance(m.ops[0], ast.Eq):
                a, b = m.left, m.comparators[0]
                if self.is_name(a):
                    a, b = b, a
                f = keyside(a)
                if f is None or not self.is_name(b):
                    raise TranslateError(f'{w}: unrecognised scan match {ast.unparse(m)}')
                tst = 'TEq'
            elif isinstance(m, ast.Call) and isinstance(m.func, ast.Attribute) and m.func.attr == 'startswith' \
                    and len(m.args) == 1 and self.is_name(m.args[0]):
                f = keyside(m.func.value)
                if f is None:
                    raise TranslateError(f'{w}: unrecognised scan match {ast.unparse(m)}')
                tst = 'TPrefix'
            else:
                raise TranslateError(f'{w}: unrecognised scan match {ast.unparse(m)}')
            if not copied:
                self.snapshots = False
            return f'(PScanTarget {tst} {"true" if f else "false"})'
        raise TranslateError(f'{w}: unrecognised statement {ast.unparse(st)[:80]}')


def _search_shape(fn: ast.FunctionDef) -> tuple[str, dict]:
    where = 'VMF.search'
    params = [a.arg for a in fn.args.args]
    if len(params) != 2:
        raise TranslateError(f'{where}: unexpected parameters {params}')
    nv = params[1]
    body = _strip_doc(fn.body)
    empty_returns = folds = strips = False
    i = 0

    def is_nv(e) -> bool:
        return isinstance(e, ast.Name) and e.id == nv
    if i < len(body) and isinstance(body[i], ast.If) and not body[i].orelse and len(body[i].body) == 1 \
            and isinstance(body[i].body[0], ast.Return) and body[i].body[0].value is None:
        t = body[i].test
        if isinstance(t, ast.UnaryOp) and isinstance(t.op, ast.Not) and is_nv(t.operand):
            empty_returns = True
            i += 1
        else:
            raise TranslateError(f'{where}: unrecognised early return on {ast.unparse(t)}')
    if i < len(body) and isinstance(body[i], ast.Assign) and len(body[i].targets) == 1 and is_nv(body[i].targets[0]):
        v = body[i].value
        if isinstance(v, ast.Call) and isinstance(v.func, ast.Attribute) and v.func.attr == 'casefold' and not v.args and is_nv(v.func.value):
            folds = True
            i += 1
        else:
            raise TranslateError(f'{where}: unrecognised assignment to {nv}: {ast.unparse(v)}')
    if i != len(body) - 1 or not isinstance(body[i], ast.If):
        raise TranslateError(f'{where}: expected the `*` test as the last statement')
    st = body[i]
    t = st.test
    ok_star = (isinstance(t, ast.Compare) and len(t.ops) == 1 and isinstance(t.ops[0], ast.Eq)
               and isinstance(t.comparators[0], ast.Constant) and t.comparators[0].value == '*'
               and isinstance(t.left, ast.Subscript) and is_nv(t.left.value)
               and isinstance(t.left.slice, ast.UnaryOp) and isinstance(t.left.slice.op, ast.USub)
               and isinstance(t.left.slice.operand, ast.Constant) and t.left.slice.operand.value == 1)
    if not ok_star and isinstance(t, ast.Call) and isinstance(t.func, ast.Attribute) and t.func.attr == 'endswith' \
            and is_nv(t.func.value) and len(t.args) == 1 and isinstance(t.args[0], ast.Constant) and t.args[0].value == '*':
        ok_star = True
    if not ok_star:
        raise TranslateError(f'{where}: unrecognised wildcard test {ast.unparse(t)}')
    star_body = list(st.body)
    if star_body and isinstance(star_body[0], ast.Assign) and len(star_body[0].targets) == 1 and is_nv(star_body[0].targets[0]):
        v = star_body[0].value
        if isinstance(v, ast.Subscript) and is_nv(v.value) and isinstance(v.slice, ast.Slice) and v.slice.lower is None \
                and v.slice.step is None and isinstance(v.slice.upper, ast.UnaryOp) and isinstance(v.slice.upper.op, ast.USub) \
                and isinstance(v.slice.upper.operand, ast.Constant) and v.slice.upper.operand.value == 1:
            strips = True
            star_body = star_body[1:]
        else:
            raise TranslateError(f'{where}: unrecognised assignment to {nv} in the wildcard branch')
    tr = _SearchTr(nv, where)
    star = tr.under(None, lambda: tr.block(star_body, True))
    exact = tr.under(None, lambda: tr.block(list(st.orelse), True))
    b = lambda x: 'true' if x else 'false'   # noqa: E731
    coq = (f'Definition gen_search_shape : search_shape :=\n  SearchShape {b(empty_returns)} {b(folds)} {b(strips)}\n'
           f'    {star}\n    {exact}.\n'
           f'Definition gen_search_scans_snapshot : bool := {b(tr.snapshots)}.\n')
    return coq, dict(empty_returns=empty_returns, folds=folds, strips=strips, star=star, exact=exact, snapshots=tr.snapshots)


# ---------------------------------------------------------------------------------------------- CopySet.__iter__
def _copyset_iter(fn: ast.FunctionDef) -> tuple[str, dict]:
    where = 'CopySet.__iter__'
    cur: str | None = None
    prog: list[str] = []

    def is_self(e) -> bool:
        return isinstance(e, ast.Name) and e.id == 'self'

    def expr(e: ast.expr) -> str:
        if is_self(e):
            return 'ELive'
        if isinstance(e, ast.Name) and e.id == cur:
            return 'ECur'
        # frozenset(self) / set(self) copy the hash table directly; list(self) / tuple(self) would call this very
        # __iter__ again (unbounded recursion) and are therefore not accepted
        if isinstance(e, ast.Call) and isinstance(e.func, ast.Name) and e.func.id in ('frozenset', 'set') \
                and len(e.args) == 1 and not e.keywords and is_self(e.args[0]):
            return 'ESnap'
        if isinstance(e, ast.BinOp) and isinstance(e.op, ast.Sub) and is_self(e.left) and isinstance(e.right, ast.Name) and e.right.id == cur:
            return 'EDiffLiveCur'
        if isinstance(e, ast.Call) and isinstance(e.func, ast.Attribute) and e.func.attr == 'difference' and is_self(e.func.value) \
                and len(e.args) == 1 and isinstance(e.args[0], ast.Name) and e.args[0].id == cur:
            return 'EDiffLiveCur'
        raise TranslateError(f'{where}: unrecognised iterable {ast.unparse(e)}')
    for st in _strip_doc(fn.body):
        if isinstance(st, ast.AnnAssign) and st.value is not None:
            tgt, val = st.target, st.value
        elif isinstance(st, ast.Assign) and len(st.targets) == 1:
            tgt, val = st.targets[0], st.value
        else:
            tgt = val = None
        if tgt is not None:
            if not isinstance(tgt, ast.Name) or expr(val) != 'ESnap' or cur is not None:
                raise TranslateError(f'{where}: unrecognised assignment {ast.unparse(st)}')
            cur = tgt.id
            prog.append('ISnapshot')
            continue
        if isinstance(st, ast.Expr) and isinstance(st.value, ast.YieldFrom):
            prog.append(f'IYieldFrom {expr(st.value.value)}')
            continue
        if isinstance(st, ast.For) and not st.orelse and isinstance(st.target, ast.Name) and len(st.body) == 1 \
                and isinstance(st.body[0], ast.Expr) and isinstance(st.body[0].value, ast.Yield) \
                and isinstance(st.body[0].value.value, ast.Name) and st.body[0].value.value.id == st.target.id:
            prog.append(f'IYieldFrom {expr(st.iter)}')
            continue
        raise TranslateError(f'{where}: unrecognised statement {ast.unparse(st)[:80]}')
    lst = 'nil'
    for p in reversed(prog):
        lst = f'(cons ({p}) {lst})'
    return f'Definition gen_copyset_iter : iprog := {lst}.\n', dict(prog=prog)



# ---------------------------------------------------------------------------------------------- _remove_copyset
def _remove_copyset_shape(fn: ast.FunctionDef) -> tuple[str, dict]:
    """The helper as a shape (SM/IndexRemove.v [rc_shape]): how the set is fetched, whether anything runs when there is
    none, discard vs remove, and when the key is deleted.  Early returns are first rewritten into nested `if`s; the
    walk is fail-closed (`try: s = mapping[key] except KeyError` is not accepted: on the defaultdicts this helper is
    called with, the read inserts an empty set and never raises)."""
    where = '_remove_copyset'
    params = [a.arg for a in fn.args.args]
    if len(params) != 3 or fn.args.vararg or fn.args.kwarg or fn.args.kwonlyargs:
        raise TranslateError(f'{where}: unexpected parameters {params}')
    mp, kp, ep = params

    def nm(e: ast.AST, name: str | None) -> bool:
        return name is not None and isinstance(e, ast.Name) and e.id == name

    def is_sub(e: ast.AST) -> bool:
        return isinstance(e, ast.Subscript) and nm(e.value, mp) and nm(e.slice, kp)

    def is_none(e: ast.AST) -> bool:
        return isinstance(e, ast.Constant) and e.value is None

    def has_return(stmts: list[ast.stmt]) -> bool:
        return any(isinstance(n, ast.Return) for st in stmts for n in ast.walk(st))

    def norm(stmts: list[ast.stmt]) -> list[ast.stmt]:
        out: list[ast.stmt] = []
        for i, st in enumerate(stmts):
            rest = stmts[i + 1:]
            if isinstance(st, ast.Pass) or (isinstance(st, ast.Expr) and isinstance(st.value, ast.Constant)):
                continue
            if isinstance(st, ast.Return):
                if st.value is not None and not is_none(st.value):
                    raise TranslateError(f'{where}:{st.lineno}: returns a value')
                return out
            if isinstance(st, ast.If):
                b_ret = bool(st.body) and isinstance(st.body[-1], ast.Return)
                o_ret = bool(st.orelse) and isinstance(st.orelse[-1], ast.Return)
                if has_return(st.body[:-1] if b_ret else st.body) or has_return(st.orelse[:-1] if o_ret else st.orelse):
                    raise TranslateError(f'{where}:{st.lineno}: nested return')
                if b_ret or o_ret:
                    # `if c: A; return` followed by R  ==  `if c: A else: R`
                    body = norm(st.body) if b_ret else norm(st.body + rest)
                    orelse = norm(st.orelse) if o_ret else norm(st.orelse + rest)
                    out.append(ast.If(test=st.test, body=body, orelse=orelse, lineno=st.lineno))
                    return out
                out.append(ast.If(test=st.test, body=norm(st.body), orelse=norm(st.orelse), lineno=st.lineno))
                continue
            out.append(st)
        return out

    S: dict = dict(look=None, var=None, guarded=False, in_guard=False, rem=None, drop=None)

    def is_var(e: ast.AST) -> bool:
        return nm(e, S['var'])

    def truth(e: ast.expr) -> bool | None:
        """test on the set: True = 'the set is non-empty', False = 'the set is empty', None = not such a test"""
        if is_var(e):
            return True
        if isinstance(e, ast.UnaryOp) and isinstance(e.op, ast.Not):
            t = truth(e.operand)
            return None if t is None else not t
        is_len = isinstance(e, ast.Call) and nm(e.func, 'len') and len(e.args) == 1 and not e.keywords and is_var(e.args[0])
        if is_len:
            return True
        if isinstance(e, ast.Compare) and len(e.ops) == 1 and isinstance(e.comparators[0], ast.Constant) and e.comparators[0].value == 0 \
                and isinstance(e.left, ast.Call) and nm(e.left.func, 'len') and len(e.left.args) == 1 and is_var(e.left.args[0]):
            if isinstance(e.ops[0], ast.Eq):
                return False
            if isinstance(e.ops[0], (ast.NotEq, ast.Gt)):
                return True
        return None

    def is_del(st: ast.stmt) -> bool:
        if isinstance(st, ast.Delete) and len(st.targets) == 1 and is_sub(st.targets[0]):
            return True
        if isinstance(st, ast.Expr) and isinstance(st.value, ast.Call) and isinstance(st.value.func, ast.Attribute) \
                and st.value.func.attr == 'pop' and nm(st.value.func.value, mp) and not st.value.keywords and st.value.args \
                and nm(st.value.args[0], kp) and (len(st.value.args) == 1 or (len(st.value.args) == 2 and is_none(st.value.args[1]))):
            return True
        return False

    def only_del(block: list[ast.stmt], w: str) -> bool:
        if not block:
            return False
        if len(block) == 1 and is_del(block[0]):
            return True
        raise TranslateError(f'{w}: unrecognised statements under the emptiness test')

    def walk(stmts: list[ast.stmt]) -> None:
        for i, st in enumerate(stmts):
            w = f'{where}:{getattr(st, "lineno", fn.lineno)}'
            rest = stmts[i + 1:]
            if isinstance(st, ast.AnnAssign) and st.value is not None:
                st = ast.Assign(targets=[st.target], value=st.value, lineno=st.lineno)
            # -- the lookup
            if isinstance(st, ast.Assign) and len(st.targets) == 1 and isinstance(st.targets[0], ast.Name) and S['look'] is None:
                v = st.value
                if isinstance(v, ast.Call) and isinstance(v.func, ast.Attribute) and v.func.attr == 'get' and nm(v.func.value, mp) \
                        and not v.keywords and v.args and nm(v.args[0], kp) and (len(v.args) == 1 or (len(v.args) == 2 and is_none(v.args[1]))):
                    S['look'] = 'LGet'
                elif is_sub(v):
                    S['look'] = 'LIndexIfIn' if S['in_guard'] else 'LIndex'
                else:
                    raise TranslateError(f'{w}: unrecognised lookup {ast.unparse(v)}')
                S['var'] = st.targets[0].id
                if S['var'] in params:
                    raise TranslateError(f'{w}: the set is bound to a parameter name')
                S['guarded'] = S['in_guard']
                continue
            if isinstance(st, ast.If):
                t = st.test
                # `key in mapping` before the lookup
                if S['look'] is None and isinstance(t, ast.Compare) and len(t.ops) == 1 and nm(t.left, kp) and nm(t.comparators[0], mp) \
                        and isinstance(t.ops[0], (ast.In, ast.NotIn)):
                    found, absent = (st.body, st.orelse) if isinstance(t.ops[0], ast.In) else (st.orelse, st.body)
                    if absent or rest:
                        raise TranslateError(f'{w}: code runs when the key is absent')
                    S['in_guard'] = True
                    walk(found)
                    return
                # `s is not None` after a .get lookup
                if S['look'] is not None and S['rem'] is None and isinstance(t, ast.Compare) and len(t.ops) == 1 and is_var(t.left) \
                        and is_none(t.comparators[0]) and isinstance(t.ops[0], (ast.Is, ast.IsNot)):
                    found, absent = (st.body, st.orelse) if isinstance(t.ops[0], ast.IsNot) else (st.orelse, st.body)
                    if absent or rest:
                        raise TranslateError(f'{w}: code runs when no set was found')
                    S['guarded'] = True
                    walk(found)
                    return
                # the emptiness test after the removal
                if S['rem'] is not None and S['drop'] is None and truth(t) is not None:
                    nonempty, empty = (st.body, st.orelse) if truth(t) else (st.orelse, st.body)
                    de, dn = only_del(empty, w), only_del(nonempty, w)
                    S['drop'] = {(True, False): 'DIfEmpty', (False, True): 'DIfNonEmpty', (True, True): 'DAlways', (False, False): 'DNever'}[(de, dn)]
                    if rest:
                        raise TranslateError(f'{w}: statements after the emptiness test')
                    return
                raise TranslateError(f'{w}: unrecognised test {ast.unparse(t)}')
            # -- taking the entity out
            if isinstance(st, ast.Expr) and isinstance(st.value, ast.Call) and isinstance(st.value.func, ast.Attribute) \
                    and st.value.func.attr in ('discard', 'remove') and is_var(st.value.func.value) and S['rem'] is None:
                c = st.value
                if len(c.args) != 1 or c.keywords or not nm(c.args[0], ep):
                    raise TranslateError(f'{w}: something else than the entity is taken out of the set')
                S['rem'] = 'RDiscard' if c.func.attr == 'discard' else 'RRemove'
                continue
            if S['rem'] is not None and S['drop'] is None and is_del(st):
                S['drop'] = 'DAlways'
                if rest:
                    raise TranslateError(f'{w}: statements after the deletion')
                return
            raise TranslateError(f'{w}: unrecognised statement {ast.unparse(st)[:80]}')

    walk(norm(_strip_doc(fn.body)))
    if S['look'] is None or S['rem'] is None:
        raise TranslateError(f'{where}: no lookup of the set / the entity is never taken out of it')
    drop = S['drop'] or 'DNever'
    b = lambda x: 'true' if x else 'false'   # noqa: E731
    coq = f'Definition gen_remove_copyset : rc_shape := RC {S["look"]} {b(S["guarded"])} {S["rem"]} {drop}.\n'
    return coq, dict(look=S['look'], absent_skips=S['guarded'], rem=S['rem'], drop=drop)


# ---------------------------------------------------------------------------------------------- Entity.__setitem__ maintenance
def _coq_str(s: str) -> str:
    return '[' + ';'.join(str(ord(c)) for c in s) + ']%N' if s else '[]'


def _seq(a: str, b: str) -> str:
    if a == 'MSkip':
        return b
    if b == 'MSkip':
        return a
    return f'(MSeq {a} {b})'


def _is_self(e: ast.AST) -> bool:
    return isinstance(e, ast.Name) and e.id == 'self'


def _self_map_attr(e: ast.AST, attr: str) -> bool:
    """self.map.<attr>"""
    return (isinstance(e, ast.Attribute) and e.attr == attr and isinstance(e.value, ast.Attribute)
            and e.value.attr == 'map' and _is_self(e.value.value))


class _MaintTr:
    """Translate the statements after the lookup loop of Entity.__setitem__ into an [mprog] (continuation-passing)."""

    INDEXED = ('classname', 'targetname')

    def __init__(self, ctx: dict) -> None:
        self.where = ctx['where']
        self.hit: _Path = ctx['hit']
        self.miss: _Path = ctx['miss']
        self.ov: str = ctx['orig_var']
        self.key_param: str = ctx['key_param']
        # the variable holding the converted new value: <v> = conv_kv(<val parameter>) before the loop
        self.newvar: str | None = None
        for st in ctx['prefix']:
            if isinstance(st, ast.AnnAssign) and st.value is not None:
                st = ast.Assign(targets=[st.target], value=st.value, lineno=st.lineno)
            if isinstance(st, ast.Assign) and len(st.targets) == 1 and isinstance(st.targets[0], ast.Name) \
                    and isinstance(st.value, ast.Call) and isinstance(st.value.func, ast.Name) and st.value.func.id == 'conv_kv' \
                    and len(st.value.args) == 1 and isinstance(st.value.args[0], ast.Name) and st.value.args[0].id == ctx['val_param']:
                self.newvar = st.targets[0].id
        if self.newvar is None:
            raise TranslateError(f'{self.where}: the new value is not `<v> = conv_kv(<value parameter>)` before the lookup loop')
        self.conds: dict[str, str] = {}
        self.keys: dict[str, str] = {}

    # -- expressions
    def _is_key_fold(self, e: ast.expr) -> bool:
        """an expression whose value is key.casefold() on both paths"""
        if isinstance(e, ast.Name):
            return self.hit.env.get(e.id) == ('spell', 'KFoldedKey') and self.miss.env.get(e.id) == ('spell', 'KFoldedKey')
        if isinstance(e, ast.Call) and isinstance(e.func, ast.Attribute) and e.func.attr == 'casefold' and not e.args \
                and not e.keywords and isinstance(e.func.value, ast.Name):
            h, m = self.hit.env.get(e.func.value.id), self.miss.env.get(e.func.value.id)
            # the stored spelling matched case-insensitively, so its casefold is the caller's
            return h in (('spell', 'KCaller'), ('spell', 'KStored')) and m == ('spell', 'KCaller')
        return False

    def _folded(self, e: ast.expr) -> ast.expr | None:
        if isinstance(e, ast.Call) and isinstance(e.func, ast.Attribute) and e.func.attr == 'casefold' and not e.args and not e.keywords:
            return e.func.value
        return None

    def _is_new_fold(self, e: ast.expr) -> bool:
        v = self._folded(e)
        return isinstance(v, ast.Name) and v.id == self.newvar

    def cond(self, e: ast.expr, w: str) -> str:
        if isinstance(e, ast.Name) and e.id in self.conds:
            return self.conds[e.id]
        if isinstance(e, ast.UnaryOp) and isinstance(e.op, ast.Not):
            return f'(MCNot {self.cond(e.operand, w)})'
        if isinstance(e, ast.BoolOp):
            parts = [self.cond(x, w) for x in e.values]
            acc = parts[-1]
            for x in reversed(parts[:-1]):
                acc = f'({"MCOr" if isinstance(e.op, ast.Or) else "MCAnd"} {x} {acc})'
            return acc
        if isinstance(e, ast.Compare) and len(e.ops) == 1:
            op, a, b = e.ops[0], e.left, e.comparators[0]
            if isinstance(op, (ast.Eq, ast.NotEq)):
                if isinstance(a, ast.Constant):
                    a, b = b, a
                if isinstance(b, ast.Constant) and isinstance(b.value, str):
                    if self._is_key_fold(a):
                        c = f'(MCKeyIs {_coq_str(b.value)})'
                    elif self._is_new_fold(a):
                        c = f'(MCNewIs {_coq_str(b.value)})'
                    else:
                        raise TranslateError(f'{w}: unrecognised comparison {ast.unparse(e)}')
                    return c if isinstance(op, ast.Eq) else f'(MCNot {c})'
            if isinstance(op, (ast.In, ast.NotIn)) and _is_self(a) and _self_map_attr(b, 'entities'):
                return 'MCInEnts' if isinstance(op, ast.In) else '(MCNot MCInEnts)'
            if isinstance(op, (ast.Is, ast.IsNot)) and ((_is_self(a) and _self_map_attr(b, 'spawn')) or (_is_self(b) and _self_map_attr(a, 'spawn'))):
                return 'MCIsSpawn' if isinstance(op, ast.Is) else '(MCNot MCIsSpawn)'
        if isinstance(e, ast.Attribute) and _is_self(e.value) and e.attr not in ('map', '_keys') and e.attr.isascii():
            # round 5: a flag kept on the entity object (`self._in_map`).  The model has no such state: the condition is
            # translated to [MCCached], which no fact of the path obligations decides (cond_abs = None), so the program
            # passes only if nothing depends on the flag; the state census `prog_stateless` names the shape
            return f'(MCCached {_coq_str(e.attr)})'
        raise TranslateError(f'{w}: unrecognised condition {ast.unparse(e)}')

    def key(self, e: ast.expr, target: bool, w: str) -> str:
        """The value folded into an index key.  by_target keys must be `<folded> or None` (or a literal)."""
        if isinstance(e, ast.Name) and e.id in self.keys:
            kind, k = self.keys[e.id]
            if kind != ('t' if target else 'c'):
                raise TranslateError(f'{w}: key local {e.id} used for the wrong index')
            return k
        if target:
            if isinstance(e, ast.Constant) and e.value is None:
                return '(MKLit [])'
            if isinstance(e, ast.BoolOp) and isinstance(e.op, ast.Or) and len(e.values) == 2 \
                    and isinstance(e.values[1], ast.Constant) and e.values[1].value is None:
                e = e.values[0]
            elif isinstance(e, ast.Constant) and isinstance(e.value, str) and e.value:
                return f'(MKLit {_coq_str(e.value)})'
            else:
                raise TranslateError(f'{w}: by_target key is not `<folded value> or None`: {ast.unparse(e)}')
        if isinstance(e, ast.Constant) and isinstance(e.value, str):
            return f'(MKLit {_coq_str(e.value)})'
        v = self._folded(e)
        if isinstance(v, ast.Name) and v.id == self.newvar:
            return 'MKNew'
        if isinstance(v, ast.BoolOp) and isinstance(v.op, ast.Or) and len(v.values) == 2 and isinstance(v.values[0], ast.Name) \
                and v.values[0].id == self.ov and isinstance(v.values[1], ast.Constant) and v.values[1].value == '':
            return 'MKOrig'
        raise TranslateError(f'{w}: unrecognised index key {ast.unparse(e)}')

    def bind_local(self, name: str, v: ast.expr, w: str) -> bool:
        """`name = v` where v is a condition or an index key: remember it for inlining."""
        if name in self.conds or name in self.keys:
            raise TranslateError(f'{w}: local {name} is assigned twice')
        for kind in ('cond', 'c', 't'):
            try:
                if kind == 'cond':
                    self.conds[name] = self.cond(v, w)
                else:
                    self.keys[name] = (kind, self.key(v, kind == 't', w))
            except TranslateError:
                continue
            return True
        return False

    # -- statements
    def _direct_value(self, v: ast.expr) -> str | None:
        """the value of a direct `self._keys[key] = ...` store in the maintenance part: a string literal, the previous
        value, or `<previous value> or '<literal>'` (round 4)"""
        if isinstance(v, ast.Constant) and isinstance(v.value, str) and v.value.isascii():
            return f'(AStoreKey {_coq_str(v.value)})'
        if isinstance(v, ast.Name) and self.ov is not None and v.id == self.ov:
            return '(AStoreKeyOrig [])'
        if isinstance(v, ast.BoolOp) and isinstance(v.op, ast.Or) and len(v.values) == 2 and isinstance(v.values[0], ast.Name) \
                and self.ov is not None and v.values[0].id == self.ov and isinstance(v.values[1], ast.Constant) \
                and isinstance(v.values[1].value, str) and v.values[1].value.isascii():
            return f'(AStoreKeyOrig {_coq_str(v.values[1].value)})'
        return None

    @staticmethod
    def _irrelevant(st: ast.stmt) -> bool:
        """A statement that cannot touch the indexes, the entity list, the classname/targetname or the control flow."""
        for n in ast.walk(st):
            if isinstance(n, ast.Attribute) and n.attr in ('by_class', 'by_target', 'entities', 'spawn'):
                return False
            if isinstance(n, ast.Name) and n.id == '_remove_copyset':
                return False
            if isinstance(n, (ast.Raise, ast.Return, ast.Yield, ast.YieldFrom, ast.Await)):
                return False
            if isinstance(n, ast.Subscript) and _is_self(n.value) and not isinstance(n.ctx, ast.Load):
                return False
            if isinstance(n, ast.Call) and isinstance(n.func, ast.Attribute) and _is_self(n.func.value):
                return False
        return True

    def _index_sub(self, e: ast.expr) -> tuple[str, ast.expr] | None:
        """self.map.by_X[KEY] -> (X, KEY)"""
        if isinstance(e, ast.Subscript):
            for ix in INDEXES:
                if _self_map_attr(e.value, ix):
                    return ix, e.slice
        return None

    def block(self, stmts: list[ast.stmt], k: str, other: bool) -> str:
        if not stmts:
            return k
        st, rest = stmts[0], stmts[1:]
        w = f'{self.where}:{st.lineno}'
        if isinstance(st, ast.Pass) or (isinstance(st, ast.Expr) and isinstance(st.value, ast.Constant)):
            return self.block(rest, k, other)
        if isinstance(st, ast.If):
            c = self.cond(st.test, w)
            cont = self.block(rest, k, other)
            # the positive branch of `key_fold == '<a key that is not indexed>'` is about that key only
            m = c.startswith('(MCKeyIs ') and isinstance(st.test, ast.Compare) and not any(
                isinstance(x, ast.Constant) and x.value in self.INDEXED for x in ast.walk(st.test))
            saved = (dict(self.conds), dict(self.keys))
            yes = self.block(st.body, cont, other or m)
            self.conds, self.keys = dict(saved[0]), dict(saved[1])
            no = self.block(st.orelse, cont, other)
            self.conds, self.keys = saved
            return f'(MIf {c} {yes} {no})'
        if isinstance(st, ast.Return):
            if st.value is not None and not (isinstance(st.value, ast.Constant) and st.value.value is None):
                raise TranslateError(f'{w}: __setitem__ returns a value')
            return 'MSkip'
        if isinstance(st, ast.Raise):
            exc = st.exc.func if isinstance(st.exc, ast.Call) else st.exc
            name = exc.id if isinstance(exc, ast.Name) else '?'
            code = {'KeyError': 'EKey', 'ValueError': 'EValue'}.get(name, 'EOther')
            return f'(MAct (ARaise {code}))'
        act: str | None = None
        if isinstance(st, ast.Expr) and isinstance(st.value, ast.Call):
            call = st.value
            if isinstance(call.func, ast.Name) and call.func.id == '_remove_copyset':
                if len(call.args) != 3 or call.keywords or not _is_self(call.args[2]):
                    raise TranslateError(f'{w}: unrecognised _remove_copyset call')
                for ix in INDEXES:
                    if _self_map_attr(call.args[0], ix):
                        act = f'({"ARemClass" if ix == "by_class" else "ARemTarget"} {self.key(call.args[1], ix == "by_target", w)})'
                if act is None:
                    raise TranslateError(f'{w}: _remove_copyset on something that is not self.map.by_class / by_target')
            elif isinstance(call.func, ast.Attribute) and call.func.attr == 'add' and self._index_sub(call.func.value):
                ix, kexpr = self._index_sub(call.func.value)   # type: ignore[misc]
                if len(call.args) != 1 or call.keywords or not _is_self(call.args[0]):
                    raise TranslateError(f'{w}: an index addition that does not add `self`')
                act = f'({"AAddClass" if ix == "by_class" else "AAddTarget"} {self.key(kexpr, ix == "by_target", w)})'
        if isinstance(st, ast.AnnAssign) and st.value is not None:
            st = ast.Assign(targets=[st.target], value=st.value, lineno=st.lineno)
        if isinstance(st, ast.Assign) and len(st.targets) == 1:
            t, v = st.targets[0], st.value
            if isinstance(t, ast.Subscript) and _is_self(t.value):
                if isinstance(t.slice, ast.Constant) and isinstance(t.slice.value, str) and isinstance(v, ast.Constant) and isinstance(v.value, str):
                    act = f'(ASelfSet {_coq_str(t.slice.value)} {_coq_str(v.value)})'
                else:
                    raise TranslateError(f'{w}: unrecognised recursive store {ast.unparse(st)}')
            elif isinstance(t, ast.Subscript) and _is_self_keys(t.value) and self._direct_value(v) is not None:
                # a direct store: it must go to the spelling under which the value was just stored
                if not (isinstance(t.slice, ast.Name) and self.hit.env.get(t.slice.id) == ('spell', self.hit.stored)
                        and self.miss.env.get(t.slice.id) == ('spell', self.miss.stored)):
                    raise TranslateError(f'{w}: direct _keys store under another spelling than the one just used')
                act = self._direct_value(v)
            elif isinstance(t, ast.Name) and t.id not in (self.ov, self.newvar, self.key_param):
                # a boolean or key local: inline it
                # (statements after an `if` are translated before its branches, so a local may be bound only once on the
                # way to a statement, and a binding made in one branch is not visible in the other or afterwards)
                if self.bind_local(t.id, v, w):
                    return self.block(rest, k, other)
        if act is not None:
            return _seq(f'(MAct {act})', self.block(rest, k, other))
        if other and self._irrelevant(st):
            return self.block(rest, k, other)
        raise TranslateError(f'{w}: unrecognised statement in the index maintenance part: {ast.unparse(st)[:80]}')


def _setitem_maint(ctx: dict) -> tuple[str, dict]:
    tr = _MaintTr(ctx)
    # boolean / key locals bound between the lookup loop and the `if key_fold == 'classname'` chain (straight-line
    # statements every path executes; the lookup walk has already accepted them) are visible to the chain
    for st in ctx['post']:
        if isinstance(st, ast.AnnAssign) and st.value is not None:
            st = ast.Assign(targets=[st.target], value=st.value, lineno=st.lineno)
        if isinstance(st, ast.Assign) and len(st.targets) == 1 and isinstance(st.targets[0], ast.Name) \
                and st.targets[0].id not in (tr.ov, tr.newvar, tr.key_param):
            tr.bind_local(st.targets[0].id, st.value, f'{tr.where}:{st.lineno}')
    prog = tr.block(list(ctx['rest']), 'MSkip', False)
    return f'Definition gen_setitem_maint : mprog :=\n  {prog}.\n', dict(prog=prog)


# ---------------------------------------------------------------------------------------------- VMF.add_ents
def _add_ents_prog(fn: ast.FunctionDef) -> tuple[str, dict]:
    where = 'VMF.add_ents'
    params = [a.arg for a in fn.args.args]
    if len(params) != 2 or params[0] != 'self' or fn.args.vararg or fn.args.kwarg or fn.args.kwonlyargs:
        raise TranslateError(f'{where}: unexpected parameters {params}')
    env: dict[str, str] = {params[1]: 'SArg'}
    prog: list[str] = []

    def src(e: ast.expr, w: str) -> str:
        if isinstance(e, ast.Name) and e.id in env:
            return env[e.id]
        raise TranslateError(f'{w}: unrecognised iterable {ast.unparse(e)}')

    def is_entities(e: ast.expr) -> bool:
        return isinstance(e, ast.Attribute) and e.attr == 'entities' and _is_self(e.value)

    def item_key(e: ast.expr, item: str, want: str, target: bool, w: str) -> None:
        if target:
            if not (isinstance(e, ast.BoolOp) and isinstance(e.op, ast.Or) and len(e.values) == 2
                    and isinstance(e.values[1], ast.Constant) and e.values[1].value is None):
                raise TranslateError(f'{w}: by_target key is not `<folded value> or None`')
            e = e.values[0]
        if not (isinstance(e, ast.Call) and isinstance(e.func, ast.Attribute) and e.func.attr == 'casefold' and not e.args and not e.keywords):
            raise TranslateError(f'{w}: index key is not folded: {ast.unparse(e)}')
        v = e.func.value
        k: ast.expr | None = None
        if isinstance(v, ast.Subscript) and isinstance(v.value, ast.Name) and v.value.id == item:
            k = v.slice
            if isinstance(k, ast.Tuple) and len(k.elts) == 2 and isinstance(k.elts[1], ast.Constant) and k.elts[1].value == '':
                k = k.elts[0]
        elif isinstance(v, ast.Call) and isinstance(v.func, ast.Attribute) and v.func.attr == 'get' and isinstance(v.func.value, ast.Name) \
                and v.func.value.id == item and not v.keywords and 1 <= len(v.args) <= 2 \
                and (len(v.args) == 1 or (isinstance(v.args[1], ast.Constant) and v.args[1].value == '')):
            k = v.args[0]
        if not (isinstance(k, ast.Constant) and k.value == want):
            raise TranslateError(f'{w}: index key is not the {want} of the item: {ast.unparse(e)}')

    def body_kinds(body: list[ast.stmt], item: str) -> list[str]:
        out: list[str] = []
        for st in body:
            w = f'{where}:{st.lineno}'
            if isinstance(st, ast.Pass) or (isinstance(st, ast.Expr) and isinstance(st.value, ast.Constant)):
                continue
            call = st.value if isinstance(st, ast.Expr) and isinstance(st.value, ast.Call) else None
            if call is not None and isinstance(call.func, ast.Attribute) and len(call.args) == 1 and not call.keywords \
                    and isinstance(call.args[0], ast.Name) and call.args[0].id == item:
                f = call.func
                if f.attr == 'append' and is_entities(f.value):
                    out.append('PAppend')
                    continue
                if f.attr == 'add_ent' and _is_self(f.value):
                    out += ['PAppend', 'PClass', 'PTarget']
                    continue
                if f.attr == 'add' and isinstance(f.value, ast.Subscript) and _self_index(f.value.value):
                    ix = _self_index(f.value.value)
                    item_key(f.value.slice, item, 'classname' if ix == 'by_class' else 'targetname', ix == 'by_target', w)
                    out.append('PClass' if ix == 'by_class' else 'PTarget')
                    continue
            raise TranslateError(f'{w}: unrecognised statement in the loop body: {ast.unparse(st)[:80]}')
        return out

    body = _strip_doc(fn.body)
    for i, st in enumerate(body):
        w = f'{where}:{st.lineno}'
        if isinstance(st, ast.AnnAssign) and st.value is not None:
            st = ast.Assign(targets=[st.target], value=st.value, lineno=st.lineno)
        if isinstance(st, ast.Assign) and len(st.targets) == 1 and isinstance(st.targets[0], ast.Name):
            v = st.value
            inner: ast.expr | None = None
            if isinstance(v, ast.Call) and isinstance(v.func, ast.Name) and v.func.id in ('list', 'tuple') and len(v.args) == 1 and not v.keywords:
                inner = v.args[0]
            elif isinstance(v, (ast.List, ast.Tuple)) and len(v.elts) == 1 and isinstance(v.elts[0], ast.Starred):
                inner = v.elts[0].value
            elif isinstance(v, ast.ListComp) and len(v.generators) == 1 and not v.generators[0].ifs and isinstance(v.elt, ast.Name) \
                    and isinstance(v.generators[0].target, ast.Name) and v.generators[0].target.id == v.elt.id:
                inner = v.generators[0].iter
            if inner is None:
                raise TranslateError(f'{w}: unrecognised assignment {ast.unparse(st)[:80]}')
            s0 = src(inner, w)
            if s0 == 'SArg':
                if 'SMat' in env.values():
                    raise TranslateError(f'{w}: the argument is materialised twice')
                prog.append('AEMaterialise')
            env[st.targets[0].id] = 'SMat'
            continue
        if isinstance(st, ast.Expr) and isinstance(st.value, ast.Call) and isinstance(st.value.func, ast.Attribute) \
                and st.value.func.attr == 'extend' and is_entities(st.value.func.value) and len(st.value.args) == 1 and not st.value.keywords:
            prog.append(f'AELoop {src(st.value.args[0], w)} [PAppend]')
            continue
        if isinstance(st, ast.AugAssign) and isinstance(st.op, ast.Add) and is_entities(st.target):
            prog.append(f'AELoop {src(st.value, w)} [PAppend]')
            continue
        if isinstance(st, ast.For) and not st.orelse and isinstance(st.target, ast.Name):
            kinds = body_kinds(st.body, st.target.id)
            prog.append(f'AELoop {src(st.iter, w)} [{"; ".join(kinds)}]')
            continue
        if isinstance(st, ast.Return) and st.value is None and i == len(body) - 1:
            continue
        raise TranslateError(f'{w}: unrecognised statement {ast.unparse(st)[:80]}')
    lst = '[' + '; '.join(prog) + ']'
    return f'Definition gen_add_ents : aeprog := {lst}.\n', dict(prog=prog)


def translate() -> tuple[str, dict]:
    path = SRC / 'vmf.py'
    try:
        tree = ast.parse(path.read_text(encoding='utf8'))
    except SyntaxError as e:
        raise TranslateError(f'vmf.py: {e}') from None
    c1, s1, ctx = _setitem_shape(_find(tree, 'Entity', '__setitem__'))
    c4, s4 = _setitem_maint(ctx)
    c5, s5 = _add_ents_prog(_find(tree, 'VMF', 'add_ents'))
    c2, s2 = _search_shape(_find(tree, 'VMF', 'search'))
    c3, s3 = _copyset_iter(_find(tree, 'CopySet', '__iter__'))
    c6, s6 = _remove_copyset_shape(_find(tree, None, '_remove_copyset'))
    text = ('(* GENERATED by translate/c07_index_shapes.py from /repo/src/srctools/vmf.py. Do not edit. *)\n'
            'From stdpp Require Import list.\nFrom Coq Require Import NArith.\n'
            'From SV Require Import SM.IndexModel SM.IndexShapes SM.IndexMaint SM.IndexRemove.\n\n' + c1 + '\n' + c2 + '\n' + c3 + '\n' + c4 + '\n' + c5
            + '\n' + c6)
    return text, {'setitem': s1, 'search': s2, 'copyset_iter': s3, 'setitem_maint': s4, 'add_ents': s5, 'remove_copyset': s6}


GEN = {'IndexShapes_gen': translate}
