"""C07 translator (round 4): the glue around the index-maintaining functions, as written  ->  Gen/IndexGlue_gen.v
(types and semantics: rocq/SM/IndexGlue.v; theorems: rocq/SM/IndexGlueProofs.v).

  gen_vmf_init        VMF.__init__: the statements that create the two indexes and the entity list, construct the
                      worldspawn, class it through __setitem__ and file it under no name, as a [list gstmt]
  gen_parse_spawn     VMF.parse: the statements between `map_obj = VMF(...)` and the entity loop that touch the
                      indexes / the spawn (the parsed world block becomes an entity, the placeholder leaves both indexes,
                      the spawn is replaced, classed and filed under its name)
  gen_parse_entity    VMF.parse: what every leaf of the entity loop does (`map_obj.add_ent(Entity.parse(map_obj, block))`)
  gen_create_ent      VMF.create_ent
  gen_einit           Entity.__init__: is the key dict new and empty, is self.map assigned first, how do the keys go in
  gen_entity_parse_through_init   Entity.parse returns Entity(<its map argument>, ...)
  gen_copy            Entity.copy: Entity(vmf_file=vmf_file or self.map, keys=self._keys, ...)
  gen_pop             Entity.pop: lookup loop + how the matching key is deleted
  gen_make_unique     Entity.make_unique: which name is looked up where (folded?), {self} test, clear-first, rstrip,
                      counter start / step, candidate = base + str(i), stores through __setitem__
  gen_mixins_inherited / gen_getitem_never_raises
                      Entity derives from MutableMapping and does not define popitem / setdefault / update itself
                      (they are the standard library's, which go through __getitem__/__setitem__/__delitem__);
                      Entity.__getitem__ has no `raise` (so setdefault never stores)

A statement is *relevant* when it mentions by_class / by_target / entities / spawn / _remove_copyset / Entity / add_ent /
add_ents / remove_ent or a local bound to a constructed entity.  Every relevant statement must be one of the recognised
forms; anything else raises TranslateError (fail-closed).  `<ent>.solids` accesses are the only benign uses.
"""
from __future__ import annotations

import ast

from harness.common import SRC, TranslateError
from translate.c07_index_shapes import _coq_str, _find, _strip_doc, _is_self, _is_self_keys, _mentions_keys

SENSITIVE_ATTRS = ('by_class', 'by_target', 'entities', 'spawn', 'add_ent', 'add_ents', 'remove_ent')
BENIGN_ENT_ATTRS = ('solids',)


def _b(x: bool) -> str:
    return 'true' if x else 'false'


def _lit(e: ast.AST, v) -> bool:
    return isinstance(e, ast.Constant) and e.value == v and type(e.value) is type(v)


def _is_none(e: ast.AST) -> bool:
    return isinstance(e, ast.Constant) and e.value is None


def _casefold_of(e: ast.AST) -> ast.expr | None:
    if isinstance(e, ast.Call) and isinstance(e.func, ast.Attribute) and e.func.attr == 'casefold' and not e.args and not e.keywords:
        return e.func.value
    return None


# ------------------------------------------------------------------------------------------------ VMF-level glue
class _Glue:
    def __init__(self, where: str, map_is, params: list[str]) -> None:
        self.where = where
        self.map_is = map_is                  # predicate: expression denotes the map object
        self.params = params
        self.ent_locals: set[str] = set()
        self.class_stored = False             # create_ent: kargs['classname'] = classname seen
        self.kw: str | None = None

    # -- expressions
    def is_map_attr(self, e: ast.AST, attr: str) -> bool:
        return isinstance(e, ast.Attribute) and e.attr == attr and self.map_is(e.value)

    def ref(self, e: ast.AST) -> str | None:
        if self.is_map_attr(e, 'spawn'):
            return 'GRSpawn'
        if isinstance(e, ast.Name) and e.id in self.ent_locals:
            return 'GRLoc'
        return None

    def construct(self, e: ast.AST, w: str) -> str | None:
        """Entity(M[, keys=K]) / Entity.parse(M, block, ...)  ->  the key source"""
        if not isinstance(e, ast.Call):
            return None
        f = e.func
        if isinstance(f, ast.Name) and f.id == 'Entity':
            args = list(e.args)
            kws = {k.arg: k.value for k in e.keywords}
            if None in kws:
                raise TranslateError(f'{w}: **kwargs in an Entity(...) call')
            m = args[0] if args else kws.pop('vmf_file', None)
            if m is None or not self.map_is(m):
                raise TranslateError(f'{w}: Entity(...) is not constructed for this map')
            keys = args[1] if len(args) > 1 else kws.pop('keys', None)
            if len(args) > 2 or kws:
                raise TranslateError(f'{w}: unrecognised arguments of Entity(...)')
            if keys is None:
                return 'GKNone'
            if isinstance(keys, ast.Name) and keys.id == self.kw:
                return 'GKArgClass' if self.class_stored else 'GKArg'
            if isinstance(keys, ast.Name) and keys.id in self.params:
                return 'GKArg'
            raise TranslateError(f'{w}: unrecognised keys argument of Entity(...): {ast.unparse(keys)}')
        if isinstance(f, ast.Attribute) and f.attr == 'parse' and isinstance(f.value, ast.Name) and f.value.id == 'Entity':
            if not e.args or not self.map_is(e.args[0]):
                raise TranslateError(f'{w}: Entity.parse(...) is not called for this map')
            return 'GKArg'
        return None

    def tkey(self, e: ast.expr, w: str) -> str:
        if _is_none(e):
            return 'GTNone'
        if isinstance(e, ast.BoolOp) and isinstance(e.op, ast.Or) and len(e.values) == 2 and _is_none(e.values[1]):
            v = _casefold_of(e.values[0])
            if isinstance(v, ast.Subscript):
                k = v.slice
                if isinstance(k, ast.Tuple) and len(k.elts) == 2 and _lit(k.elts[1], ''):
                    k = k.elts[0]
                r = self.ref(v.value)
                if r is not None and _lit(k, 'targetname'):
                    return f'(GTCur {r})'
        raise TranslateError(f'{w}: by_target key is neither None nor `<ent>["targetname"].casefold() or None`: {ast.unparse(e)}')

    # -- statements
    def relevant(self, st: ast.AST) -> bool:
        for n in ast.walk(st):
            if isinstance(n, ast.Attribute) and n.attr in SENSITIVE_ATTRS:
                return True
            if isinstance(n, ast.Name) and (n.id in ('_remove_copyset', 'Entity') or n.id in self.ent_locals):
                return True
        return False

    def benign(self, st: ast.AST) -> bool:
        """every entity reference (the spawn / an entity local) in `st` is `<ref>.solids`, and nothing else is sensitive"""
        parents: dict[int, ast.AST] = {}
        for n in ast.walk(st):
            for c in ast.iter_child_nodes(n):
                parents[id(c)] = n
        for n in ast.walk(st):
            if isinstance(n, ast.Name) and n.id in ('_remove_copyset', 'Entity'):
                return False
            if isinstance(n, ast.Attribute) and n.attr in SENSITIVE_ATTRS and n.attr != 'spawn':
                return False
            if self.ref(n) is not None:
                p = parents.get(id(n))
                if not (isinstance(p, ast.Attribute) and p.attr in BENIGN_ENT_ATTRS):
                    return False
            elif isinstance(n, ast.Attribute) and n.attr == 'spawn':
                return False
        return True

    def simple(self, st: ast.stmt) -> list[str]:
        """one simple statement -> gstmts (empty when irrelevant)"""
        w = f'{self.where}:{st.lineno}'
        if isinstance(st, ast.AnnAssign) and st.value is not None:
            st = ast.Assign(targets=[st.target], value=st.value, lineno=st.lineno)
        # kargs['classname'] = classname   (create_ent)
        if isinstance(st, ast.Assign) and len(st.targets) == 1 and isinstance(st.targets[0], ast.Subscript) \
                and isinstance(st.targets[0].value, ast.Name) and st.targets[0].value.id == self.kw and self.kw is not None:
            if _lit(st.targets[0].slice, 'classname') and isinstance(st.value, ast.Name) and st.value.id == self.params[1] \
                    and not self.class_stored and not self.ent_locals:
                self.class_stored = True
                return []
            raise TranslateError(f'{w}: unrecognised store into {self.kw}: {ast.unparse(st)[:80]}')
        if not self.relevant(st):
            if self.kw is not None and any(isinstance(n, ast.Name) and n.id == self.kw and isinstance(n.ctx, (ast.Store, ast.Del)) for n in ast.walk(st)):
                raise TranslateError(f'{w}: {self.kw} is rebound')
            return []
        if isinstance(st, ast.Return):
            if st.value is None or self.ref(st.value) is not None or self.map_is(st.value):
                return []
            raise TranslateError(f'{w}: unrecognised return value {ast.unparse(st.value)[:60]}')
        if isinstance(st, ast.Assign) and len(st.targets) == 1:
            t, v = st.targets[0], st.value
            if self.is_map_attr(t, 'by_class') or self.is_map_attr(t, 'by_target'):
                ok = (isinstance(v, ast.Call) and isinstance(v.func, ast.Name) and v.func.id == 'defaultdict' and len(v.args) == 1
                      and not v.keywords and isinstance(v.args[0], ast.Name) and v.args[0].id == 'CopySet')
                if not ok:
                    raise TranslateError(f'{w}: {t.attr} is not created as defaultdict(CopySet): {ast.unparse(v)[:60]}')
                return ['GFreshClass' if t.attr == 'by_class' else 'GFreshTarget']
            if self.is_map_attr(t, 'entities'):
                if not ((isinstance(v, ast.List) and not v.elts) or (isinstance(v, ast.Call) and isinstance(v.func, ast.Name) and v.func.id == 'list' and not v.args and not v.keywords)):
                    raise TranslateError(f'{w}: the entity list is not created empty: {ast.unparse(v)[:60]}')
                return ['GFreshEnts']
            src = self.construct(v, w)
            if src is not None:
                if self.is_map_attr(t, 'spawn'):
                    self.ent_locals.add('<spawn>')
                    return [f'(GNewEnt {src})', 'GAssignSpawn']
                if isinstance(t, ast.Name) and t.id not in self.params and not self.ent_locals:
                    self.ent_locals.add(t.id)
                    return [f'(GNewEnt {src})']
                raise TranslateError(f'{w}: unrecognised target of a constructed entity: {ast.unparse(t)}')
            if self.is_map_attr(t, 'spawn'):
                if self.ref(v) == 'GRLoc':
                    return ['GAssignSpawn']
                raise TranslateError(f'{w}: the spawn is assigned something that is not the entity constructed here: {ast.unparse(v)[:60]}')
            if isinstance(t, ast.Subscript) and self.ref(t.value) is not None:
                if isinstance(t.slice, ast.Constant) and isinstance(t.slice.value, str) and isinstance(v, ast.Constant) and isinstance(v.value, str) \
                        and t.slice.value.isascii() and v.value.isascii():
                    return [f'(GSetItem {self.ref(t.value)} {_coq_str(t.slice.value)} {_coq_str(v.value)})']
                raise TranslateError(f'{w}: unrecognised keyvalue store: {ast.unparse(st)[:80]}')
        if isinstance(st, ast.Expr) and isinstance(st.value, ast.Call):
            c = st.value
            if isinstance(c.func, ast.Name) and c.func.id == '_remove_copyset' and len(c.args) == 3 and not c.keywords:
                ix, k, r = c.args
                rr = self.ref(r)
                if rr is None:
                    raise TranslateError(f'{w}: _remove_copyset of something that is not the spawn / the constructed entity')
                if self.is_map_attr(ix, 'by_class'):
                    if isinstance(k, ast.Constant) and isinstance(k.value, str) and k.value.isascii():
                        return [f'(GRemClass {_coq_str(k.value)} {rr})']
                    raise TranslateError(f'{w}: by_class removal key is not a literal: {ast.unparse(k)[:60]}')
                if self.is_map_attr(ix, 'by_target'):
                    return [f'(GRemTarget {self.tkey(k, w)} {rr})']
                raise TranslateError(f'{w}: _remove_copyset on {ast.unparse(ix)[:40]}')
            if isinstance(c.func, ast.Attribute) and c.func.attr == 'add' and isinstance(c.func.value, ast.Subscript) \
                    and len(c.args) == 1 and not c.keywords:
                ix = c.func.value
                rr = self.ref(c.args[0])
                if self.is_map_attr(ix.value, 'by_target') and rr is not None:
                    return [f'(GAddTarget {self.tkey(ix.slice, w)} {rr})']
                raise TranslateError(f'{w}: unrecognised index addition {ast.unparse(st)[:80]}')
            if self.is_map_attr(c.func, 'add_ent') and len(c.args) == 1 and not c.keywords:
                a = c.args[0]
                if self.ref(a) == 'GRLoc':
                    return ['(GAddEnt GRLoc)']
                src = self.construct(a, w)
                if src is not None and not self.ent_locals:
                    return [f'(GNewEnt {src})', '(GAddEnt GRLoc)']
                raise TranslateError(f'{w}: add_ent of {ast.unparse(a)[:60]}')
        if self.benign(st):
            return []
        raise TranslateError(f'{w}: unrecognised statement {ast.unparse(st)[:90]}')

    def leaves(self, st: ast.stmt, out: list[list[str]]) -> None:
        """the entity loop of parse: every relevant leaf statement inside For / If as its own statement list"""
        if isinstance(st, (ast.For, ast.If)):
            hdr = st.iter if isinstance(st, ast.For) else st.test
            if self.relevant(hdr):
                raise TranslateError(f'{self.where}:{st.lineno}: loop header / test mentions the indexes or an entity')
            for s in list(st.body) + list(st.orelse):
                self.leaves(s, out)
            return
        if isinstance(st, (ast.While, ast.With, ast.Try, ast.Match, ast.FunctionDef, ast.ClassDef)) and self.relevant(st):
            raise TranslateError(f'{self.where}:{st.lineno}: unrecognised compound statement in the entity loop')
        saved = set(self.ent_locals)
        self.ent_locals = set()
        try:
            l = self.simple(st)
        finally:
            self.ent_locals = saved
        if l:
            out.append(l)


def _lst(xs: list[str]) -> str:
    return '[' + '; '.join(xs) + ']'


def _vmf_init(fn: ast.FunctionDef) -> tuple[str, dict]:
    g = _Glue(f'VMF.__init__:{fn.lineno}', _is_self, [a.arg for a in fn.args.args])
    out: list[str] = []
    for st in _strip_doc(fn.body):
        if isinstance(st, (ast.For, ast.While, ast.If, ast.With, ast.Try, ast.Match)):
            if g.relevant(st) and not g.benign(st):
                raise TranslateError(f'{g.where}:{st.lineno}: compound statement touching the indexes / the spawn')
            continue
        out += g.simple(st)
    return f'Definition gen_vmf_init : list gstmt := {_lst(out)}.\n', dict(stmts=out)


def _create_ent(fn: ast.FunctionDef) -> tuple[str, dict]:
    params = [a.arg for a in fn.args.args]
    if len(params) != 2 or fn.args.kwarg is None or fn.args.vararg or fn.args.kwonlyargs:
        raise TranslateError(f'VMF.create_ent:{fn.lineno}: unexpected parameters')
    g = _Glue(f'VMF.create_ent:{fn.lineno}', _is_self, params)
    g.kw = fn.args.kwarg.arg
    out: list[str] = []
    for st in _strip_doc(fn.body):
        if isinstance(st, (ast.For, ast.While, ast.If, ast.With, ast.Try, ast.Match)):
            raise TranslateError(f'{g.where}:{st.lineno}: compound statement')
        out += g.simple(st)
    return f'Definition gen_create_ent : list gstmt := {_lst(out)}.\n', dict(stmts=out)


def _parse(fn: ast.FunctionDef) -> tuple[str, dict]:
    where = f'VMF.parse:{fn.lineno}'
    mapvar: list[str] = []
    g = _Glue(where, lambda e: isinstance(e, ast.Name) and bool(mapvar) and e.id == mapvar[0], [a.arg for a in fn.args.args])
    spawn: list[str] = []
    ent_leaves: list[list[str]] = []
    for st in _strip_doc(fn.body):
        w = f'{where}:{st.lineno}'
        if not mapvar:
            # up to `map_obj = VMF(...)` nothing may touch a map
            if isinstance(st, ast.Assign) and len(st.targets) == 1 and isinstance(st.targets[0], ast.Name) and isinstance(st.value, ast.Call) \
                    and isinstance(st.value.func, ast.Name) and st.value.func.id == 'VMF':
                mapvar.append(st.targets[0].id)
                continue
            if g.relevant(st):
                raise TranslateError(f'{w}: the indexes / entities are mentioned before the map is constructed')
            continue
        if any(isinstance(n, ast.Name) and n.id == mapvar[0] and isinstance(n.ctx, (ast.Store, ast.Del)) for n in ast.walk(st)):
            raise TranslateError(f'{w}: {mapvar[0]} is rebound')
        if isinstance(st, (ast.For, ast.While, ast.If, ast.With, ast.Try, ast.Match)):
            if not g.relevant(st) or g.benign(st):
                continue
            if isinstance(st, ast.For) and 'GAssignSpawn' in spawn:
                g.leaves(st, ent_leaves)
                continue
            raise TranslateError(f'{w}: compound statement touching the indexes / entities outside the entity loop')
        if ent_leaves and g.relevant(st) and not isinstance(st, ast.Return):
            raise TranslateError(f'{w}: statement touching the indexes / entities after the entity loop')
        spawn += g.simple(st)
    if not mapvar:
        raise TranslateError(f'{where}: no `<map> = VMF(...)` found')
    if not ent_leaves:
        raise TranslateError(f'{where}: no entity loop found')
    if any(l != ent_leaves[0] for l in ent_leaves):
        raise TranslateError(f'{where}: the leaves of the entity loop differ: {ent_leaves}')
    coq = (f'Definition gen_parse_spawn : list gstmt := {_lst(spawn)}.\n'
           f'Definition gen_parse_entity : list gstmt := {_lst(ent_leaves[0])}.\n')
    return coq, dict(spawn=spawn, entity=ent_leaves[0], entity_leaves=len(ent_leaves))


# ------------------------------------------------------------------------------------------------ Entity.__init__ / parse / copy
def _self_attr(e: ast.AST, attr: str) -> bool:
    return isinstance(e, ast.Attribute) and e.attr == attr and _is_self(e.value)


def _einit(fn: ast.FunctionDef) -> tuple[str, dict]:
    where = f'Entity.__init__:{fn.lineno}'
    params = [a.arg for a in fn.args.args]
    if len(params) < 3 or params[0] != 'self':
        raise TranslateError(f'{where}: unexpected parameters')
    mapp, keysp = params[1], params[2]
    fresh_at: int | None = None
    map_at: int | None = None
    store_at: int | None = None
    how = 'EINone'
    aliased = False
    for i, st in enumerate(_strip_doc(fn.body)):
        w = f'{where}:{st.lineno}'
        if isinstance(st, ast.AnnAssign) and st.value is not None:
            st = ast.Assign(targets=[st.target], value=st.value, lineno=st.lineno)
        if isinstance(st, ast.Assign) and len(st.targets) == 1 and _self_attr(st.targets[0], 'map'):
            if not (isinstance(st.value, ast.Name) and st.value.id == mapp) or map_at is not None:
                raise TranslateError(f'{w}: self.map is not assigned the map parameter exactly once')
            map_at = i
            continue
        if isinstance(st, ast.Assign) and len(st.targets) == 1 and _is_self_keys(st.targets[0]):
            v = st.value
            if fresh_at is not None:
                raise TranslateError(f'{w}: self._keys is assigned twice')
            empty = (isinstance(v, ast.Dict) and not v.keys) or (isinstance(v, ast.Call) and isinstance(v.func, ast.Name)
                                                                and v.func.id in ('_KeyDict', 'dict') and not v.args and not v.keywords)
            filled = (isinstance(v, ast.Call) and isinstance(v.func, ast.Name) and v.func.id in ('_KeyDict', 'dict') and len(v.args) == 1
                      and not v.keywords and isinstance(v.args[0], ast.Name) and v.args[0].id == keysp)
            if empty:
                fresh_at = i
            elif filled:
                fresh_at = i
                how, store_at = 'EIDirect', i
            else:
                # round 5: any other value (the argument itself, a conditional expression that may pick it, another object's
                # dict ...) is not known to be a dict of this entity's own: the shape says "not a new empty dict" and the
                # named obligation entity_init_starts_from_a_new_empty_key_dict fails (an alias shares later stores)
                fresh_at, aliased = i, True
            continue
        # for k, v in keys.items(): self[k] = v
        if isinstance(st, ast.For) and any(isinstance(n, ast.Name) and n.id == keysp for n in ast.walk(st.iter)):
            it = st.iter
            ok = (isinstance(it, ast.Call) and isinstance(it.func, ast.Attribute) and it.func.attr == 'items' and not it.args
                  and isinstance(it.func.value, ast.Name) and it.func.value.id == keysp and isinstance(st.target, ast.Tuple)
                  and len(st.target.elts) == 2 and all(isinstance(x, ast.Name) for x in st.target.elts) and not st.orelse and len(st.body) == 1)
            if ok:
                kn, vn = (x.id for x in st.target.elts)    # type: ignore[union-attr]
                b = st.body[0]
                ok = (isinstance(b, ast.Assign) and len(b.targets) == 1 and isinstance(b.targets[0], ast.Subscript)
                      and isinstance(b.targets[0].slice, ast.Name) and b.targets[0].slice.id == kn
                      and isinstance(b.value, ast.Name) and b.value.id == vn)
                if ok and _is_self(b.targets[0].value):        # type: ignore[union-attr]
                    h = 'EISetItemLoop'
                elif ok and _is_self_keys(b.targets[0].value):  # type: ignore[union-attr]
                    h = 'EIDirect'
                else:
                    ok = False
            if not ok or store_at is not None:
                raise TranslateError(f'{w}: unrecognised loop over the keys argument')
            how, store_at = h, i
            continue
        if isinstance(st, ast.Expr) and isinstance(st.value, ast.Call) and isinstance(st.value.func, ast.Attribute) and st.value.func.attr == 'update' \
                and len(st.value.args) == 1 and not st.value.keywords and isinstance(st.value.args[0], ast.Name) and st.value.args[0].id == keysp:
            tgt = st.value.func.value
            if store_at is not None or not (_is_self(tgt) or _is_self_keys(tgt)):
                raise TranslateError(f'{w}: unrecognised update with the keys argument')
            how, store_at = ('EISetItemLoop' if _is_self(tgt) else 'EIDirect'), i
            continue
        bad = _mentions_keys(st) or any(isinstance(n, ast.Name) and n.id == keysp for n in ast.walk(st)) \
            or any(isinstance(n, ast.Subscript) and _is_self(n.value) and not isinstance(n.ctx, ast.Load) for n in ast.walk(st)) \
            or any(isinstance(n, ast.Attribute) and n.attr in ('by_class', 'by_target', 'entities', 'spawn') for n in ast.walk(st))
        if bad:
            raise TranslateError(f'{w}: unrecognised statement {ast.unparse(st)[:80]}')
    fresh = fresh_at is not None and (store_at is None or fresh_at <= store_at) and not aliased
    map_first = map_at is not None and (store_at is None or map_at < store_at or how != 'EISetItemLoop')
    return (f'Definition gen_einit : einit_shape := EI {_b(fresh)} {_b(map_first)} {how}.\n',
            dict(fresh_dict=fresh, map_first=map_first, store=how))


def _entity_calls(fn: ast.FunctionDef) -> list[ast.Call]:
    return [n for n in ast.walk(fn) if isinstance(n, ast.Call) and isinstance(n.func, ast.Name) and n.func.id == 'Entity']


def _eparse(fn: ast.FunctionDef) -> tuple[str, dict]:
    where = f'Entity.parse:{fn.lineno}'
    params = [a.arg for a in fn.args.args]
    calls = _entity_calls(fn)
    ok = False
    if len(calls) == 1 and params:
        c = calls[0]
        m = c.args[0] if c.args else next((k.value for k in c.keywords if k.arg == 'vmf_file'), None)
        rets = [n for n in ast.walk(fn) if isinstance(n, ast.Return)]
        ok = isinstance(m, ast.Name) and m.id == params[0] and len(rets) == 1 and rets[0].value is c
    for n in ast.walk(fn):
        if (isinstance(n, ast.Attribute) and n.attr in ('by_class', 'by_target', 'entities', 'spawn', '_keys', 'add_ent', 'add_ents', 'remove_ent')) \
                or (isinstance(n, ast.Name) and n.id == '_remove_copyset'):
            raise TranslateError(f'{where}:{n.lineno}: Entity.parse touches the map ({ast.unparse(n)[:40]})')
    return f'Definition gen_entity_parse_through_init : bool := {_b(ok)}.\n', dict(through_init=ok)


def _copy(fn: ast.FunctionDef) -> tuple[str, dict]:
    where = f'Entity.copy:{fn.lineno}'
    params = [a.arg for a in fn.args.args]
    calls = _entity_calls(fn)
    if len(calls) != 1:
        raise TranslateError(f'{where}: expected exactly one Entity(...) call, found {len(calls)}')
    c = calls[0]
    if any(k.arg is None for k in c.keywords):
        raise TranslateError(f'{where}: **kwargs in Entity(...)')
    kws = {k.arg: k.value for k in c.keywords}
    m = c.args[0] if c.args else kws.get('vmf_file')
    keys = c.args[1] if len(c.args) > 1 else kws.get('keys')
    own_keys = keys is not None and _is_self_keys(keys)
    map_ok = False
    if isinstance(m, ast.BoolOp) and isinstance(m.op, ast.Or) and len(m.values) == 2:
        a, b = m.values
        map_ok = isinstance(a, ast.Name) and a.id in params[1:] and _self_attr(b, 'map')
    elif m is not None and _self_attr(m, 'map'):
        map_ok = False      # the vmf_file argument would be ignored
    # the constructed entity is what is returned (directly or through one local)
    through = False
    rets = [n for n in ast.walk(fn) if isinstance(n, ast.Return)]
    local: str | None = None
    for st in fn.body:
        if isinstance(st, ast.Assign) and st.value is c and len(st.targets) == 1 and isinstance(st.targets[0], ast.Name):
            local = st.targets[0].id
    if len(rets) == 1:
        rv = rets[0].value
        through = rv is c or (local is not None and isinstance(rv, ast.Name) and rv.id == local)
    for n in ast.walk(fn):
        if _mentions_keys(n) and isinstance(n, ast.Attribute) and n is not keys:
            raise TranslateError(f'{where}:{n.lineno}: _keys used outside keys=self._keys')
        if isinstance(n, ast.Subscript) and not isinstance(n.ctx, ast.Load) and isinstance(n.value, ast.Name) and n.value.id in ('self', local):
            raise TranslateError(f'{where}:{n.lineno}: a keyvalue is stored in copy()')
        if isinstance(n, ast.Attribute) and n.attr in ('by_class', 'by_target', 'entities', 'spawn', 'add_ent', 'add_ents', 'remove_ent'):
            raise TranslateError(f'{where}:{n.lineno}: copy() touches the map ({ast.unparse(n)[:40]})')
    return (f'Definition gen_copy : copy_shape := CP {_b(own_keys)} {_b(map_ok)} {_b(through)}.\n',
            dict(own_keys=own_keys, map_arg_or_own=map_ok, through_init=through))


# ------------------------------------------------------------------------------------------------ Entity.pop
def _pop(fn: ast.FunctionDef) -> tuple[str, dict]:
    where = f'Entity.pop:{fn.lineno}'
    params = [a.arg for a in fn.args.posonlyargs + fn.args.args]
    if len(params) < 2 or params[0] != 'self':
        raise TranslateError(f'{where}: unexpected parameters {params}')
    kp = params[1]
    body = _strip_doc(fn.body)

    def is_kp(e: ast.AST) -> bool:
        return isinstance(e, ast.Name) and e.id == kp
    folded = False
    if body and isinstance(body[0], ast.Assign) and len(body[0].targets) == 1 and is_kp(body[0].targets[0]):
        v = _casefold_of(body[0].value)
        if v is None or not is_kp(v):
            raise TranslateError(f'{where}: unrecognised assignment to {kp}')
        folded = True
        body = body[1:]
    loops = [st for st in body if isinstance(st, ast.For) and _is_self_keys(st.iter)]
    if len(loops) != 1 or body[0] is not loops[0]:
        raise TranslateError(f'{where}: expected the lookup loop `for k in self._keys` right after the key is folded')
    loop = loops[0]
    w = f'{where}:{loop.lineno}'
    if not isinstance(loop.target, ast.Name) or loop.orelse or len(loop.body) != 1 or not isinstance(loop.body[0], ast.If) or loop.body[0].orelse:
        raise TranslateError(f'{w}: the lookup loop is not `for k in self._keys: if ...:`')
    kvar = loop.target.id
    test = loop.body[0].test
    if not (isinstance(test, ast.Compare) and len(test.ops) == 1 and isinstance(test.ops[0], ast.Eq)):
        raise TranslateError(f'{w}: lookup test is not an equality')

    def side(e: ast.expr) -> tuple[str, bool]:
        f = False
        v = _casefold_of(e)
        if v is not None:
            e, f = v, True
        if isinstance(e, ast.Name) and e.id == kvar:
            return 'stored', f
        if is_kp(e):
            return 'key', f or folded
        raise TranslateError(f'{w}: unrecognised test operand {ast.unparse(e)}')
    s0, s1 = side(test.left), side(test.comparators[0])
    if {s0[0], s1[0]} != {'stored', 'key'}:
        raise TranslateError(f'{w}: lookup test does not compare a stored key with the given key')
    fold_stored = s0[1] if s0[0] == 'stored' else s1[1]
    key_folded = s0[1] if s0[0] == 'key' else s1[1]
    hit = list(loop.body[0].body)
    if not hit or not isinstance(hit[-1], (ast.Return, ast.Break)):
        raise TranslateError(f'{w}: the matching branch does not end in return / break')
    dels: list[str] = []
    for st in hit:
        for n in ast.walk(st):
            if isinstance(n, ast.Delete):
                for t in n.targets:
                    if isinstance(t, ast.Subscript) and _is_self(t.value):
                        if isinstance(t.slice, ast.Name) and t.slice.id == kvar:
                            dels.append('PDelStored')
                        elif is_kp(t.slice) and folded:
                            dels.append('PDelCaller')
                        else:
                            raise TranslateError(f'{w}: unrecognised deleted key {ast.unparse(t.slice)}')
                    elif isinstance(t, ast.Subscript) and _is_self_keys(t.value):
                        dels.append('PKeysPop')
                    else:
                        raise TranslateError(f'{w}: unrecognised del target {ast.unparse(t)[:40]}')
            elif isinstance(n, ast.Call) and isinstance(n.func, ast.Attribute) and n.func.attr in ('pop', 'popitem', 'clear', 'update', 'setdefault') \
                    and (_is_self_keys(n.func.value) or _is_self(n.func.value)):
                if n.func.attr == 'pop' and _is_self_keys(n.func.value):
                    dels.append('PKeysPop')
                else:
                    raise TranslateError(f'{w}: unrecognised call {ast.unparse(n)[:50]}')
            elif isinstance(n, ast.Subscript) and not isinstance(n.ctx, (ast.Load, ast.Del)) and (_is_self(n.value) or _is_self_keys(n.value)):
                raise TranslateError(f'{w}: a keyvalue is stored in pop()')
            elif isinstance(n, ast.Attribute) and n.attr in ('by_class', 'by_target', 'entities', 'spawn'):
                raise TranslateError(f'{w}: pop() touches the map directly')
    if len(dels) != 1:
        raise TranslateError(f'{w}: expected exactly one deletion of the matching key, found {len(dels)}')
    for st in body[1:]:
        if _mentions_keys(st) or not isinstance(st, ast.Return) and any(
                isinstance(n, (ast.Delete, ast.Call, ast.Subscript)) and any(_is_self(x) for x in ast.walk(n)) for n in ast.walk(st)):
            raise TranslateError(f'{where}:{st.lineno}: unrecognised statement after the lookup loop')
    return (f'Definition gen_pop : pop_shape := PS {_b(fold_stored)} {_b(key_folded)} {dels[0]}.\n',
            dict(fold_stored=fold_stored, key_folded=key_folded, delete=dels[0]))


# ------------------------------------------------------------------------------------------------ Entity.make_unique
def _make_unique(fn: ast.FunctionDef) -> tuple[str, dict]:
    where = f'Entity.make_unique:{fn.lineno}'
    params = [a.arg for a in fn.args.args]
    if len(params) != 2 or params[0] != 'self':
        raise TranslateError(f'{where}: unexpected parameters {params}')
    prefix = params[1]
    body = _strip_doc(fn.body)

    def fail(st: ast.AST, what: str):
        raise TranslateError(f'{where}:{getattr(st, "lineno", "?")}: {what}')

    def cur_name(e: ast.AST) -> bool:
        if isinstance(e, ast.Subscript) and _is_self(e.value):
            k = e.slice
            if isinstance(k, ast.Tuple) and len(k.elts) == 2 and _lit(k.elts[1], ''):
                k = k.elts[0]
            return _lit(k, 'targetname')
        return False

    def by_target_lookup(e: ast.AST) -> tuple[ast.expr, bool] | None:
        """self.map.by_target[<x>.casefold()] / [<x>]  ->  (x, folded)"""
        if isinstance(e, ast.Subscript) and isinstance(e.value, ast.Attribute) and e.value.attr == 'by_target' \
                and isinstance(e.value.value, ast.Attribute) and e.value.value.attr == 'map' and _is_self(e.value.value.value):
            v = _casefold_of(e.slice)
            return (v, True) if v is not None else (e.slice, False)
        return None

    def name_is(e: ast.AST, n: str) -> bool:
        return isinstance(e, ast.Name) and e.id == n

    def store_name(st: ast.stmt, val_is) -> bool | None:
        """self['targetname'] = <val>: True; a direct _keys store of it: False; something else: None"""
        if isinstance(st, ast.Assign) and len(st.targets) == 1 and isinstance(st.targets[0], ast.Subscript) and val_is(st.value):
            t = st.targets[0]
            if _is_self(t.value) and _lit(t.slice, 'targetname'):
                return True
            if _is_self_keys(t.value):
                return False
        return None
    if len(body) < 4:
        fail(fn, 'unrecognised shape (too few statements)')
    s1, s2, s3, s4 = body[0], body[1], body[2], body[3]
    for st in body[4:]:
        if not (isinstance(st, ast.Return) and (st.value is None or _is_self(st.value))):
            fail(st, 'unrecognised trailing statement')
    # S1: O = self['targetname']
    if not (isinstance(s1, ast.Assign) and len(s1.targets) == 1 and isinstance(s1.targets[0], ast.Name) and cur_name(s1.value)):
        fail(s1, 'the first statement does not read the current targetname')
    O = s1.targets[0].id
    # S2: if O: [if by_target[K] == {self}: return self]; self['targetname'] = ''   else: O = prefix
    if not (isinstance(s2, ast.If) and name_is(s2.test, O)):
        fail(s2, 'expected `if <current name>:`')
    named = list(s2.body)
    if not named or not isinstance(named[0], ast.If) or named[0].orelse:
        fail(s2, 'the named branch does not start with the uniqueness test')
    ut = named[0]
    if not (len(ut.body) == 1 and isinstance(ut.body[0], ast.Return) and (ut.body[0].value is None or _is_self(ut.body[0].value))):
        fail(ut, 'the uniqueness test does not simply return')
    self_only = False
    t = ut.test
    if isinstance(t, ast.Compare) and len(t.ops) == 1 and isinstance(t.ops[0], ast.Eq):
        a, b = t.left, t.comparators[0]
        if isinstance(a, ast.Set):
            a, b = b, a
        if isinstance(b, ast.Set) and len(b.elts) == 1 and _is_self(b.elts[0]):
            self_only, t = True, a
        else:
            fail(ut, 'unrecognised uniqueness test')
    lk = by_target_lookup(t)
    if lk is None or not name_is(lk[0], O):
        fail(ut, 'the uniqueness test does not look the current name up in by_target')
    fold_unique = lk[1]
    clears = False
    for st in named[1:]:
        r = store_name(st, lambda v: _lit(v, ''))
        if r is True and not clears:
            clears = True
        else:
            fail(st, 'unrecognised statement in the named branch')
    unnamed_prefix = False
    if len(s2.orelse) == 1 and isinstance(s2.orelse[0], ast.Assign) and len(s2.orelse[0].targets) == 1 and name_is(s2.orelse[0].targets[0], O):
        v = s2.orelse[0].value
        if name_is(v, prefix):
            unnamed_prefix = True
        elif not _lit(v, ''):
            fail(s2.orelse[0], 'unrecognised name for an unnamed entity')
    elif s2.orelse:
        fail(s2, 'unrecognised else branch')
    # S3: B = O.rstrip('0123456789') | B = O
    if not (isinstance(s3, ast.Assign) and len(s3.targets) == 1 and isinstance(s3.targets[0], ast.Name)):
        fail(s3, 'expected the base name assignment')
    B = s3.targets[0].id
    v = s3.value
    if name_is(v, O):
        strips = False
    elif isinstance(v, ast.Call) and isinstance(v.func, ast.Attribute) and v.func.attr == 'rstrip' and name_is(v.func.value, O) \
            and len(v.args) == 1 and not v.keywords and isinstance(v.args[0], ast.Constant) and isinstance(v.args[0].value, str) \
            and set(v.args[0].value) == set('0123456789'):
        strips = True
    else:
        fail(s3, 'unrecognised base name')
    if B == O:
        fail(s3, 'the base name re-uses the variable of the current name')
    # S4: if by_target[fold B]: <loop> else: self['targetname'] = B      (or negated, branches swapped)
    if not isinstance(s4, ast.If):
        fail(s4, 'expected the test whether the base name is taken')
    t4, taken, free = s4.test, list(s4.body), list(s4.orelse)
    if isinstance(t4, ast.UnaryOp) and isinstance(t4.op, ast.Not):
        t4, taken, free = t4.operand, free, taken
    lk = by_target_lookup(t4)
    if lk is None or not name_is(lk[0], B):
        fail(s4, 'the base name is not looked up in by_target')
    fold_base = lk[1]
    stores = []
    if len(free) != 1 or store_name(free[0], lambda v: name_is(v, B)) is None:
        fail(s4, 'the free base name is not stored as the targetname')
    stores.append(store_name(free[0], lambda v: name_is(v, B)))
    # the loop: i = start; while True: name = B + str(i); if not by_target[fold name]: store; break; i += step
    if len(taken) != 2 or not (isinstance(taken[0], ast.Assign) and len(taken[0].targets) == 1 and isinstance(taken[0].targets[0], ast.Name)
                               and isinstance(taken[0].value, ast.Constant) and type(taken[0].value.value) is int and taken[0].value.value >= 0):
        fail(s4, 'expected `i = <start>` and the loop')
    I = taken[0].targets[0].id
    start = taken[0].value.value
    lp = taken[1]
    if not (isinstance(lp, ast.While) and _lit(lp.test, True) and not lp.orelse and len(lp.body) == 3):
        fail(lp, 'expected `while True:` with three statements')
    a1, a2, a3 = lp.body
    if not (isinstance(a1, ast.Assign) and len(a1.targets) == 1 and isinstance(a1.targets[0], ast.Name)):
        fail(a1, 'expected the candidate name assignment')
    N = a1.targets[0].id
    cv = a1.value
    cand_ok = False
    if isinstance(cv, ast.BinOp) and isinstance(cv.op, ast.Add) and name_is(cv.left, B) and isinstance(cv.right, ast.Call) \
            and isinstance(cv.right.func, ast.Name) and cv.right.func.id == 'str' and len(cv.right.args) == 1 and name_is(cv.right.args[0], I):
        cand_ok = True
    elif isinstance(cv, ast.JoinedStr) and len(cv.values) == 2 and all(isinstance(x, ast.FormattedValue) and x.conversion == -1 and x.format_spec is None for x in cv.values) \
            and name_is(cv.values[0].value, B) and name_is(cv.values[1].value, I):     # type: ignore[union-attr]
        cand_ok = True
    if not (isinstance(a2, ast.If) and not a2.orelse and isinstance(a2.test, ast.UnaryOp) and isinstance(a2.test.op, ast.Not)):
        fail(a2, 'expected `if not by_target[...]:`')
    lk = by_target_lookup(a2.test.operand)
    if lk is None or not name_is(lk[0], N):
        fail(a2, 'the candidate is not looked up in by_target')
    fold_cand = lk[1]
    if len(a2.body) != 2 or not isinstance(a2.body[1], ast.Break) or store_name(a2.body[0], lambda v: name_is(v, N)) is None:
        fail(a2, 'the free candidate is not stored as the targetname followed by break')
    stores.append(store_name(a2.body[0], lambda v: name_is(v, N)))
    if not (isinstance(a3, ast.AugAssign) and isinstance(a3.op, ast.Add) and name_is(a3.target, I) and isinstance(a3.value, ast.Constant)
            and type(a3.value.value) is int and a3.value.value >= 0):
        fail(a3, 'expected `i += <step>`')
    step = a3.value.value
    through = all(s is True for s in stores)
    coq = (f'Definition gen_make_unique : mu_shape :=\n  MU {_b(fold_unique)} {_b(self_only)} {_b(clears)} {_b(unnamed_prefix)} {_b(strips)} '
           f'{_b(fold_base)} {start}%N {step}%N {_b(fold_cand)} {_b(cand_ok)} {_b(through)}.\n')
    return coq, dict(fold_unique=fold_unique, self_only=self_only, clears_first=clears, unnamed_prefix=unnamed_prefix, strips=strips,
                     fold_base=fold_base, start=start, step=step, fold_cand=fold_cand, cand_is_base_plus_number=cand_ok, through_setitem=through)


# ------------------------------------------------------------------------------------------------ mixins
def _mixins(tree: ast.Module) -> tuple[str, dict]:
    cls = next((n for n in tree.body if isinstance(n, ast.ClassDef) and n.name == 'Entity'), None)
    if cls is None:
        raise TranslateError('class Entity not found in vmf.py')
    bases = [b.value if isinstance(b, ast.Subscript) else b for b in cls.bases]
    mm = any(isinstance(b, ast.Name) and b.id == 'MutableMapping' for b in bases) and len(bases) == 1
    defined: set[str] = set()
    for n in ast.walk(cls):
        if isinstance(n, (ast.FunctionDef, ast.AsyncFunctionDef)):
            defined.add(n.name)
        elif isinstance(n, ast.Assign):
            for t in n.targets:
                if isinstance(t, ast.Name):
                    defined.add(t.id)
    own = sorted(defined & {'popitem', 'setdefault', 'update'})
    getitem = _find(tree, 'Entity', '__getitem__')
    never_raises = not any(isinstance(n, ast.Raise) for n in ast.walk(getitem))
    coq = (f'Definition gen_mixins_inherited : bool := {_b(mm and not own)}.\n'
           f'Definition gen_getitem_never_raises : bool := {_b(never_raises)}.\n')
    return coq, dict(mutable_mapping_base=mm, own_definitions=own, getitem_never_raises=never_raises)


# ------------------------------------------------------------------------------------------------ Entity.keys setter (round 5)
def _keys_setter(tree: ast.Module) -> tuple[str, dict]:
    """The deprecated `ent.keys = {...}` setter: an alternative entry point that replaces all keys.  Is it clear_keys() (an
    alias of clear, or clear itself) followed by update(<its argument>) and nothing else that touches the entity?
    (warnings.warn calls and the docstring are skipped.)  No setter at all: nothing to check."""
    cls = next((n for n in tree.body if isinstance(n, ast.ClassDef) and n.name == 'Entity'), None)
    if cls is None:
        raise TranslateError('class Entity not found in vmf.py')
    setters = [n for n in ast.walk(cls) if isinstance(n, ast.FunctionDef) and n.name == 'keys'
               and any(isinstance(d, ast.Attribute) and d.attr == 'setter' for d in n.decorator_list)]
    if not setters:
        return 'Definition gen_keys_setter_is_clear_then_update : bool := true.\n', dict(present=False)
    if len(setters) > 1:
        raise TranslateError('Entity.keys: more than one setter')
    fn = setters[0]
    params = [a.arg for a in fn.args.args]
    alias_ok = True
    aliases = [n for n in cls.body if isinstance(n, ast.Assign) and any(isinstance(t, ast.Name) and t.id == 'clear_keys' for t in n.targets)]
    defs = [n for n in ast.walk(cls) if isinstance(n, ast.FunctionDef) and n.name == 'clear_keys']
    if defs or len(aliases) != 1 or not (isinstance(aliases[0].value, ast.Name) and aliases[0].value.id == 'clear' and len(aliases[0].targets) == 1):
        alias_ok = False
    body = []
    for st in _strip_doc(fn.body):
        if isinstance(st, ast.Expr) and isinstance(st.value, ast.Call) and isinstance(st.value.func, ast.Attribute) \
                and st.value.func.attr == 'warn' and isinstance(st.value.func.value, ast.Name) and st.value.func.value.id == 'warnings':
            continue
        if isinstance(st, ast.Pass):
            continue
        body.append(st)

    def self_call(st: ast.stmt, names: tuple[str, ...]) -> ast.Call | None:
        if isinstance(st, ast.Expr) and isinstance(st.value, ast.Call) and isinstance(st.value.func, ast.Attribute) \
                and st.value.func.attr in names and isinstance(st.value.func.value, ast.Name) and st.value.func.value.id == params[0] \
                and not st.value.keywords:
            return st.value
        return None
    ok = len(params) == 2 and len(body) == 2
    if ok:
        c1, c2 = self_call(body[0], ('clear', 'clear_keys')), self_call(body[1], ('update',))
        ok = (c1 is not None and not c1.args and (c1.func.attr == 'clear' or alias_ok)    # type: ignore[union-attr]
              and c2 is not None and len(c2.args) == 1 and isinstance(c2.args[0], ast.Name) and c2.args[0].id == params[1])
    return (f'Definition gen_keys_setter_is_clear_then_update : bool := {_b(ok)}.\n',
            dict(present=True, clear_then_update=ok, clear_keys_is_clear=alias_ok))


def translate() -> tuple[str, dict]:
    path = SRC / 'vmf.py'
    try:
        tree = ast.parse(path.read_text(encoding='utf8'))
    except SyntaxError as e:
        raise TranslateError(f'vmf.py: {e}') from None
    parts = [
        ('vmf_init', _vmf_init(_find(tree, 'VMF', '__init__'))),
        ('parse', _parse(_find(tree, 'VMF', 'parse'))),
        ('create_ent', _create_ent(_find(tree, 'VMF', 'create_ent'))),
        ('entity_init', _einit(_find(tree, 'Entity', '__init__'))),
        ('entity_parse', _eparse(_find(tree, 'Entity', 'parse'))),
        ('copy', _copy(_find(tree, 'Entity', 'copy'))),
        ('pop', _pop(_find(tree, 'Entity', 'pop'))),
        ('make_unique', _make_unique(_find(tree, 'Entity', 'make_unique'))),
        ('mixins', _mixins(tree)),
        ('keys_setter', _keys_setter(tree)),
    ]
    text = ('(* GENERATED by translate/c07_index_glue.py from /repo/src/srctools/vmf.py. Do not edit. *)\n'
            'From stdpp Require Import list.\nFrom Coq Require Import NArith.\n'
            'From SV Require Import SM.IndexModel SM.IndexGlue.\n\n' + '\n'.join(c for _, (c, _) in parts))
    return text, {k: s for k, (_, s) in parts}


GEN = {'IndexGlue_gen': translate}
