"""C13 translator: the statement structure of VPK.write_dirfile and VPK.load_dirfile -> Gen/VpkDirProg_gen.v.

write_dirfile: the statements inside `with open(self.path, 'wb') as <file>:` are compiled, in order, into the operations of
Fmt/VpkDirProg.v (`wop`); the three nested loops give the record `wprog` (what each loop iterates over, sorted or not, whether an empty
dict is skipped first, the operations before / after the nested loop).  Fail-closed: a statement that is not understood raises
TranslateError.  Locals bound to pure expressions (itemgetter, the archive index with its sentinel, struct objects) are bindings, not
operations.  `g_wprog` is judged by `wprog_ok` and has the meaning `wexec` (= `enc_file` for accepted programs: VpkDirProgProofs.v).

load_dirfile: the statement structure after the file is opened is compiled into `rprog` (Fmt/VpkDirRead.v), see `translate_reader`.
"""
from __future__ import annotations

import ast
import struct as _struct

from harness.common import TranslateError, ast_digest, src_text
from translate.c13_nullstr import find_def, fn_body, module_constants
from translate.c13_vpk import _fmt_widths, _local_env, _resolve, _struct_site


def _is_struct_binding(v, mconsts: dict) -> bool:
    """`struct.Struct(fmt)` or the name of a module constant bound to one: a local alias of a precompiled struct, not an operation"""
    r = _resolve(v, mconsts)
    src = ast.unparse(r)
    return isinstance(r, ast.Call) and (src.startswith('struct.Struct(') or src.startswith('Struct('))


def _is_file_call(e, fvar: str, attr: str):
    return isinstance(e, ast.Call) and isinstance(e.func, ast.Attribute) and e.func.attr == attr and isinstance(e.func.value, ast.Name) \
        and e.func.value.id == fvar and not e.keywords


class _Writer:
    def __init__(self, fn: ast.FunctionDef, fvar: str, mconsts: dict):
        self.fn, self.fvar, self.mconsts = fn, fvar, mconsts
        self.env = _local_env(fn)
        self.mark_var = None        # header_len
        self.dirlen_var = None      # dir_len
        self.idx_vars: set[str] = set()     # locals bound to DIR_ARCH_INDEX / info.arch_index
        self.info_var = None
        self.keys: dict[str, str] = {}      # loop key variable -> LExt / LDir / LFile
        self.loops: list[dict] = []

    # ---- values packed
    def hval(self, a) -> str:
        if isinstance(a, ast.Name) and a.id == 'VPK_SIG':
            return 'HSig'
        if ast.unparse(a) == 'self.version':
            return 'HVer'
        r = _resolve(a, self.mconsts)
        if isinstance(r, ast.Constant) and r.value == 0 and not isinstance(r.value, bool):
            return 'HZero'
        if isinstance(a, ast.Name) and a.id == self.dirlen_var:
            return 'HDirLen'
        raise TranslateError(f'line {a.lineno}: write_dirfile: header value {ast.unparse(a)!r} not understood')

    def is_idx(self, a) -> bool:
        iv = self.info_var
        if isinstance(a, ast.Name) and a.id in self.idx_vars:
            return True
        if isinstance(a, ast.IfExp):
            t = ast.unparse(a.test)
            body, orelse = ast.unparse(a.body), ast.unparse(a.orelse)
            return (t == f'{iv}.arch_index is None' and body == 'DIR_ARCH_INDEX' and orelse == f'{iv}.arch_index') or \
                   (t == f'{iv}.arch_index is not None' and orelse == 'DIR_ARCH_INDEX' and body == f'{iv}.arch_index')
        return False

    def fval(self, a) -> str:
        iv = self.info_var
        src = ast.unparse(a)
        table = {f'{iv}.crc': 'ECrc', f'len({iv}.start_data)': 'EPreLen', f'{iv}.offset': 'EOff', f'{iv}.arch_len': 'EArchLen'}
        if src in table:
            return table[src]
        if self.is_idx(a):
            return 'EIdx'
        r = _resolve(a, self.env, self.mconsts)
        if isinstance(r, ast.Constant) and isinstance(r.value, int) and not isinstance(r.value, bool):
            return 'ETerm'      # the value itself is g_term_write (translate/c13_vpk.py)
        raise TranslateError(f'line {a.lineno}: write_dirfile: entry value {src!r} not understood')

    def pack_op(self, call: ast.Call, in_file_loop: bool) -> str:
        site = _struct_site(call, 'pack', self.env, self.mconsts)
        if site is None:
            raise TranslateError(f'line {call.lineno}: write_dirfile: {ast.unparse(call)[:60]!r} is not a struct pack')
        fmt, args = site
        widths = _fmt_widths(fmt)
        if len(widths) != len(args):
            raise TranslateError(f'line {call.lineno}: write_dirfile: format {fmt!r} with {len(args)} values')
        if in_file_loop:
            return 'WEntry [' + '; '.join(f'({self.fval(a)}, {w})' for a, w in zip(args, widths)) + ']'
        return 'WHdr [' + '; '.join(f'({self.hval(a)}, {w})' for a, w in zip(args, widths)) + ']'

    # ---- statements
    def binding(self, s: ast.stmt) -> bool:
        """pure local bindings that are not operations on the file"""
        iv = self.info_var
        if isinstance(s, ast.Assign) and len(s.targets) == 1 and isinstance(s.targets[0], ast.Name):
            v = ast.unparse(s.value)
            if v in ('operator.itemgetter(0)', 'itemgetter(0)') or _is_struct_binding(s.value, self.mconsts) or (
                    isinstance(s.value, ast.Lambda) and len(s.value.args.args) == 1 and ast.unparse(s.value.body) == f'{s.value.args.args[0].arg}[0]'):
                return True
            if iv and self.is_idx(s.value):
                self.idx_vars.add(s.targets[0].id)
                return True
        if isinstance(s, ast.If) and iv and len(s.body) == 1 and len(s.orelse) == 1 and all(
                isinstance(b, ast.Assign) and len(b.targets) == 1 and isinstance(b.targets[0], ast.Name) for b in (s.body[0], s.orelse[0])) \
                and s.body[0].targets[0].id == s.orelse[0].targets[0].id:
            t = ast.unparse(s.test)
            a, b = ast.unparse(s.body[0].value), ast.unparse(s.orelse[0].value)
            if (t == f'{iv}.arch_index is None' and a == 'DIR_ARCH_INDEX' and b == f'{iv}.arch_index') or \
                    (t == f'{iv}.arch_index is not None' and b == 'DIR_ARCH_INDEX' and a == f'{iv}.arch_index'):
                self.idx_vars.add(s.body[0].targets[0].id)
                return True
        return False

    def op(self, s: ast.stmt, in_file_loop: bool) -> str | None:
        f = self.fvar
        if isinstance(s, ast.Expr) and isinstance(s.value, ast.Constant):
            return None
        if self.binding(s):
            return None
        if isinstance(s, ast.Assign) and len(s.targets) == 1 and isinstance(s.targets[0], ast.Name):
            v = s.value
            if _is_file_call(v, f, 'tell') and not v.args:
                self.mark_var = s.targets[0].id
                return 'WMark'
            if isinstance(v, ast.BinOp) and isinstance(v.op, ast.Sub) and _is_file_call(v.left, f, 'tell') and not v.left.args \
                    and isinstance(v.right, ast.Name) and v.right.id == self.mark_var:
                self.dirlen_var = s.targets[0].id
                return 'WDirLen'
        if isinstance(s, ast.Expr) and isinstance(s.value, ast.Call):
            cl = s.value
            if isinstance(cl.func, ast.Name) and cl.func.id == '_write_nullstring' and len(cl.args) == 2 and not cl.keywords \
                    and isinstance(cl.args[0], ast.Name) and cl.args[0].id == f and isinstance(cl.args[1], ast.Name) and cl.args[1].id in self.keys:
                return f'WStr {self.keys[cl.args[1].id]}'
            if _is_file_call(cl, f, 'seek') and len(cl.args) == 1:
                a = cl.args[0]
                if isinstance(a, ast.Call) and ast.unparse(a.func) == 'struct.calcsize' and len(a.args) == 1:
                    fm = _resolve(a.args[0], self.env, self.mconsts)
                    if isinstance(fm, ast.Constant) and isinstance(fm.value, str):
                        return f'WSeek {sum(_fmt_widths(fm.value))}'
                r = _resolve(a, self.env, self.mconsts)
                if isinstance(r, ast.Constant) and isinstance(r.value, int) and r.value >= 0:
                    return f'WSeek {r.value}'
            if _is_file_call(cl, f, 'write') and len(cl.args) == 1:
                a = cl.args[0]
                if isinstance(a, ast.Constant) and isinstance(a.value, bytes):
                    return 'WLit [' + '; '.join(str(x) for x in a.value) + ']'
                if ast.unparse(a) == 'self.footer_data':
                    return 'WFooter'
                if self.info_var and ast.unparse(a) == f'{self.info_var}.start_data':
                    return 'WPreload'
                if isinstance(a, ast.Call):
                    return self.pack_op(a, in_file_loop)
        raise TranslateError(f'line {s.lineno}: write_dirfile: statement {ast.unparse(s)[:70]!r} not understood')

    def loop_head(self, s: ast.For, level: int, src_expr: str) -> tuple[bool, bool, str, str]:
        """-> (sorted?, iterates the right dict?, key variable, value variable)"""
        if s.orelse or not (isinstance(s.target, ast.Tuple) and len(s.target.elts) == 2 and all(isinstance(x, ast.Name) for x in s.target.elts)):
            raise TranslateError(f'line {s.lineno}: write_dirfile: loop target {ast.unparse(s.target)!r} not understood')
        k, v = (x.id for x in s.target.elts)
        it = s.iter
        is_sorted = False
        if isinstance(it, ast.Call) and isinstance(it.func, ast.Name) and it.func.id == 'sorted' and len(it.args) == 1:
            ok_key = not it.keywords
            if len(it.keywords) == 1 and it.keywords[0].arg == 'key':
                kv = _resolve(it.keywords[0].value, self.env, self.mconsts)
                ok_key = ast.unparse(kv) in ('operator.itemgetter(0)', 'itemgetter(0)') or (
                    isinstance(kv, ast.Lambda) and len(kv.args.args) == 1 and ast.unparse(kv.body) == f'{kv.args.args[0].arg}[0]')
            if not ok_key:
                raise TranslateError(f'line {s.lineno}: write_dirfile: sort key {ast.unparse(it)!r} not understood')
            is_sorted = True
            it = it.args[0]
        if not (isinstance(it, ast.Call) and isinstance(it.func, ast.Attribute) and it.func.attr == 'items' and not it.args and not it.keywords):
            raise TranslateError(f'line {s.lineno}: write_dirfile: loop over {ast.unparse(s.iter)!r} not understood')
        return is_sorted, ast.unparse(it.func.value) == src_expr, k, v

    def body(self, stmts: list[ast.stmt], level: int, src_expr: str) -> dict:
        """statements of one nesting level (0 = inside the with, 1 = extension loop body, 2 = folder loop body, 3 = file loop body)"""
        pre, post, inner = [], [], None
        skip = False
        stmts = list(stmts)
        if level in (1, 2) and stmts:
            s0 = stmts[0]
            if isinstance(s0, ast.If) and not s0.orelse and len(s0.body) == 1 and isinstance(s0.body[0], ast.Continue):
                t = ast.unparse(s0.test)
                if t in (f'not {src_expr}', f'len({src_expr}) == 0', f'{src_expr} == {{}}'):
                    skip = True
                    stmts = stmts[1:]
                else:
                    raise TranslateError(f'line {s0.lineno}: write_dirfile: `continue` under {t!r} not understood')
        for s in stmts:
            if isinstance(s, ast.For):
                if inner is not None or level >= 3:
                    raise TranslateError(f'line {s.lineno}: write_dirfile: unexpected loop')
                is_sorted, right, k, v = self.loop_head(s, level, src_expr)
                self.keys[k] = ['LExt', 'LDir', 'LFile'][level]
                if level == 2:
                    self.info_var = v
                inner = self.body(s.body, level + 1, v)
                inner.update(sorted=is_sorted, right=right)
                continue
            o = self.op(s, level == 3)
            if o is not None:
                (pre if inner is None else post).append(o)
        return {'pre': pre, 'post': post, 'inner': inner, 'skip': skip}


def translate_writer(tree: ast.Module) -> tuple[str, dict]:
    vpk = find_def(tree.body, ast.ClassDef, 'VPK')
    fn = find_def(vpk.body, ast.FunctionDef, 'write_dirfile')
    mconsts = module_constants(tree)
    withs = [s for s in fn_body(fn) if isinstance(s, ast.With)]
    if len(withs) != 1 or len(withs[0].items) != 1 or not isinstance(withs[0].items[0].optional_vars, ast.Name):
        raise TranslateError('write_dirfile: one `with open(...) as <file>:` block expected')
    w = withs[0]
    op = w.items[0].context_expr
    if not (isinstance(op, ast.Call) and isinstance(op.func, ast.Name) and op.func.id == 'open' and len(op.args) == 2 and not op.keywords
            and ast.unparse(op.args[0]) == 'self.path' and isinstance(op.args[1], ast.Constant) and op.args[1].value == 'wb'):
        raise TranslateError(f"write_dirfile: the file is not opened as open(self.path, 'wb'): {ast.unparse(op)!r}")
    # statements around the with block: the writability guard, the refusal of version 2, nothing else that touches the file
    refuses_v2 = False
    for s in fn_body(fn):
        if s is w:
            break
        if isinstance(s, ast.If) and not s.orelse and len(s.body) == 1 and isinstance(s.body[0], ast.Raise) \
                and ast.unparse(s.test) in ('self.version > 1', 'self.version >= 2', 'self.version != 1', '1 < self.version', 'not self.version == 1', 'self.version not in (1,)'):
            refuses_v2 = True       # before the file is opened (and truncated)
    for s in fn_body(fn):
        if s is w or (isinstance(s, ast.Expr) and isinstance(s.value, ast.Constant)):
            continue
        src = ast.unparse(s)
        if src == 'self._check_writable()' or (isinstance(s, ast.If) and 'self.version' in ast.unparse(s.test) and all(isinstance(b, ast.Raise) for b in s.body) and not s.orelse) \
                or (isinstance(s, ast.If) and 'writable' in ast.unparse(s.test) and all(isinstance(b, ast.Raise) for b in s.body) and not s.orelse):
            continue
        raise TranslateError(f'line {s.lineno}: write_dirfile: statement outside the with block {src[:60]!r} not understood')
    wr = _Writer(fn, w.items[0].optional_vars.id, mconsts)
    top = wr.body(w.body, 0, 'self._fileinfo')
    ext = top['inner']
    if ext is None or ext['inner'] is None or ext['inner']['inner'] is None:
        raise TranslateError('write_dirfile: three nested loops expected')
    dr = ext['inner']
    fl = dr['inner']
    if fl['post'] or fl['inner'] is not None:
        raise TranslateError('write_dirfile: the innermost loop contains a loop')
    b = lambda x: 'true' if x else 'false'
    ops = lambda l: '[' + '; '.join(l) + ']'
    text = ('Definition g_wprog : wprog :=\n'
            f'  mkWProg {ops(top["pre"])} {b(ext["sorted"] and dr["sorted"] and fl["sorted"])} {b(ext["right"] and dr["right"] and fl["right"])}\n'
            f'          {b(ext["skip"])} {ops(ext["pre"])} {b(dr["skip"])} {ops(dr["pre"])}\n'
            f'          {ops(fl["pre"])}\n'
            f'          {ops(dr["post"])} {ops(ext["post"])}\n'
            f'          {ops(top["post"])}.\n'
            '(* `if self.version > 1: raise` before the file is opened: the writer only knows the version-1 layout (HVer is 1 in wexec) *)\n'
            f'Definition g_write_refuses_v2 : bool := {b(refuses_v2)}.')
    side = {'refuses_v2': refuses_v2, 'before': top['pre'], 'ext': {k: ext[k] for k in ('pre', 'post', 'skip', 'sorted', 'right')},
            'dir': {k: dr[k] for k in ('pre', 'post', 'skip', 'sorted', 'right')}, 'file': {k: fl[k] for k in ('pre', 'sorted', 'right')},
            'after': top['post'], 'line': fn.lineno, 'digest': ast_digest(fn)}
    return text, side


# ------------------------------------------------------------------------------------------------ load_dirfile
def _widths(fmt: str) -> list[int]:
    """widths of a little-endian struct format with optional repeat counts ('<4I')"""
    if not fmt.startswith('<'):
        raise TranslateError(f'struct format {fmt!r} is not little-endian')
    out, n = [], ''
    for ch in fmt[1:]:
        if ch.isdigit():
            n += ch
        elif ch in 'IH':
            out += [4 if ch == 'I' else 2] * (int(n) if n else 1)
            n = ''
        else:
            raise TranslateError(f'struct format {fmt!r}: unsupported code {ch!r}')
    return out


def _raises(stmts) -> bool:
    return len(stmts) >= 1 and isinstance(stmts[-1], ast.Raise)


class _Reader:
    def __init__(self, fn: ast.FunctionDef, fvar: str, mconsts: dict):
        self.fn, self.f, self.mconsts = fn, fvar, mconsts
        self.env = _local_env(fn)
        self.hdr: dict[str, str] = {}       # header variable -> RSig / RVer / RLen
        self.hdr_vars: list[str] = []
        self.mark_var = None
        self.keys: list[str] = []           # loop variables: ext, folder, file name
        self.dicts: list[str | None] = []   # the dict of each level: child of the get-or-create
        self.nest_ok = True

    def read_site(self, v):
        """`struct_read(fmt, file)` / `<struct>.unpack(file.read(<size>))` -> widths"""
        if not isinstance(v, ast.Call):
            return None
        site = _struct_site(v, 'unpack', self.env, self.mconsts)
        if site is None:
            return None
        fmt, args = site
        ws = _widths(fmt)
        if len(args) != 1:
            return None
        a = args[0]
        if isinstance(a, ast.Name) and a.id == self.f and isinstance(v.func, ast.Name):       # struct_read(fmt, file)
            return ws
        if _is_file_call(a, self.f, 'read') and len(a.args) == 1:
            sz = a.args[0]
            n = None
            if isinstance(sz, ast.Attribute) and sz.attr == 'size':
                n = sum(ws) if ast.unparse(sz.value) == ast.unparse(v.func.value) else None
            elif isinstance(sz, ast.Call) and ast.unparse(sz.func) == 'struct.calcsize' and len(sz.args) == 1:
                fm = _resolve(sz.args[0], self.env, self.mconsts)
                n = sum(_widths(fm.value)) if isinstance(fm, ast.Constant) and isinstance(fm.value, str) else None
            else:
                r = _resolve(sz, self.env, self.mconsts)
                n = r.value if isinstance(r, ast.Constant) and isinstance(r.value, int) else None
            if n == sum(ws):
                return ws
        return None

    def ints(self, e) -> list[int] | None:
        if isinstance(e, (ast.Tuple, ast.List, ast.Set)) and all(isinstance(x, ast.Constant) and isinstance(x.value, int) for x in e.elts):
            return [x.value for x in e.elts]
        return None

    def header_roles(self, stmts) -> None:
        """which of the three header variables is the signature / the version / the tree length, by how they are used"""
        for n in ast.walk(ast.Module(body=list(stmts), type_ignores=[])):
            if isinstance(n, ast.Compare) and len(n.ops) == 1 and isinstance(n.left, ast.Name) and n.left.id in self.hdr_vars:
                r = n.comparators[0]
                if isinstance(n.ops[0], (ast.NotEq, ast.Eq)) and isinstance(r, ast.Name) and r.id == 'VPK_SIG':
                    self.hdr.setdefault(n.left.id, 'RSig')
                if isinstance(n.ops[0], (ast.NotIn, ast.In)) and self.ints(r) is not None:
                    self.hdr.setdefault(n.left.id, 'RVer')
            if isinstance(n, ast.BinOp) and isinstance(n.op, ast.Add):
                for a, b in ((n.left, n.right), (n.right, n.left)):
                    if _is_file_call(a, self.f, 'tell') and isinstance(b, ast.Name) and b.id in self.hdr_vars:
                        self.hdr.setdefault(b.id, 'RLen')

    def top_op(self, s: ast.stmt) -> str | None:
        f = self.f
        if isinstance(s, ast.Expr) and isinstance(s.value, ast.Constant):
            return None
        if isinstance(s, ast.Assign) and len(s.targets) == 1:
            t, v = s.targets[0], s.value
            if isinstance(t, ast.Name) and _is_struct_binding(v, self.mconsts):
                return None
            ws = self.read_site(v)
            if ws is not None and isinstance(t, ast.Tuple) and all(isinstance(x, ast.Name) for x in t.elts) and len(t.elts) == len(ws) and not self.hdr_vars:
                self.hdr_vars = [x.id for x in t.elts]
                self.header_roles(self.all_stmts)
                if sorted(self.hdr.get(x, '?') for x in self.hdr_vars) != ['RLen', 'RSig', 'RVer']:
                    raise TranslateError(f'line {s.lineno}: load_dirfile: roles of the header fields {self.hdr_vars!r} not recognised: {self.hdr!r}')
                return 'RHdr [' + '; '.join(f'({self.hdr[x]}, {w})' for x, w in zip(self.hdr_vars, ws)) + ']'
            if ast.unparse(t) == 'self.version' and isinstance(v, ast.Name) and self.hdr.get(v.id) == 'RVer':
                return 'RSetVer'
            if isinstance(t, ast.Name) and isinstance(v, ast.BinOp) and isinstance(v.op, ast.Add):
                for a, b in ((v.left, v.right), (v.right, v.left)):
                    if _is_file_call(a, f, 'tell') and not a.args and isinstance(b, ast.Name) and self.hdr.get(b.id) == 'RLen':
                        self.mark_var = t.id
                        return 'RMark'
            if ast.unparse(t) == 'self.footer_data' and _is_file_call(v, f, 'read') and not v.args:
                return 'RFooter'
        if isinstance(s, ast.If) and not s.orelse:
            t = s.test
            if isinstance(t, ast.Compare) and len(t.ops) == 1 and isinstance(t.left, ast.Name):
                role = self.hdr.get(t.left.id)
                r = t.comparators[0]
                if role == 'RSig' and isinstance(t.ops[0], ast.NotEq) and isinstance(r, ast.Name) and r.id == 'VPK_SIG' and _raises(s.body) and len(s.body) == 1:
                    return 'RCheckSig'
                if role == 'RVer' and isinstance(t.ops[0], ast.NotIn) and self.ints(r) is not None and _raises(s.body) and len(s.body) == 1:
                    return 'RCheckVer [' + '; '.join(str(x) for x in self.ints(r)) + ']'
                if role == 'RVer' and isinstance(t.ops[0], (ast.GtE, ast.Gt, ast.Eq)) and isinstance(r, ast.Constant) and isinstance(r.value, int) and len(s.body) == 1 \
                        and isinstance(s.body[0], ast.Assign) and len(s.body[0].targets) == 1:
                    ws = self.read_site(s.body[0].value)
                    tg = s.body[0].targets[0]
                    names = [x.id for x in tg.elts] if isinstance(tg, ast.Tuple) and all(isinstance(x, ast.Name) for x in tg.elts) else [tg.id] if isinstance(tg, ast.Name) else None
                    if ws is not None and names is not None and not isinstance(t.ops[0], ast.Eq):
                        used = [n for n in ast.walk(self.fn) if isinstance(n, ast.Name) and isinstance(n.ctx, ast.Load) and n.id in names]
                        if used:
                            raise TranslateError(f'line {s.lineno}: load_dirfile: the version-2 header fields are used: {sorted({u.id for u in used})!r}')
                        minv = r.value + (1 if isinstance(t.ops[0], ast.Gt) else 0)
                        return f'RSkipV2 {minv} [' + '; '.join(str(w) for w in ws) + ']'
            # if file.tell() + 1 == header_len: file.read(1); break
            if isinstance(t, ast.Compare) and len(t.ops) == 1 and isinstance(t.ops[0], ast.Eq):
                l, r = t.left, t.comparators[0]
                if isinstance(l, ast.Name):
                    l, r = r, l
                if isinstance(r, ast.Name) and r.id == self.mark_var and isinstance(l, ast.BinOp) and isinstance(l.op, ast.Add):
                    a, b = l.left, l.right
                    if isinstance(a, ast.Constant):
                        a, b = b, a
                    if _is_file_call(a, f, 'tell') and isinstance(b, ast.Constant) and b.value == 1 and len(s.body) == 2 and isinstance(s.body[1], ast.Break) \
                            and isinstance(s.body[0], ast.Expr) and _is_file_call(s.body[0].value, f, 'read') and len(s.body[0].value.args) == 1 \
                            and isinstance(s.body[0].value.args[0], ast.Constant) and s.body[0].value.args[0].value == 1:
                        return 'RExitIfOneLeft'
        raise TranslateError(f'line {s.lineno}: load_dirfile: statement {ast.unparse(s)[:70]!r} not understood')

    def goc(self, s: ast.stmt, parent: str, key: str) -> str | None:
        """get-or-create of the dict of one level: -> the local that holds the child dict"""
        sub = f'{parent}[{key}]'
        if isinstance(s, ast.Try) and len(s.body) == 1 and len(s.handlers) == 1 and not s.orelse and not s.finalbody \
                and isinstance(s.handlers[0].type, ast.Name) and s.handlers[0].type.id == 'KeyError' and len(s.handlers[0].body) == 1:
            a, b = s.body[0], s.handlers[0].body[0]
            if isinstance(a, ast.Assign) and len(a.targets) == 1 and isinstance(a.targets[0], ast.Name) and ast.unparse(a.value) == sub \
                    and isinstance(b, ast.Assign) and sorted(ast.unparse(t) for t in b.targets) == sorted([a.targets[0].id, sub]) and ast.unparse(b.value) == '{}':
                return a.targets[0].id
        if isinstance(s, ast.Assign) and len(s.targets) == 1 and isinstance(s.targets[0], ast.Name) and ast.unparse(s.value) == f'{parent}.setdefault({key}, {{}})':
            return s.targets[0].id
        return None

    def loop_var(self, s: ast.For) -> str:
        it = s.iter
        if s.orelse or not isinstance(s.target, ast.Name) or not (isinstance(it, ast.Call) and isinstance(it.func, ast.Name) and it.func.id == 'iter_nullstr'
                                                                   and len(it.args) == 1 and not it.keywords and isinstance(it.args[0], ast.Name) and it.args[0].id == self.f):
            raise TranslateError(f'line {s.lineno}: load_dirfile: loop {ast.unparse(s.target)} in {ast.unparse(s.iter)[:40]!r} not understood')
        return s.target.id

    def file_body(self, stmts) -> list[str]:
        ext, folder, name = self.keys
        # the FileInfo construction decides the role of every unpacked variable
        store = [s for s in stmts if isinstance(s, ast.Assign) and isinstance(s.value, ast.Call) and isinstance(s.value.func, ast.Name) and s.value.func.id == 'FileInfo']
        if len(store) != 1 or store[0].value.keywords or len(store[0].value.args) != 9 or len(store[0].targets) != 1:
            raise TranslateError('load_dirfile: one `... = FileInfo(<9 positional arguments>)` in the innermost loop expected')
        st = store[0]
        args = st.value.args
        if [ast.unparse(a) for a in args[:4]] != ['self', folder, name, ext]:
            self.nest_ok = False
        if ast.unparse(st.targets[0]) != f'{self.dicts[1]}[{name}]':
            self.nest_ok = False
        pre = args[8]
        if not (_is_file_call(pre, self.f, 'read') and len(pre.args) == 1 and isinstance(pre.args[0], ast.Name)) or not all(isinstance(a, ast.Name) for a in args[4:8]):
            raise TranslateError(f'line {st.lineno}: load_dirfile: FileInfo arguments {ast.unparse(st.value)[:80]!r} not understood')
        role = {args[4].id: 'ECrc', args[5].id: 'EIdx', args[6].id: 'EOff', args[7].id: 'EArchLen', pre.args[0].id: 'EPreLen'}
        if len(role) != 5:
            raise TranslateError(f'line {st.lineno}: load_dirfile: one variable is used for two fields of FileInfo')
        inv = {v: k for k, v in role.items()}
        ops: list[str] = []
        mid: list[str] = []
        seen_entry = seen_store = False
        for s in stmts:
            if isinstance(s, ast.Expr) and isinstance(s.value, ast.Constant):
                continue
            if s is st:
                if not seen_entry:
                    raise TranslateError('load_dirfile: the entry is stored before it is read')
                seen_store = True
                ops += sorted(mid, key=['FIdxSentinel', 'FZeroLen', 'FCheckTerm'].index) + ['FStore']      # the three rewrites/checks act on different variables: order normalised
                mid = []
                continue
            if seen_store:
                raise TranslateError(f'line {s.lineno}: load_dirfile: statement after the entry is stored: {ast.unparse(s)[:60]!r}')
            if isinstance(s, ast.Assign) and len(s.targets) == 1 and isinstance(s.targets[0], ast.Tuple) and not seen_entry:
                ws = self.read_site(s.value)
                names = [x.id if isinstance(x, ast.Name) else None for x in s.targets[0].elts]
                if ws is None or None in names or len(names) != len(ws):
                    raise TranslateError(f'line {s.lineno}: load_dirfile: entry read {ast.unparse(s)[:70]!r} not understood')
                rest = [n for n in names if n not in role]
                if len(rest) != 1:
                    raise TranslateError(f'line {s.lineno}: load_dirfile: unpacked variables {names!r} do not match the fields of FileInfo plus a terminator')
                role[rest[0]] = 'ETerm'
                inv['ETerm'] = rest[0]
                ops.append('FEntry [' + '; '.join(f'({role[n]}, {w})' for n, w in zip(names, ws)) + ']')
                seen_entry = True
                continue
            if isinstance(s, ast.If) and not s.orelse and seen_entry and isinstance(s.test, ast.Compare) and len(s.test.ops) == 1 and isinstance(s.test.left, ast.Name):
                l, o, r = s.test.left.id, s.test.ops[0], s.test.comparators[0]
                if l == inv.get('EIdx') and isinstance(o, ast.Eq) and ast.unparse(r) == 'DIR_ARCH_INDEX' and len(s.body) == 1 and ast.unparse(s.body[0]) == f'{l} = None':
                    mid.append('FIdxSentinel'); continue
                if l == inv.get('EArchLen') and isinstance(o, ast.Eq) and isinstance(r, ast.Constant) and r.value == 0 and len(s.body) == 1 \
                        and ast.unparse(s.body[0]) == f'{inv["EOff"]} = 0':
                    mid.append('FZeroLen'); continue
                if l == inv.get('ETerm') and isinstance(o, ast.NotEq) and len(s.body) == 1 and isinstance(s.body[0], ast.Raise):
                    rr = _resolve(r, self.env, self.mconsts)
                    if isinstance(rr, ast.Constant) and isinstance(rr.value, int):
                        mid.append('FCheckTerm'); continue
            raise TranslateError(f'line {s.lineno}: load_dirfile: statement {ast.unparse(s)[:70]!r} in the innermost loop not understood')
        if not seen_store or len(set(mid + ops)) != len(mid + ops):
            raise TranslateError('load_dirfile: innermost loop body not understood')
        return ops

    def level(self, stmts, depth: int, parent: str) -> dict:
        """body of the extension loop (depth 0) or the folder loop (depth 1)"""
        pre, post, inner = [], [], None
        for s in stmts:
            if isinstance(s, ast.For):
                if inner is not None:
                    raise TranslateError(f'line {s.lineno}: load_dirfile: unexpected loop')
                self.keys.append(self.loop_var(s))
                if depth == 0:
                    inner = self.level(s.body, 1, self.dicts[0] or '?')
                else:
                    inner = {'body': self.file_body(s.body)}
                continue
            child = self.goc(s, parent, self.keys[depth]) if inner is None and len(self.dicts) == depth else None
            if child is not None:
                self.dicts.append(child)
                continue
            o = self.top_op(s)
            if o is not None:
                (pre if inner is None else post).append(o)
        if len(self.dicts) <= depth:
            self.nest_ok = False
            self.dicts.append(None)
        if inner is None:
            raise TranslateError('load_dirfile: three nested loops expected')
        return {'pre': pre, 'post': post, 'inner': inner}


def translate_reader(tree: ast.Module) -> tuple[str, dict]:
    vpk = find_def(tree.body, ast.ClassDef, 'VPK')
    fn = find_def(vpk.body, ast.FunctionDef, 'load_dirfile')
    mconsts = module_constants(tree)
    withs = [s for s in fn_body(fn) if isinstance(s, ast.With)]
    if len(withs) != 1 or len(withs[0].items) != 1:
        raise TranslateError('load_dirfile: one `with <file>:` block expected')
    w = withs[0]
    item = w.items[0]
    if isinstance(item.optional_vars, ast.Name):
        fvar = item.optional_vars.id
    elif isinstance(item.context_expr, ast.Name) and item.optional_vars is None:
        fvar = item.context_expr.id
    else:
        raise TranslateError('load_dirfile: the with item is not a file variable')
    rd = _Reader(fn, fvar, mconsts)
    rd.all_stmts = w.body
    before, after, ext = [], [], None
    for s in w.body:
        if isinstance(s, ast.For):
            if ext is not None:
                raise TranslateError(f'line {s.lineno}: load_dirfile: a second top-level loop')
            rd.keys.append(rd.loop_var(s))
            ext = rd.level(s.body, 0, 'self._fileinfo')
            continue
        o = rd.top_op(s)
        if o is not None:
            (before if ext is None else after).append(o)
    if ext is None:
        raise TranslateError('load_dirfile: three nested loops expected')
    # the two checks raise without any effect in between: order normalised
    def norm(ops):
        out = list(ops)
        for i in range(len(out) - 1):
            if out[i].startswith('RCheckVer') and out[i + 1] == 'RCheckSig':
                out[i], out[i + 1] = out[i + 1], out[i]
        return out
    before = norm(before)
    dr = ext['inner']
    b = lambda x: 'true' if x else 'false'
    ops = lambda l: '[' + '; '.join(l) + ']'
    text = ('Definition g_rprog : rprog :=\n'
            f'  mkRProg {ops(before)} {b(rd.nest_ok)}\n'
            f'          {ops(ext["pre"])} {ops(dr["pre"])}\n'
            f'          {ops(dr["inner"]["body"])}\n'
            f'          {ops(dr["post"])} {ops(ext["post"])}\n'
            f'          {ops(after)}.')
    side = {'before': before, 'ext_pre': ext['pre'], 'dir_pre': dr['pre'], 'file_body': dr['inner']['body'], 'dir_post': dr['post'], 'ext_post': ext['post'],
            'after': after, 'nest_ok': rd.nest_ok, 'loop_vars': rd.keys, 'dicts': rd.dicts, 'line': fn.lineno, 'digest': ast_digest(fn)}
    return text, side



def translate() -> tuple[str, dict]:
    tree = ast.parse(src_text('vpk.py'))
    wtext, wside = translate_writer(tree)
    rtext, rside = translate_reader(tree)
    text = '\n'.join([
        '(* GENERATED by translate/c13_dirprog.py from /repo/src/srctools/vpk.py. Do not edit. *)',
        'From Coq Require Import List NArith Bool.', 'From SV Require Import Fmt.VpkDir Fmt.VpkDirProg Fmt.VpkDirRead.',
        'Import ListNotations.', 'Open Scope N_scope.',
        f'(* VPK.write_dirfile (line {wside["line"]}): the statements inside the with block, in order, and the three nested loops *)',
        wtext,
        f'(* VPK.load_dirfile (line {rside["line"]}): the statements inside the with block, in order, and the three nested loops over iter_nullstr *)',
        rtext, ''])
    return text, {'write_dirfile': wside, 'load_dirfile': rside}


GEN = {'VpkDirProg_gen': translate}
