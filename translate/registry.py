"""Registry of translators: generated Coq file (rocq/Gen/<name>.v) -> (module, function)."""
GEN = {
    'IdSites_gen': ('translate.c08_sites', 'translate'),
}
