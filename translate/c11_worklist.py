"""C11 translator, part: the loops that serialise an index table, and the order in which save() rebuilds the lumps.

1. Work lists.  A writer that builds `add = find_or_insert(T)` / `find_or_extend(T)` over a LOCAL list T (a parameter or a
   local: `nodes` in `_lmp_write_nodes`, `sides` in `_lmp_write_brushes`, `edges` in `_lmp_write_surfedges`, `model_list`,
   `models`, `sprites`) has to emit one record for every element T holds when the function ends - including the elements
   `add` appended.  For every loop over such a T this module reads from the (NOT normalised) source
     * how the loop iterates: `for x in T`, `for i, x in enumerate(T)`, a comprehension over T  -> ILive (Python's list
       iterator compares its position with the current length on every step, so appended elements are reached);
       `for x in list(T)` / `tuple(T)` / `T[:]` / `T.copy()` / `sorted(T)` / `reversed(T)`       -> ISnapshot;
     * whether the loop body uses `add` (then the loop is a work list: it must run over the live list);
     * whether `add` is used after the loop (then the elements appended there get no record).
   Fmt/BspWorklist.v gives the triple a meaning (`wl_exec`), `wl_entry_ok` decides, `wl_entry_closure` proves the closure
   statement for every entry that passes; `for node in list(nodes)` with `add_node` in the body is the refuted shape.
   Fail-closed: a local finder table that no loop runs over, or any other use of the table than `len(T)`, the finder call and
   the loops -> TranslateError.

2. Rebuild order.  A writer that appends to the list of ANOTHER view (`find_or_insert(self.planes)`, `self.vertexes.append`)
   must run before the writer of that view: `LUMP_REBUILD_ORDER` lists the lumps in the order save() rebuilds them, the
   `ParsedLump(...)` declarations say which lump a view belongs to, `_lmp_write_<view>` (and the helpers it calls through
   `self.`) which lists a writer appends to.  `order_ok` demands index(writer's lump) < index(owner's lump) for every such edge
   (a writer that goes through `self.<its own view>` would re-parse the old lump data: rejected as well).
"""
from __future__ import annotations

import ast
from typing import Any

from harness.common import TranslateError, src_text

FINDERS = ('find_or_insert', 'find_or_extend')
SNAPSHOT_CALLS = {'list', 'tuple', 'sorted', 'reversed'}
MUTATORS = {'append', 'extend', 'insert'}


def coq_s(s: str) -> str:
    return '"' + s.replace('"', "'") + '"'


def _pos(n: ast.AST) -> tuple[int, int]:
    return (n.lineno, n.col_offset)


def _end(n: ast.AST) -> tuple[int, int]:
    return (n.end_lineno or n.lineno, n.end_col_offset or 0)


def iter_kind(it: ast.AST, table: str, where: str) -> str | None:
    """How an iterable expression walks `table`: 'ILive', 'ISnapshot', None = does not mention the table."""
    if not any(isinstance(x, ast.Name) and x.id == table for x in ast.walk(it)):
        return None
    if isinstance(it, ast.Name):
        return 'ILive'
    if isinstance(it, ast.Call) and not it.keywords or isinstance(it, ast.Call) and ast.unparse(it.func) in ('sorted', 'enumerate'):
        f = ast.unparse(it.func)
        if f == 'enumerate' and it.args and isinstance(it.args[0], ast.Name) and it.args[0].id == table:
            return 'ILive'
        if f == 'enumerate' and it.args:
            inner = iter_kind(it.args[0], table, where)
            if inner is not None:
                return inner
        if f in SNAPSHOT_CALLS and len(it.args) >= 1 and isinstance(it.args[0], ast.Name) and it.args[0].id == table:
            return 'ISnapshot'
        if f in ('zip', 'itertools.chain', 'chain') and any(isinstance(a, ast.Name) and a.id == table for a in it.args) \
                and all(isinstance(a, ast.Name) for a in it.args):
            return 'ILive'
        if isinstance(it.func, ast.Attribute) and it.func.attr == 'copy' and isinstance(it.func.value, ast.Name) and it.func.value.id == table \
                and not it.args:
            return 'ISnapshot'
    if isinstance(it, ast.Subscript) and isinstance(it.value, ast.Name) and it.value.id == table and isinstance(it.slice, ast.Slice) \
            and it.slice.lower is None and it.slice.upper is None and it.slice.step is None:
        return 'ISnapshot'
    raise TranslateError(f'{where}: how `{ast.unparse(it)[:60]}` walks the index table `{table}` is not recognised')


def worklists_of(fn: ast.FunctionDef) -> list[tuple[str, str, str, bool, bool]]:
    # finder closures over local tables
    closures: dict[str, str] = {}       # closure name -> table name
    params = {a.arg for a in fn.args.args}
    for n in ast.walk(fn):
        if isinstance(n, (ast.Assign, ast.AnnAssign)) and isinstance(n.value, ast.Call) and ast.unparse(n.value.func) in FINDERS:
            tg = n.targets if isinstance(n, ast.Assign) else [n.target]
            if len(tg) != 1 or not isinstance(tg[0], ast.Name) or not n.value.args:
                raise TranslateError(f'{fn.name}: line {n.lineno}: finder assigned to something else than one name')
            t = n.value.args[0]
            if isinstance(t, ast.Name):
                closures[tg[0].id] = t.id
            elif not (isinstance(t, ast.Attribute) and isinstance(t.value, ast.Name) and t.value.id == 'self'):
                raise TranslateError(f'{fn.name}: line {n.lineno}: table of the finder is neither a local list nor self.<view>: {ast.unparse(t)[:40]}')
    # a finder over a local table that is not bound to a name (handed on directly) cannot be followed
    for n in ast.walk(fn):
        if isinstance(n, ast.Call) and ast.unparse(n.func) in FINDERS and n.args and isinstance(n.args[0], ast.Name):
            if not any(isinstance(p, (ast.Assign, ast.AnnAssign)) and p.value is n for p in ast.walk(fn)):
                raise TranslateError(f'{fn.name}: line {n.lineno}: finder over the local table `{n.args[0].id}` is not bound to a name')
    out = []
    for table in sorted(set(closures.values())):
        adders = {c for c, t in closures.items() if t == table}
        for c in adders:
            if sum(1 for n in ast.walk(fn) if isinstance(n, ast.Name) and n.id == c and isinstance(n.ctx, ast.Store)) != 1:
                raise TranslateError(f'{fn.name}: the finder closure `{c}` is bound more than once')
        n_stores = sum(1 for n in ast.walk(fn) if isinstance(n, ast.Name) and n.id == table and isinstance(n.ctx, ast.Store))
        if n_stores != (0 if table in params else 1):
            # (a re-bound name may denote a copy of the list the finder appends to)
            raise TranslateError(f'{fn.name}: the index table `{table}` is bound {n_stores} times (a parameter must not be re-bound, a local is bound once)')
        add_uses = [n for n in ast.walk(fn) if isinstance(n, ast.Name) and n.id in adders and isinstance(n.ctx, ast.Load)]
        loops: list[tuple[ast.AST, str, list[ast.AST]]] = []        # (node, kind, body nodes)
        accounted: set[int] = set()
        for n in ast.walk(fn):
            if isinstance(n, ast.For):
                k = iter_kind(n.iter, table, f'{fn.name}: line {n.lineno}')
                if k is not None:
                    loops.append((n, k, n.body + n.orelse))
                    accounted.update(id(x) for x in ast.walk(n.iter))
            elif isinstance(n, (ast.ListComp, ast.SetComp, ast.GeneratorExp, ast.DictComp)):
                for g in n.generators:
                    k = iter_kind(g.iter, table, f'{fn.name}: line {n.lineno}')
                    if k is not None:
                        body = [n.elt] if not isinstance(n, ast.DictComp) else [n.key, n.value]
                        loops.append((n, k, body + list(g.ifs)))
                        accounted.update(id(x) for x in ast.walk(g.iter))
        # every other use of the table must be harmless: the finder call, len(T), a mutation that adds (counted as an add)
        extra_adds: list[ast.AST] = []
        for n in ast.walk(fn):
            if isinstance(n, ast.Call) and ast.unparse(n.func) in FINDERS and n.args and isinstance(n.args[0], ast.Name) and n.args[0].id == table:
                accounted.add(id(n.args[0]))
            elif isinstance(n, ast.Call) and ast.unparse(n.func) == 'len' and len(n.args) == 1 and isinstance(n.args[0], ast.Name) and n.args[0].id == table:
                accounted.add(id(n.args[0]))
            elif isinstance(n, ast.Call) and isinstance(n.func, ast.Attribute) and isinstance(n.func.value, ast.Name) and n.func.value.id == table \
                    and n.func.attr in MUTATORS:
                accounted.add(id(n.func.value))
                extra_adds.append(n)
        for n in ast.walk(fn):
            if isinstance(n, ast.Name) and n.id == table and isinstance(n.ctx, ast.Load) and id(n) not in accounted:
                raise TranslateError(f'{fn.name}: line {n.lineno}: use of the index table `{table}` not recognised '
                                     f'(only the finder call, len(), append/extend/insert and loops over it are)')
        if not loops:
            raise TranslateError(f'{fn.name}: no loop serialises the index table `{table}`')
        for node, _kind, body in loops:
            # a loop that can stop early does not reach every entry (nested function bodies / inner loops' own breaks aside)
            def leaves(stmts: list, in_inner_loop: bool) -> bool:
                for st in stmts:
                    if isinstance(st, ast.Return) or (isinstance(st, ast.Break) and not in_inner_loop):
                        return True
                    if isinstance(st, (ast.FunctionDef, ast.Lambda, ast.ClassDef)):
                        continue
                    for fld in ('body', 'orelse', 'finalbody', 'handlers'):
                        sub = getattr(st, fld, None)
                        if isinstance(sub, list) and sub and isinstance(sub[0], (ast.stmt, ast.ExceptHandler)):
                            inner = in_inner_loop or isinstance(st, (ast.For, ast.While))
                            if leaves([x for h in sub for x in (h.body if isinstance(h, ast.ExceptHandler) else [h])], inner):
                                return True
                return False
            if isinstance(node, ast.For) and leaves(node.body, False):
                raise TranslateError(f'{fn.name}: line {node.lineno}: the loop over the index table `{table}` can stop early (break / return)')
        loops.sort(key=lambda l: _pos(l[0]))
        for i, (node, kind, body) in enumerate(loops):
            inside_ids = {id(x) for b in body for x in ast.walk(b)}
            inside = any(id(u) in inside_ids for u in add_uses) or any(id(u) in inside_ids for u in extra_adds)
            after = any(_pos(u) > _end(node) for u in add_uses + extra_adds)
            out.append((fn.name, table + ('' if i == 0 else f'#{i + 1}'), kind, inside, after))
    return out


# ------------------------------------------------------------------------------------------------ rebuild order
def lump_name(e: ast.AST) -> str:
    if isinstance(e, ast.Attribute) and isinstance(e.value, ast.Name) and e.value.id == 'BSP_LUMPS':
        return e.attr
    if isinstance(e, ast.Name):
        return e.id
    raise TranslateError(f'lump identifier not recognised: {ast.unparse(e)[:40]}')


def rebuild_order(tree: ast.Module) -> list[str]:
    for n in tree.body:
        tg = n.targets[0] if isinstance(n, ast.Assign) and len(n.targets) == 1 else n.target if isinstance(n, ast.AnnAssign) else None
        if isinstance(tg, ast.Name) and tg.id == 'LUMP_REBUILD_ORDER':
            if not isinstance(n.value, ast.List):
                raise TranslateError('LUMP_REBUILD_ORDER is not a list literal')
            return [lump_name(e) for e in n.value.elts]
    raise TranslateError('LUMP_REBUILD_ORDER not found')


def save_follows_order(bsp_cls: ast.ClassDef) -> bool:
    """save() rebuilds the parsed lumps in one loop over LUMP_REBUILD_ORDER (forwards)."""
    fn = next((f for f in bsp_cls.body if isinstance(f, ast.FunctionDef) and f.name == 'save'), None)
    if fn is None:
        raise TranslateError('BSP.save not found')
    for n in ast.walk(fn):
        if isinstance(n, ast.For) and any(isinstance(x, ast.Name) and x.id == 'LUMP_REBUILD_ORDER' for x in ast.walk(n.iter)):
            it = n.iter
            while isinstance(it, ast.Call) and ast.unparse(it.func) in ('list', 'tuple', 'iter') and len(it.args) == 1:
                it = it.args[0]
            if not (isinstance(it, ast.Name) and it.id == 'LUMP_REBUILD_ORDER'):
                raise TranslateError(f'save(): line {n.lineno}: the rebuild loop does not walk LUMP_REBUILD_ORDER forwards: {ast.unparse(n.iter)[:60]}')
            if not any(isinstance(x, ast.Attribute) and x.attr == '_save_funcs' for x in ast.walk(n)):
                raise TranslateError('save(): the loop over LUMP_REBUILD_ORDER does not call the writers (_save_funcs)')
            return True
    raise TranslateError('save(): no loop over LUMP_REBUILD_ORDER')


def views(bsp_cls: ast.ClassDef) -> dict[str, str]:
    out = {}
    for s in bsp_cls.body:
        if isinstance(s, ast.AnnAssign) and isinstance(s.target, ast.Name) and isinstance(s.value, ast.Call) \
                and ast.unparse(s.value.func) == 'ParsedLump' and s.value.args:
            out[s.target.id] = lump_name(s.value.args[0])
    if not out:
        raise TranslateError('no ParsedLump view found in class BSP')
    return out


def appended_views(fn: ast.FunctionDef, methods: dict[str, ast.FunctionDef], seen: frozenset[str] = frozenset()) -> set[str]:
    """self.<X> lists a writer appends to: tables of finders, .append/.extend/.insert, through helpers called via self."""
    out: set[str] = set()
    for n in ast.walk(fn):
        if isinstance(n, ast.Call):
            f = ast.unparse(n.func)
            if f in FINDERS and n.args and isinstance(n.args[0], ast.Attribute) and isinstance(n.args[0].value, ast.Name) and n.args[0].value.id == 'self':
                out.add(n.args[0].attr)
            elif isinstance(n.func, ast.Attribute) and n.func.attr in MUTATORS and isinstance(n.func.value, ast.Attribute) \
                    and isinstance(n.func.value.value, ast.Name) and n.func.value.value.id == 'self':
                out.add(n.func.value.attr)
            elif isinstance(n.func, ast.Attribute) and isinstance(n.func.value, ast.Name) and n.func.value.id == 'self' \
                    and n.func.attr in methods and n.func.attr not in seen and not n.func.attr.startswith('_lmp_read'):
                out |= appended_views(methods[n.func.attr], methods, seen | {fn.name})
    return out


def generate(raw_tree: ast.Module) -> tuple[str, dict]:
    bsp_cls = next((n for n in raw_tree.body if isinstance(n, ast.ClassDef) and n.name == 'BSP'), None)
    if bsp_cls is None:
        raise TranslateError('class BSP not found')
    methods = {f.name: f for f in bsp_cls.body if isinstance(f, ast.FunctionDef)}
    entries: list[tuple[str, str, str, bool, bool]] = []
    for name, fn in methods.items():
        if name.startswith(('_lmp_write', '_write_')):
            entries += worklists_of(fn)
    if not entries:
        raise TranslateError('no writer loops over a local index table')
    order = rebuild_order(raw_tree)
    save_follows_order(bsp_cls)
    vw = views(bsp_cls)
    edges: list[tuple[str, str, str, str]] = []
    for view, lump in vw.items():
        w = methods.get('_lmp_write_' + view.lstrip('_'))
        if w is None:
            raise TranslateError(f'view {view}: no writer _lmp_write_{view.lstrip("_")}')
        for x in sorted(appended_views(w, methods)):
            if x not in vw:
                if x.startswith('_') or x in ('lumps', 'game_lumps'):
                    continue
                raise TranslateError(f'{w.name}: appends to self.{x}, which is not a ParsedLump view')
            edges.append((lump, vw[x], view, x))
    b = lambda v: 'true' if v else 'false'      # noqa: E731
    L = ['(* loops that serialise a local index table: function, table, iteration, does the body add to the table, is anything added after the loop *)',
         'Definition worklists : list wl_entry := [',
         ';\n'.join(f'  ({coq_s(f)}, {coq_s(t)}, {k}, {b(i)}, {b(a)})' for f, t, k, i, a in entries), '].',
         '(* LUMP_REBUILD_ORDER, and (lump whose writer appends, lump that owns the list appended to) *)',
         'Definition rebuild_order : list string := [' + '; '.join(coq_s(x) for x in order) + '].',
         'Definition append_edges : list (string * string) := [' + '; '.join(f'({coq_s(a)}, {coq_s(c)})' for a, c, _, _ in edges) + '].']
    side: dict[str, Any] = {'worklists': [list(e) for e in entries], 'rebuild_order': order,
                            'append_edges': [f'{v}({a}) -> {x}({c})' for a, c, v, x in edges]}
    return '\n'.join(L), side
