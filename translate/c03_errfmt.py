"""C03 translator: how a tokenizer error becomes text -> Gen/ErrFmt_gen.v.

Read from tokenizer.py with `ast`, through the path enumeration of translate/c03_basetok.py (`_paths`: guard clauses,
if/elif/else, `and`/`or` tests, temporaries and a parts list built by append are all normalised away), fail-closed:

* ``format_exc_fileinfo(msg, file, line_num)`` (= ``TokenSyntaxError.__str__``): for each of the four combinations
  "file is None" x "line_num is None" the ONE path taken, as a list of pieces (literal text / msg / file / line_num), or
  "raises";
* ``TokenSyntaxError.__str__``  must return ``format_exc_fileinfo(self.mess, self.file, self.line_num)``, and ``__init__`` must
  store its three arguments in these attributes;
* ``BaseTokenizer.error(message, *args)``: for every member of ``Token``, without and with one value, the path taken and the
  message it builds (pieces: literal text / the value), or "raises" (e.g. KeyError from ``_OPERATOR_VALS[message]``);
  for a ``str`` message: formatted with ``.format(*args)`` exactly when there are arguments; on every path the constructor
  call must be ``self.error_type(<message>, self.filename, self.line_num)`` (positional or by the parameter names of
  ``TokenSyntaxError.__init__``).

What the texts must satisfy (never raises, starts with the message, shows the line number, every token has a message) is
decided by instance obligations over the generated values (Text/ErrFmt.v), not here."""
from __future__ import annotations

import ast

from harness.common import TranslateError, src_text
from translate.c03_basetok import _paths, _strip_doc

MSG, FILE, LINE, VAL = 'MSG', 'FILE', 'LINE', 'VAL'


def _pieces(node: ast.expr, params: dict[str, str], where: str) -> list:
    """A string-valued expression as a list of pieces: str literal -> text, a parameter name -> its tag."""
    if isinstance(node, ast.Constant) and isinstance(node.value, str):
        return [node.value] if node.value else []
    if isinstance(node, ast.Name) and node.id in params:
        return [(params[node.id],)]
    if isinstance(node, ast.Call) and isinstance(node.func, ast.Name) and node.func.id == 'str' and len(node.args) == 1 and not node.keywords \
            and isinstance(node.args[0], ast.Name) and node.args[0].id in params:
        return [(params[node.args[0].id],)]
    if isinstance(node, ast.JoinedStr):
        out: list = []
        for v in node.values:
            if isinstance(v, ast.Constant):
                out += _pieces(v, params, where)
            elif isinstance(v, ast.FormattedValue) and v.conversion == -1 and v.format_spec is None:
                out += _pieces(v.value, params, where)
            else:
                raise TranslateError(f'{where}: formatted value `{ast.unparse(v)}` with a conversion or format spec is not modelled')
        return out
    if isinstance(node, ast.BinOp) and isinstance(node.op, ast.Add):
        return _pieces(node.left, params, where) + _pieces(node.right, params, where)
    if isinstance(node, ast.Call) and isinstance(node.func, ast.Attribute) and node.func.attr == 'join' and isinstance(node.func.value, ast.Constant) \
            and node.func.value.value == '' and len(node.args) == 1 and isinstance(node.args[0], (ast.List, ast.Tuple)) and not node.keywords:
        out = []
        for e in node.args[0].elts:
            out += _pieces(e, params, where)
        return out
    raise TranslateError(f'{where}: text expression `{ast.unparse(node)}` is not modelled')


def _merge(ps: list) -> list:
    out: list = []
    for p in ps:
        if isinstance(p, str) and out and isinstance(out[-1], str):
            out[-1] += p
        else:
            out.append(p)
    return out


def _fileinfo(tree: ast.Module) -> dict[tuple[bool, bool], list | None]:
    f = next((n for n in tree.body if isinstance(n, ast.FunctionDef) and n.name == 'format_exc_fileinfo'), None)
    if f is None or len(f.args.args) != 3 or f.args.vararg or f.args.kwarg or f.args.kwonlyargs:
        raise TranslateError('format_exc_fileinfo: not found / unrecognised signature')
    m, fl, ln = (a.arg for a in f.args.args)
    params = {m: MSG, fl: FILE, ln: LINE}
    paths = _paths(_strip_doc(f), 'format_exc_fileinfo', pure_calls=True)
    out: dict[tuple[bool, bool], list | None] = {}
    for fnone in (True, False):
        for lnone in (True, False):
            truth = {f'none:{fl}': fnone, f'none:{ln}': lnone}
            hit = []
            for q in paths:
                for a, _pol in q.conds:
                    if a not in truth:
                        raise TranslateError(f'format_exc_fileinfo: condition `{a}` is not a None-test of file / line_num')
                if all(truth[a] == pol for a, pol in q.conds):
                    hit.append(q)
            if len(hit) != 1:
                raise TranslateError(f'format_exc_fileinfo: {len(hit)} paths for file is None={fnone}, line_num is None={lnone}')
            q = hit[0]
            if q.effects:
                raise TranslateError(f'format_exc_fileinfo: side effects {q.effects}')
            if q.end is None:
                raise TranslateError('format_exc_fileinfo: a path falls off the end (returns None)')
            if q.end[0] == 'raise':
                out[(fnone, lnone)] = None
            else:
                out[(fnone, lnone)] = _merge(_pieces(ast.parse(q.end[1], mode='eval').body, params, 'format_exc_fileinfo'))
    return out


def _class(tree: ast.Module, name: str) -> ast.ClassDef:
    c = next((n for n in tree.body if isinstance(n, ast.ClassDef) and n.name == name), None)
    if c is None:
        raise TranslateError(f'class {name} not found')
    return c


def _method(c: ast.ClassDef, name: str) -> ast.FunctionDef:
    fs = [n for n in c.body if isinstance(n, ast.FunctionDef) and n.name == name
          and not any(isinstance(d, ast.Name) and d.id == 'overload' for d in n.decorator_list)]
    if len(fs) != 1:
        raise TranslateError(f'{c.name}.{name}: {len(fs)} definitions')
    return fs[0]


def _syntax_error_class(tree: ast.Module) -> list[str]:
    """TokenSyntaxError: __init__(self, message, file, line) stores mess/file/line_num; __str__ formats exactly these.
    Returns the parameter names of __init__ (for keyword constructor calls)."""
    c = _class(tree, 'TokenSyntaxError')
    init, s = _method(c, '__init__'), _method(c, '__str__')
    names = [a.arg for a in init.args.args]
    if len(names) != 4 or init.args.vararg or init.args.kwarg or init.args.kwonlyargs:
        raise TranslateError('TokenSyntaxError.__init__: unrecognised signature')
    if any(not isinstance(st, (ast.Assign, ast.AnnAssign, ast.Expr, ast.Pass)) for st in _strip_doc(init)):
        raise TranslateError('TokenSyntaxError.__init__: not straight-line')
    stores: dict[str, str] = {}
    for st in ast.walk(init):
        if isinstance(st, ast.Assign) and len(st.targets) == 1 and isinstance(st.targets[0], ast.Attribute) \
                and isinstance(st.targets[0].value, ast.Name) and st.targets[0].value.id == names[0]:
            stores[st.targets[0].attr] = ast.unparse(st.value)
    want = {'mess': names[1], 'file': names[2], 'line_num': names[3]}
    for k, v in want.items():
        if stores.get(k) != v:
            raise TranslateError(f'TokenSyntaxError.__init__: self.{k} is `{stores.get(k)}`, expected the argument `{v}`')
    ps = _paths(_strip_doc(s), 'TokenSyntaxError.__str__')
    me = s.args.args[0].arg
    ok = len(ps) == 1 and not ps[0].conds and not ps[0].effects and ps[0].end is not None and ps[0].end[0] == 'return'
    if ok:
        call = ast.parse(ps[0].end[1], mode='eval').body
        ok = isinstance(call, ast.Call) and isinstance(call.func, ast.Name) and call.func.id == 'format_exc_fileinfo' and not call.keywords \
            and [ast.unparse(a) for a in call.args] == [f'{me}.mess', f'{me}.file', f'{me}.line_num']
    if not ok:
        raise TranslateError('TokenSyntaxError.__str__: not `return format_exc_fileinfo(self.mess, self.file, self.line_num)`')
    return names[1:]


def _decide(atom: str, msg_token: str | None, nargs: int) -> bool:
    """Truth value of a condition of BaseTokenizer.error() for a concrete call: message = Token.<msg_token> (or a str when
    None), len(args) = nargs."""
    kind, _, rest = atom.partition(':')
    if kind != 'truthy':
        raise TranslateError(f'BaseTokenizer.error: condition `{atom}` not modelled')
    node = ast.parse(rest, mode='eval').body

    def ev(n: ast.expr):
        if isinstance(n, ast.Call) and isinstance(n.func, ast.Name) and n.func.id == 'isinstance' and ast.unparse(n.args[0]) == 'message' \
                and ast.unparse(n.args[1]) in ('Token', 'str'):
            return (msg_token is not None) == (ast.unparse(n.args[1]) == 'Token')
        if isinstance(n, ast.Name) and n.id == 'args':
            return nargs > 0
        if isinstance(n, ast.Call) and isinstance(n.func, ast.Name) and n.func.id == 'len' and ast.unparse(n.args[0]) == 'args':
            return nargs
        if isinstance(n, ast.Constant) and type(n.value) is int:
            return n.value
        if isinstance(n, ast.Attribute) and isinstance(n.value, ast.Name) and n.value.id == 'Token':
            return ('tok', n.attr)
        if isinstance(n, ast.Name) and n.id == 'message' and msg_token is not None:
            return ('tok', msg_token)
        if isinstance(n, ast.UnaryOp) and isinstance(n.op, ast.Not):
            return not ev(n.operand)
        if isinstance(n, ast.Compare) and len(n.ops) == 1:
            a, b, op = ev(n.left), ev(n.comparators[0]), n.ops[0]
            if isinstance(op, (ast.Is, ast.Eq)):
                return a == b
            if isinstance(op, (ast.IsNot, ast.NotEq)):
                return a != b
            if isinstance(a, int) and isinstance(b, int):
                if isinstance(op, ast.Gt):
                    return a > b
                if isinstance(op, ast.GtE):
                    return a >= b
                if isinstance(op, ast.Lt):
                    return a < b
                if isinstance(op, ast.LtE):
                    return a <= b
            if isinstance(op, (ast.In, ast.NotIn)) and isinstance(n.comparators[0], (ast.Tuple, ast.List, ast.Set)):
                r = a in [ev(e) for e in n.comparators[0].elts]
                return r if isinstance(op, ast.In) else not r
        raise TranslateError(f'BaseTokenizer.error: condition `{rest}` not modelled')
    return bool(ev(node))


class _Concrete(ast.NodeTransformer):
    """Inside a message expression of error(): `len(args)`, `args[0]`, `_OPERATOR_VALS[message]`, `message.name` and conditional
    expressions over them become concrete for a given call."""
    def __init__(self, msg_token: str | None, nargs: int, opvals: dict[str, str]) -> None:
        self.tok, self.nargs, self.opvals = msg_token, nargs, opvals
        self.raises: str | None = None

    def visit_IfExp(self, n: ast.IfExp) -> ast.AST:
        c = _decide('truthy:' + ast.unparse(n.test), self.tok, self.nargs)
        return self.visit(n.body if c else n.orelse)

    def visit_Subscript(self, n: ast.Subscript) -> ast.AST:
        if ast.unparse(n.value) == 'args' and isinstance(n.slice, ast.Constant) and type(n.slice.value) is int:
            if not (0 <= n.slice.value < self.nargs):
                self.raises = 'IndexError'
                return ast.Constant(value='')
            if n.slice.value == 0:
                return ast.Name(id='__value', ctx=ast.Load())
        if ast.unparse(n.value) == '_OPERATOR_VALS' and ast.unparse(n.slice) == 'message' and self.tok is not None:
            if self.tok not in self.opvals:
                self.raises = 'KeyError'
                return ast.Constant(value='')
            return ast.Constant(value=self.opvals[self.tok])
        return self.generic_visit(n)

    def visit_Attribute(self, n: ast.Attribute) -> ast.AST:
        if ast.unparse(n) == 'message.name' and self.tok is not None:
            return ast.Constant(value=self.tok)
        return self.generic_visit(n)


def _error_method(tree: ast.Module, ctor_names: list[str]) -> tuple[dict, bool, bool, bool]:
    base = _class(tree, 'BaseTokenizer')
    f = _method(base, 'error')
    if [a.arg for a in f.args.args] != ['self', 'message'] or f.args.vararg is None or f.args.vararg.arg != 'args' or f.args.kwonlyargs or f.args.kwarg:
        raise TranslateError('BaseTokenizer.error: signature is not (self, message, *args)')
    tokcls = _class(tree, 'Token')
    members = {s.targets[0].id: s.value.value for s in tokcls.body
               if isinstance(s, ast.Assign) and len(s.targets) == 1 and isinstance(s.targets[0], ast.Name)
               and isinstance(s.value, ast.Constant) and type(s.value.value) is int}
    ov = next((n.value for n in tree.body if isinstance(n, ast.Assign) and len(n.targets) == 1 and isinstance(n.targets[0], ast.Name)
               and n.targets[0].id == '_OPERATOR_VALS'), None)
    if not isinstance(ov, ast.Dict):
        raise TranslateError('_OPERATOR_VALS is not a dict literal')
    opvals: dict[str, str] = {}
    for k, v in zip(ov.keys, ov.values):
        if not (isinstance(k, ast.Attribute) and ast.unparse(k.value) == 'Token' and isinstance(v, ast.Constant) and isinstance(v.value, str)):
            raise TranslateError('_OPERATOR_VALS: entry is not Token.X: "<text>"')
        opvals[k.attr] = v.value
    paths = _paths(_strip_doc(f), 'BaseTokenizer.error', pure_calls=True)
    ctor_ok = True

    def take(tok: str | None, nargs: int):
        hit = [q for q in paths if all(_decide(a, tok, nargs) == pol for a, pol in q.conds)]
        if len(hit) != 1:
            raise TranslateError(f'BaseTokenizer.error: {len(hit)} paths for message={tok or "<str>"} with {nargs} argument(s)')
        return hit[0]

    def message_of(q, tok: str | None, nargs: int):
        """(pieces | None if it raises, constructor call well-formed)"""
        if q.end is None:
            raise TranslateError('BaseTokenizer.error: a path returns nothing')
        if q.end[0] == 'raise':
            return None, True
        if q.effects:
            raise TranslateError(f'BaseTokenizer.error: side effects {q.effects}')
        call = ast.parse(q.end[1], mode='eval').body
        if not (isinstance(call, ast.Call) and ast.unparse(call.func) == 'self.error_type'):
            raise TranslateError(f'BaseTokenizer.error: returns `{q.end[1][:80]}`, not self.error_type(...)')
        got: dict[str, ast.expr] = dict(zip(ctor_names, call.args))
        for k in call.keywords:
            if k.arg is None or k.arg in got or k.arg not in ctor_names:
                raise TranslateError('BaseTokenizer.error: constructor call with unrecognised keyword arguments')
            got[k.arg] = k.value
        good = len(call.args) <= 3 and set(got) == set(ctor_names) and ast.unparse(got[ctor_names[1]]) == 'self.filename' \
            and ast.unparse(got[ctor_names[2]]) == 'self.line_num'
        if ctor_names[0] not in got:
            raise TranslateError('BaseTokenizer.error: constructor call without a message')
        conc = _Concrete(tok, nargs, opvals)
        for v in q.env.values():              # locals are evaluated eagerly: an `args[0]` that is never used still raises
            conc.visit(ast.parse(v, mode='eval').body)
        mexpr = conc.visit(ast.parse(ast.unparse(got[ctor_names[0]]), mode='eval').body)
        if conc.raises:
            return None, good
        if tok is None:
            return ast.unparse(mexpr), good
        return _merge(_pieces(ast.fix_missing_locations(mexpr), {'__value': VAL}, 'BaseTokenizer.error')), good

    templates: dict[tuple[str, int], list | None] = {}
    for tok in members:
        for nargs in (0, 1):
            ps, good = message_of(take(tok, nargs), tok, nargs)
            ctor_ok = ctor_ok and good
            templates[(tok, nargs)] = ps
    # two values for a token: must raise (TypeError by design), not build a message
    two = take(next(iter(members)), 2)
    two_raises = two.end is not None and two.end[0] == 'raise'
    # str message
    m0, g0 = message_of(take(None, 0), None, 0)
    m1, g1 = message_of(take(None, 1), None, 1)
    ctor_ok = ctor_ok and g0 and g1
    str_ok = m0 == 'message' and m1 == 'message.format(*args)'
    return dict(members=members, templates=templates), ctor_ok, str_ok, two_raises


def _coq_str(s: str) -> str:
    return '[' + '; '.join(str(ord(c)) for c in s) + ']%N'


def _coq_pieces(ps: list | None) -> str:
    if ps is None:
        return 'None'
    tag = {MSG: 'PMsg', FILE: 'PFile', LINE: 'PLine', VAL: 'PVal'}
    return 'Some [' + '; '.join(f'PLit {_coq_str(p)}' if isinstance(p, str) else tag[p[0]] for p in ps) + ']'


def translate() -> tuple[str, dict]:
    tree = ast.parse(src_text('tokenizer.py'))
    fi = _fileinfo(tree)
    ctor_names = _syntax_error_class(tree)
    err, ctor_ok, str_ok, two_raises = _error_method(tree, ctor_names)
    members, templates = err['members'], err['templates']
    b = {True: 'true', False: 'false'}
    lines = [
        '(* GENERATED by translate/c03_errfmt.py from /repo/src/srctools/tokenizer.py. Do not edit. *)',
        'From Coq Require Import NArith List Bool.', 'From SV Require Import Text.ErrFmt.', 'Import ListNotations.', 'Open Scope N_scope.',
        '(* format_exc_fileinfo(msg, file, line_num) = TokenSyntaxError.__str__: the pieces of the text for each combination of',
        '   "file is None" / "line_num is None"; None = that combination raises *)',
        'Definition gen_fcfg : fcfg := {|',
        f'  f_none_none := {_coq_pieces(fi[(True, True)])};',
        f'  f_file_only := {_coq_pieces(fi[(False, True)])};',
        f'  f_line_only := {_coq_pieces(fi[(True, False)])};',
        f'  f_both := {_coq_pieces(fi[(False, False)])} |}}.',
        '(* BaseTokenizer.error(Token.X [, value]): (Token value, message without a value, message with one value); None = raises *)',
        'Definition gen_token_messages : list (N * option (list piece) * option (list piece)) := [',
        ';\n'.join(f'  ({v}, {_coq_pieces(templates[(k, 0)])}, {_coq_pieces(templates[(k, 1)])})' for k, v in members.items()),
        '].',
        'Definition gen_token_members : list N := [' + '; '.join(str(v) for v in members.values()) + '].',
        '(* every path of error() ends in self.error_type(<message>, self.filename, self.line_num) *)',
        f'Definition gen_error_ctor_ok : bool := {b[ctor_ok]}.',
        '(* a str message is passed on unchanged without arguments and as message.format( *args) with arguments *)',
        f'Definition gen_error_str_form_ok : bool := {b[str_ok]}.',
        '(* a Token with two values is refused (raises) instead of dropping one *)',
        f'Definition gen_error_two_values_refused : bool := {b[two_raises]}.',
        '',
    ]
    side = dict(fileinfo={f'file_none={k[0]},line_none={k[1]}': v for k, v in fi.items()},
                token_messages={f'{k[0]}/{k[1]}': v for k, v in templates.items()}, ctor_ok=ctor_ok, str_form_ok=str_ok,
                two_values_refused=two_raises, ctor_params=ctor_names)
    return '\n'.join(lines), side


# Written instead of the texts when the translator fails closed, so that the rest of the development still builds and the other
# ties of the check are still evaluated (the error-text obligations and correspondence are skipped, translate:ErrFmt_gen has failed).
EMPTY_GEN = ('(* GENERATED by translate/c03_errfmt.py: the translator FAILED CLOSED; every combination "raises". *)\n'
             'From Coq Require Import NArith List Bool.\nFrom SV Require Import Text.ErrFmt.\nImport ListNotations.\nOpen Scope N_scope.\n'
             'Definition gen_fcfg : fcfg := {| f_none_none := None; f_file_only := None; f_line_only := None; f_both := None |}.\n'
             'Definition gen_token_messages : list (N * option (list piece) * option (list piece)) := [].\n'
             'Definition gen_token_members : list N := [].\n'
             'Definition gen_error_ctor_ok : bool := false.\nDefinition gen_error_str_form_ok : bool := false.\n'
             'Definition gen_error_two_values_refused : bool := false.\n')

GEN = {'ErrFmt_gen': translate}
