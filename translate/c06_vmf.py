"""C06 translator: vmf.py export/parse code -> Gen/VmfTemplates_gen.v, Gen/VmfKeys_gen.v, Gen/VmfDispSizes_gen.v,
Gen/VmfOrder_gen.v.

Everything is read from the Python ast and fails closed (TranslateError) on syntax it does not recognise:

* every `<buffer>.write(<expr>)` of the export methods (and the f-string returned by Output.as_keyvalue) is flattened
  into literal text and interpolations; every interpolation is classified Esc / Num / RawStr / Struct using the
  syntactic form (escape_text(..), format_float(..), format spec, ...) and, for bare `{expr}` interpolations, a hand
  table of field types (str vs number) that the check validates dynamically on real objects;
* the written text is split into lines and a block stack is simulated in source order, giving every written
  keyvalue line (key segments, value segments) and the (block, key) pairs written, across method calls;
* the parse methods are read by a small abstract interpreter (variable -> block) that collects the (block, key)
  pairs looked up (subscripts, .int/.float/.bool/.vec, find_key/find_block/find_all/find_children, `in`,
  comparisons of .name, startswith prefixes, wildcard reads);
* displacement array shapes: row count, slice bounds and per-element arity of every array writer; expected row
  length of every array reader; as arithmetic over `power`;
* the shape of the entity loop of VMF.parse (one pass in file order / two passes) and of the replaceNN index.
"""
from __future__ import annotations

import ast
import re
from typing import Any

from harness.common import TranslateError, src_text, ast_digest

WRITERS = {'buffer', 'dest_file', 'f'}

# ---------------------------------------------------------------------------------------------- hand tables
# Field types of bare `{expr}` interpolations and of the arguments of escape_text (validated dynamically by
# checks/c06.py:validate_field_table): 's' = str-typed, 'n' = number-like (int, float, bool, Vec, Angle, UVAxis, enum
# value; its text is produced by number formatting only).
FIELD_TYPES: dict[str, str] = {
    'self.hammer_ver': 'n', 'self.hammer_build': 'n', 'self.map_ver': 'n', 'self.format_ver': 'n',
    'self.grid_spacing': 'n', 'self.strata_instance_vis.value': 'n', 'self.active_cam': 'n', 'self.quickhide_count': 'n',
    'self.position': 'n', 'self.angle': 'n', 'self.pos': 'n', 'self.target': 'n',
    'self.bounds_min': 'n', 'self.bounds_max': 'n', 'self.name': 's', 'self.id': 'n', 'self.color': 'n',
    'self.editor_color': 'n', 'self.group_id': 'n', 'group': 'n', 'self.planes[0]': 'n', 'self.planes[1]': 'n',
    'self.planes[2]': 'n', 'self.mat': 's', 'self.uaxis': 'n', 'self.vaxis': 'n', 'self.lightmap': 'n',
    'self.smooth': 'n', 'i': 'n', 'point': 'n', 'self.disp_power': 'n', 'self.disp_pos': 'n',
    'self.disp_elevation': 'n', 'y': 'n', 'key': 's', 'value': 's', 'group_id': 'n', 'vis_id': 'n',
    'self.logical_pos': 's', 'self.comments': 's', 'fixup.var': 's', 'fixup.value': 's', 'self.times': 'n',
    'self.exp_out()': 's', 'self.target@Output': 's', 'self.exp_in()': 's', 'self.params': 's',
    'vert.triangle_a.value': 'n', 'vert.triangle_b.value': 'n',
}
# Kind of every number-like field (round 3; validated dynamically like FIELD_TYPES): decides which formatter writes a bare
# `{expr}` / str(expr) / conv_kv(expr).  int / float / bool / Vec / Angle / UVAxis / Vec4 / intlist.
NUM_KINDS: dict[str, str] = {
    'self.hammer_ver': 'int', 'self.hammer_build': 'int', 'self.map_ver': 'int', 'self.format_ver': 'int',
    'self.grid_spacing': 'int', 'self.strata_instance_vis.value': 'int', 'self.active_cam': 'int', 'self.quickhide_count': 'int',
    'self.position': 'Vec', 'self.angle': 'Angle', 'self.pos': 'Vec', 'self.target': 'Vec',
    'self.bounds_min': 'Vec', 'self.bounds_max': 'Vec', 'self.id': 'int', 'self.color': 'Vec',
    'self.editor_color': 'Vec', 'self.group_id': 'int', 'group': 'int', 'self.planes[0]': 'Vec', 'self.planes[1]': 'Vec',
    'self.planes[2]': 'Vec', 'self.uaxis': 'UVAxis', 'self.vaxis': 'UVAxis', 'self.lightmap': 'int',
    'self.smooth': 'int', 'i': 'int', 'point': 'Vec', 'self.disp_power': 'int', 'self.disp_pos': 'Vec',
    'self.disp_elevation': 'float', 'y': 'int', 'group_id': 'int', 'vis_id': 'int', 'self.times': 'int',
    'vert.triangle_a.value': 'int', 'vert.triangle_b.value': 'int', 'self.ham_rot': 'float', 'self.delay': 'float',
    'self.u': 'float', 'self.v': 'float', 'self.zoom': 'float', 'fixup.id': 'int', 'self.disp_allowed_vert': 'intlist',
}
# kind of the displacement vertex members (validated dynamically)
MEMBER_KINDS = {'normal': 'Vec', 'distance': 'float', 'offset': 'Vec', 'offset_norm': 'Vec', 'alpha': 'float', 'multi_blend': 'Vec4',
                'multi_alpha': 'Vec4', 'multi_colors[i]': 'Vec'}
# Number formats (mirrors `numfmt` of rocq/Fmt/VmfNum.v): 'I' str(int), 'B' '1'/'0', 'R' repr(float) (shortest text that reads
# back exactly), ('F', p) fixed notation with p decimals (format_float strips zeros: same number), ('G', p) p significant digits.
# STR_FMTS[kind] = formats of the components of str(value), read from the __str__ methods (math.py, vmf.py) by load_str_formats.
STR_FMTS: dict[str, list] = {}
FLOAT_PLACES: list[int] = [0]
# single-assignment locals of the export methods (inlined where they are interpolated), per method
LOCALS: dict[str, dict[str, ast.AST]] = {}
SEP_NAMES: set[str] = set()

# Struct interpolations: indentation and block names chosen by the code itself.
STRUCT_EXPRS = {'ind', 'ind[:-1]', 'title', 'name'}

# (caller, callee expression) -> exported functions written at that point
CALLS: dict[tuple[str, str], list[str]] = {
    ('VMF.export', 'vis.export'): ['VisGroup.export'],
    ('VMF.export', 'view.export'): ['Strata2DViewport.export', 'Strata3DViewport.export'],
    ('VMF.export', 'self.spawn.export'): ['Entity.export'],
    ('VMF.export', 'ent.export'): ['Entity.export'],
    ('VMF.export', 'cam.export'): ['Camera.export'],
    ('VMF.export', 'cord.export'): ['Cordon.export'],
    ('VisGroup.export', 'child.export'): ['VisGroup.export'],
    ('Solid.export', 's.export'): ['Side.export'],
    ('Side.export', 'self._export_displacement'): ['Side._export_displacement'],
    ('Side._export_displacement', 'self._export_disp_rowset'): ['Side._export_disp_rowset'],
    ('Entity.export', 'self._fixup.export'): ['EntityFixup.export'],
    ('Entity.export', 's.export'): ['Solid.export'],
    ('Entity.export', 'o.export'): ['Output.export'],
    ('Entity.export', 'group.export'): ['EntityGroup.export'],
    ('Output.export', 'self.as_keyvalue'): ['Output.as_keyvalue'],
}
EXPORT_FUNCS = ['VMF.export', 'Strata2DViewport.export', 'Strata3DViewport.export', 'Camera.export', 'Cordon.export',
                'VisGroup.export', 'Solid.export', 'Side.export', 'Side._export_displacement', 'Side._export_disp_rowset',
                'Entity.export', 'EntityFixup.export', 'EntityGroup.export', 'Output.export', 'Output.as_keyvalue']
# parse function -> {variable: block it denotes}
PARSE_ROOTS: dict[str, dict[str, str]] = {
    'VMF.parse': {'tree': '<file>'},
    '_parse_strata_viewport': {'kvs': 'viewsettings'},
    'Camera.parse': {'tree': 'camera'},
    'Cordon.parse': {'tree': 'cordon'},
    'VisGroup.parse': {'props': 'visgroup'},
    'Solid.parse': {'tree': 'solid'},
    'Side.parse': {'tree': 'side'},
    'Side._parse_displacement_data': {'disp_tree': 'dispinfo'},
    'Side._parse_strata_points': {'block': 'point_data'},
    'Entity.parse': {'tree_list': 'entity'},
    'EntityGroup.parse': {'props': 'group'},
}
BLOCK_ALIAS = {'world': 'entity'}     # worldspawn is parsed by Entity.parse
KV_READ_METHODS = {'int', 'float', 'bool', 'vec'}
# per-element number count of the displacement vertex members (validated dynamically)
MEMBER_ARITY = {'normal': 3, 'distance': 1, 'offset': 3, 'offset_norm': 3, 'alpha': 1, 'multi_blend': 4, 'multi_alpha': 4,
                'multi_colors[i]': 3}


# ---------------------------------------------------------------------------------------------- helpers
def _funcs(tree: ast.Module) -> dict[str, ast.FunctionDef]:
    out: dict[str, ast.FunctionDef] = {}
    for n in tree.body:
        if isinstance(n, ast.FunctionDef):
            out[n.name] = n
        elif isinstance(n, ast.ClassDef):
            for m in n.body:
                if isinstance(m, ast.FunctionDef):
                    # keep the implementation, not the @overload stubs
                    if any(isinstance(d, ast.Name) and d.id == 'overload' for d in m.decorator_list):
                        continue
                    out[f'{n.name}.{m.name}'] = m
    return out


def _coq_str(s: str) -> str:
    """A Python str as a Coq `list N` of code points."""
    return '[' + ';'.join(str(ord(c)) for c in s) + ']%N'


def _coq_name(s: str) -> str:
    return '"' + s.replace('"', '""') + '"'


class Piece:
    __slots__ = ('kind', 'text', 'cls', 'field', 'line', 'fmt')

    def __init__(self, kind: str, text: str = '', cls: str = '', field: str = '', line: int = 0, fmt: Any = None) -> None:
        self.kind, self.text, self.cls, self.field, self.line, self.fmt = kind, text, cls, field, line, fmt

    def __repr__(self) -> str:
        return f'Lit({self.text!r})' if self.kind == 'lit' else f'Ip({self.cls},{self.field})'


def _const_ifexp_values(e: ast.AST) -> list[str] | None:
    if isinstance(e, ast.IfExp) and isinstance(e.body, ast.Constant) and isinstance(e.orelse, ast.Constant) \
            and isinstance(e.body.value, str) and isinstance(e.orelse.value, str):
        return [e.body.value, e.orelse.value]
    return None


def fmt_name(f: Any) -> str:
    return f if isinstance(f, str) else f'{f[0]}{f[1]}'


def _spec_format(fn: str, sp: str, line: int) -> Any:
    """Format of a `{x:spec}` interpolation: g / .Ng -> ('G', N); .Nf -> ('F', N); 0Nd / 0N / d -> 'I'."""
    m = re.fullmatch(r"f'(?:\.(\d+))?g'", sp)
    if m:
        return ('G', int(m.group(1)) if m.group(1) else 6)
    m = re.fullmatch(r"f'\.(\d+)f'", sp)
    if m:
        return ('F', int(m.group(1)))
    if re.fullmatch(r"f'0?\d*d?'", sp):
        return 'I'
    raise TranslateError(f'{fn}:{line}: unknown format spec {sp}')


def kind_of(fn: str, e: ast.AST, line: int) -> str:
    src = ast.unparse(e)
    if isinstance(e, ast.Name) and e.id in LOCALS.get(fn, {}):
        return kind_of(fn, LOCALS[fn][e.id], line)
    k = NUM_KINDS.get(src)
    if k is None:
        raise TranslateError(f'{fn}:{line}: the kind of number {src} is not in the table')
    return k


def str_formats(fn: str, kind: str, line: int) -> list:
    """Formats of the components of str(value) for a value of this kind."""
    if kind == 'int':
        return ['I']
    if kind == 'float':
        return ['R']
    if kind in STR_FMTS:
        return list(STR_FMTS[kind])
    raise TranslateError(f'{fn}:{line}: str() of a {kind} is not a known number format')


def conv_kv_formats(fn: str, kind: str, line: int) -> list:
    """conv_kv(value): bool -> '1'/'0', float -> format_float, the rest -> str (the dispatch is checked by load_str_formats)."""
    if kind == 'bool':
        return ['B']
    if kind == 'float':
        return [('F', FLOAT_PLACES[0])]
    return str_formats(fn, kind, line)


def num_formats(fn: str, e: ast.AST, spec: ast.AST | None, line: int) -> Any:
    """Which formatter writes this number-like interpolation: a list of component formats, or ('rows', source) for a
    `' '.join(...)` of array elements (resolved per array by analyse)."""
    src = ast.unparse(e)
    if isinstance(e, ast.Name) and e.id in LOCALS.get(fn, {}) and src not in NUM_KINDS:
        return num_formats(fn, LOCALS[fn][e.id], spec, line)
    if spec is not None:
        f = _spec_format(fn, ast.unparse(spec), line)
        k = kind_of(fn, e, line)
        if k not in ('int', 'float') or (f == 'I' and k != 'int'):
            raise TranslateError(f'{fn}:{line}: format spec {ast.unparse(spec)} on a {k}')
        return [f]
    if _const_ifexp_values(e) is not None:
        return ['B']
    if isinstance(e, ast.Call):
        f = ast.unparse(e.func)
        if f == 'format_float':
            if len(e.args) == 1 and not e.keywords:
                return [('F', FLOAT_PLACES[0])]
            pl = e.args[1] if len(e.args) == 2 else next((k.value for k in e.keywords if k.arg == 'places'), None)
            if isinstance(pl, ast.Constant) and isinstance(pl.value, int):
                return [('F', pl.value)]
            raise TranslateError(f'{fn}:{line}: format_float call shape {src}')
        if f == 'srctools.bool_as_int':
            return ['B']
        if f in ('int', 'len'):
            return ['I']
        if f == 'str' and len(e.args) == 1:
            return str_formats(fn, kind_of(fn, e.args[0], line), line)
        if f == 'conv_kv' and len(e.args) == 1:
            return conv_kv_formats(fn, kind_of(fn, e.args[0], line), line)
        if f == "' '.join":
            a = e.args[0]
            if isinstance(a, ast.Call) and ast.unparse(a.func) == 'map' and len(a.args) == 2 and ast.unparse(a.args[0]) == 'str' \
                    and NUM_KINDS.get(ast.unparse(a.args[1])) == 'intlist':
                return ['I']
            return ('rows', src)
    if isinstance(e, ast.Subscript) and src.startswith('_DISP_COLL_TO_FLAG['):
        return ['I']
    return str_formats(fn, kind_of(fn, e, line), line)


def classify(fn: str, e: ast.AST, spec: ast.AST | None, line: int) -> Piece:
    """Classify one interpolated expression."""
    src = ast.unparse(e)
    if isinstance(e, ast.Name) and e.id in LOCALS.get(fn, {}) and src not in FIELD_TYPES and src not in STRUCT_EXPRS:
        # a single-assignment local: classify what it stands for (the field name stays the local's source expression)
        return classify(fn, LOCALS[fn][e.id], spec, line)
    if spec is not None:
        return Piece('ip', cls='Num', field=src, line=line, fmt=num_formats(fn, e, spec, line))
    if src in STRUCT_EXPRS:
        return Piece('ip', cls='Struct', field=src, line=line)
    vals = _const_ifexp_values(e)
    if vals is not None:
        if all(re.fullmatch(r'[01]', v) for v in vals):
            return Piece('ip', cls='Num', field=src, line=line, fmt=['B'])
        if all(re.fullmatch(r'[a-z]+', v) for v in vals):
            return Piece('ip', cls='Struct', field='|'.join(vals), line=line)
        raise TranslateError(f'{fn}:{line}: conditional literal {src} not recognised')
    if isinstance(e, ast.Call):
        f = ast.unparse(e.func)
        if f == 'escape_text':
            if len(e.args) not in (1, 2) or e.keywords:
                raise TranslateError(f'{fn}:{line}: escape_text call shape')
            if len(e.args) == 2 and not (isinstance(e.args[1], ast.Constant) and e.args[1].value is True):
                raise TranslateError(f'{fn}:{line}: escape_text second argument')
            inner = ast.unparse(e.args[0])
            key = inner + '@Output' if (fn.startswith('Output.') and inner == 'self.target') else inner
            if FIELD_TYPES.get(key) != 's':
                raise TranslateError(f'{fn}:{line}: escape_text applied to {inner}, which the field table does not list as str')
            return Piece('ip', cls='EscML' if len(e.args) == 2 else 'Esc', field=inner, line=line)
        if f in ('format_float', 'srctools.bool_as_int', 'int', 'len', "' '.join"):
            # rows of numbers (' '.join): element forms are checked by disp_shapes
            return Piece('ip', cls='Num', field=src, line=line, fmt=num_formats(fn, e, None, line))
        if f in ('conv_kv', 'str') and len(e.args) == 1 and not e.keywords:
            inner = ast.unparse(e.args[0])
            key = inner + '@Output' if (fn.startswith('Output.') and inner == 'self.target') else inner
            if FIELD_TYPES.get(key) == 's':
                return Piece('ip', cls='RawStr', field=src, line=line)       # conv_kv / str of a str is the str itself
            return Piece('ip', cls='Num', field=src, line=line, fmt=num_formats(fn, e, None, line))
        if f in ('self.exp_out', 'self.exp_in'):
            return Piece('ip', cls='RawStr', field=src, line=line)
        raise TranslateError(f'{fn}:{line}: unknown call {{{src}}} in written text')
    if isinstance(e, ast.Subscript) and src.startswith('_DISP_COLL_TO_FLAG['):
        return Piece('ip', cls='Num', field=src, line=line, fmt=['I'])
    if src == 'sep' or (fn == 'Output.as_keyvalue' and src in SEP_NAMES):
        return Piece('ip', cls='Sep', field=src, line=line)
    key = src + '@Output' if (fn.startswith('Output.') and src == 'self.target') else src
    ty = FIELD_TYPES.get(key)
    if ty == 'n':
        return Piece('ip', cls='Num', field=src, line=line, fmt=num_formats(fn, e, None, line))
    if ty == 's':
        return Piece('ip', cls='RawStr', field=src, line=line)
    raise TranslateError(f'{fn}:{line}: interpolation {{{src}}} is not in the field-type table')


def sep_locals(node: ast.FunctionDef) -> set[str]:
    """Locals of Output.as_keyvalue that hold the separator: assigned (directly or in both branches of an if) from
    one-character literals / self.SEP / OUTPUT_SEP, chosen by self.comma_sep."""
    out: set[str] = set()

    def leaves(e: ast.AST) -> list[ast.AST]:
        return leaves(e.body) + leaves(e.orelse) if isinstance(e, ast.IfExp) else [e]
    for n in ast.walk(node):
        if isinstance(n, ast.Assign) and len(n.targets) == 1 and isinstance(n.targets[0], ast.Name):
            if all((isinstance(x, ast.Constant) and isinstance(x.value, str) and len(x.value) == 1)
                   or ast.unparse(x) in ('self.SEP', 'OUTPUT_SEP', 'Output.SEP') for x in leaves(n.value)):
                out.add(n.targets[0].id)
    return out


def find_locals(fn: str, node: ast.FunctionDef) -> dict[str, ast.AST]:
    """Names assigned exactly once in the method by a plain `name = expr` (never a loop target, parameter, augmented or
    deleted), whose value reads only attributes/parameters: safe to inline where they are interpolated."""
    counts: dict[str, int] = {}
    vals: dict[str, ast.AST] = {}
    banned = {a.arg for a in node.args.args + node.args.kwonlyargs} | STRUCT_EXPRS | {'sep', 'row', 'rows'}
    for n in ast.walk(node):
        if isinstance(n, ast.Assign):
            for t in n.targets:
                for x in ast.walk(t):
                    if isinstance(x, ast.Name):
                        counts[x.id] = counts.get(x.id, 0) + 1
            if len(n.targets) == 1 and isinstance(n.targets[0], ast.Name):
                vals[n.targets[0].id] = n.value
        elif isinstance(n, (ast.AugAssign, ast.AnnAssign)):
            for x in ast.walk(n.target):
                if isinstance(x, ast.Name):
                    counts[x.id] = counts.get(x.id, 0) + 2
        elif isinstance(n, (ast.For, ast.comprehension)):
            for x in ast.walk(n.target):
                if isinstance(x, ast.Name):
                    counts[x.id] = counts.get(x.id, 0) + 2
        elif isinstance(n, (ast.NamedExpr, ast.Delete, ast.With)):
            for x in ast.walk(n):
                if isinstance(x, ast.Name) and isinstance(x.ctx, (ast.Store, ast.Del)):
                    counts[x.id] = counts.get(x.id, 0) + 2
    return {k: v for k, v in vals.items() if counts.get(k) == 1 and k not in banned and k not in SEP_NAMES}


def flatten(fn: str, e: ast.AST) -> list[Piece]:
    """Flatten the argument of a write call into literal and interpolated pieces."""
    if isinstance(e, ast.Constant) and isinstance(e.value, str):
        return [Piece('lit', e.value, line=e.lineno)]
    if isinstance(e, ast.JoinedStr):
        out: list[Piece] = []
        for v in e.values:
            if isinstance(v, ast.Constant):
                out.append(Piece('lit', str(v.value), line=e.lineno))
            elif isinstance(v, ast.FormattedValue):
                if v.conversion != -1:
                    raise TranslateError(f'{fn}:{e.lineno}: conversion in f-string')
                loc = LOCALS.get(fn, {}).get(v.value.id) if isinstance(v.value, ast.Name) else None
                if loc is not None and v.format_spec is None and isinstance(loc, (ast.JoinedStr, ast.BinOp)):
                    out += flatten(fn, loc)          # a local that holds a piece of text built by an f-string
                else:
                    out.append(classify(fn, v.value, v.format_spec, e.lineno))
            else:
                raise TranslateError(f'{fn}:{e.lineno}: f-string part {type(v).__name__}')
        return out
    if isinstance(e, ast.BinOp) and isinstance(e.op, ast.Add):
        return flatten(fn, e.left) + flatten(fn, e.right)
    if isinstance(e, ast.Name) and e.id in LOCALS.get(fn, {}) and isinstance(LOCALS[fn][e.id], (ast.JoinedStr, ast.BinOp)):
        return flatten(fn, LOCALS[fn][e.id])
    if isinstance(e, ast.Name) or isinstance(e, ast.Subscript):
        return [classify(fn, e, None, e.lineno)]
    if isinstance(e, ast.Call):
        f = ast.unparse(e.func)
        if f in ('srctools.bool_as_int', 'escape_text', 'format_float', 'conv_kv', 'str'):
            return [classify(fn, e, None, e.lineno)]
        if f == 'self.as_keyvalue':
            return [Piece('call', field='self.as_keyvalue', line=e.lineno)]
    raise TranslateError(f'{fn}:{getattr(e, "lineno", 0)}: unrecognised written expression {ast.unparse(e)[:60]}')


def _fmt_of_format_float(mfuncs: dict[str, ast.FunctionDef]) -> int:
    """math.format_float: `f'{x+0.0:.{places}f}'` with a literal default for places; stripping zeros / the point keeps the
    number.  Returns the default number of places."""
    ff = mfuncs.get('format_float')
    if ff is None:
        raise TranslateError('math.format_float not found')
    names = [a.arg for a in ff.args.args]
    if len(names) != 2 or len(ff.args.defaults) != 1 or not (isinstance(ff.args.defaults[0], ast.Constant)
                                                             and isinstance(ff.args.defaults[0].value, int)):
        raise TranslateError('format_float: signature (x, places=<int literal>) expected')
    x, pl = names
    js = [n for n in ast.walk(ff) if isinstance(n, ast.JoinedStr) and any(isinstance(v, ast.FormattedValue) and v.format_spec is not None for v in n.values)]
    if len(js) != 1 or len(js[0].values) != 1:
        raise TranslateError('format_float: one formatted value expected')
    fv = js[0].values[0]
    assert isinstance(fv, ast.FormattedValue)
    val = ast.unparse(fv.value).replace(' ', '')
    if val not in (x, f'{x}+0.0', f'0.0+{x}'):
        raise TranslateError(f'format_float: formats {val}, not its argument')
    sp = fv.format_spec
    parts = [(v.value if isinstance(v, ast.Constant) else '{' + ast.unparse(v.value) + '}') for v in sp.values]     # type: ignore[union-attr]
    if ''.join(parts) != '.{' + pl + '}f':
        raise TranslateError(f'format_float: format spec {"".join(parts)!r} is not .{{places}}f')
    # what happens to the text afterwards may only strip trailing zeros and the point
    for n in ast.walk(ff):
        if isinstance(n, ast.Call) and isinstance(n.func, ast.Attribute) and n.func.attr not in ('rstrip',):
            raise TranslateError(f'format_float: call {ast.unparse(n)[:40]}')
        if isinstance(n, ast.Call) and isinstance(n.func, ast.Attribute) and n.func.attr == 'rstrip' and \
                not (len(n.args) == 1 and isinstance(n.args[0], ast.Constant) and n.args[0].value in ('0', '.')):
            raise TranslateError(f'format_float: strips {ast.unparse(n.args[0]) if n.args else "whitespace"}')
    return ff.args.defaults[0].value


def _str_components(where: str, node: ast.FunctionDef, places: int) -> list:
    """Formats of the numbers in the f-string a __str__ method returns; the literal text between them may only hold
    spaces and brackets."""
    rets = [n for n in ast.walk(node) if isinstance(n, ast.Return) and n.value is not None]
    if len(rets) != 1:
        raise TranslateError(f'{where}: a single return expected')
    v = rets[0].value
    pieces: list[ast.AST] = []

    def walk(e: ast.AST) -> None:
        if isinstance(e, ast.JoinedStr):
            pieces.extend(e.values)
        elif isinstance(e, ast.BinOp) and isinstance(e.op, ast.Add):
            walk(e.left)
            walk(e.right)
        elif isinstance(e, ast.Constant) and isinstance(e.value, str):
            pieces.append(e)
        else:
            raise TranslateError(f'{where}: returned expression {ast.unparse(e)[:50]}')
    walk(v)       # type: ignore[arg-type]
    out: list = []
    for pc in pieces:
        if isinstance(pc, ast.Constant):
            if not re.fullmatch(r'[ \[\]\(\)]*', str(pc.value)):
                raise TranslateError(f'{where}: literal text {pc.value!r} between the numbers')
        elif isinstance(pc, ast.FormattedValue):
            if pc.conversion != -1:
                raise TranslateError(f'{where}: conversion')
            if not re.fullmatch(r'(format_float\()?self\._?[a-z]+\)?', ast.unparse(pc.value)):
                raise TranslateError(f'{where}: component {ast.unparse(pc.value)}')
            if pc.format_spec is not None:
                out.append(_spec_format(where, ast.unparse(pc.format_spec), pc.lineno))
            elif isinstance(pc.value, ast.Call):
                if ast.unparse(pc.value.func) != 'format_float' or len(pc.value.args) != 1 or pc.value.keywords:
                    raise TranslateError(f'{where}: component {ast.unparse(pc.value)}')
                out.append(('F', places))
            else:
                out.append('R')          # a bare float attribute: repr
        else:
            raise TranslateError(f'{where}: f-string part')
    return out


def load_str_formats(vfuncs: dict[str, ast.FunctionDef]) -> None:
    """STR_FMTS / FLOAT_PLACES from math.py (format_float, VecBase.__str__, AngleBase.__str__) and vmf.py (UVAxis.__str__,
    Vec4.__str__); the float / bool dispatch of conv_kv."""
    mfuncs = _funcs(ast.parse(src_text('math.py')))
    FLOAT_PLACES[0] = _fmt_of_format_float(mfuncs)
    STR_FMTS.clear()
    for kind, table, name in (('Vec', mfuncs, 'VecBase.__str__'), ('Angle', mfuncs, 'AngleBase.__str__'),
                              ('UVAxis', vfuncs, 'UVAxis.__str__'), ('Vec4', vfuncs, 'Vec4.__str__')):
        if name not in table:
            raise TranslateError(f'{name} not found')
        STR_FMTS[kind] = _str_components(name, table[name], FLOAT_PLACES[0])
    ck = vfuncs.get('conv_kv')
    if ck is None:
        raise TranslateError('conv_kv not found')
    # float branch: `isinstance(val, float)` -> format_float(val); it must come before any str()/__str__ fallback for floats
    found = False
    for n in ast.walk(ck):
        if isinstance(n, ast.If) and ast.unparse(n.test) == 'isinstance(val, float)':
            if len(n.body) == 1 and isinstance(n.body[0], ast.Return) and ast.unparse(n.body[0].value) == 'format_float(val)':
                found = True
            else:
                raise TranslateError('conv_kv: float branch does not return format_float(val)')
    if not found:
        raise TranslateError('conv_kv: float branch not found')


# ---------------------------------------------------------------------------------------------- export side
class ExportWalker:
    """Walk an export function in source order; produce a list of events:
    ('write', [Piece...]) | ('call', callee_expr, first_literal_arg | None, loop_range | None)."""

    def __init__(self, fn: str, node: ast.FunctionDef) -> None:
        self.fn = fn
        self.events: list[tuple] = []
        self.loops: list[tuple[str, Any]] = []
        self.body(node.body)

    def body(self, stmts: list[ast.stmt]) -> None:
        for s in stmts:
            self.stmt(s)

    def stmt(self, s: ast.stmt) -> None:
        if isinstance(s, ast.Expr) and isinstance(s.value, ast.Constant):
            return      # docstring
        if isinstance(s, ast.Expr) and isinstance(s.value, ast.Call):
            c = s.value
            f = c.func
            if isinstance(f, ast.Attribute) and f.attr == 'write' and isinstance(f.value, ast.Name) and f.value.id in WRITERS:
                if len(c.args) != 1 or c.keywords:
                    raise TranslateError(f'{self.fn}:{s.lineno}: write() call shape')
                self.events.append(('write', flatten(self.fn, c.args[0]), dict(self.loops)))
                return
            passes_buf = any(isinstance(a, ast.Name) and a.id in WRITERS for a in c.args) or \
                any(isinstance(k.value, ast.Name) and k.value.id in WRITERS for k in c.keywords)
            fs = ast.unparse(f)
            if passes_buf or (self.fn, fs) in CALLS:
                if (self.fn, fs) not in CALLS:
                    raise TranslateError(f'{self.fn}:{s.lineno}: call {fs}(...) receives the output buffer but is not in the call table')
                lit = c.args[0].value if (c.args and isinstance(c.args[0], ast.Constant) and isinstance(c.args[0].value, str)) else None
                lit2 = c.args[1].value if (len(c.args) > 1 and isinstance(c.args[1], ast.Constant) and isinstance(c.args[1].value, str)) else None
                self.events.append(('call', fs, lit, lit2, s.lineno))
                return
            if isinstance(f, ast.Attribute) and f.attr == 'write':
                raise TranslateError(f'{self.fn}:{s.lineno}: write() on unknown receiver {ast.unparse(f.value)}')
            return
        if isinstance(s, ast.If):
            self.events.append(('if', ast.unparse(s.test), s.lineno))
            self.body(s.body)
            if s.orelse:
                self.events.append(('else', s.lineno))
                self.body(s.orelse)
            self.events.append(('endif', s.lineno))
            return
        if isinstance(s, ast.For):
            it = ast.unparse(s.iter)
            tgt = ast.unparse(s.target)
            self.events.append(('for', tgt, it, s.lineno))
            self.loops.append((tgt, it))
            self.body(s.body)
            self.loops.pop()
            self.events.append(('endfor', s.lineno))
            if s.orelse:
                raise TranslateError(f'{self.fn}:{s.lineno}: for/else')
            return
        if isinstance(s, ast.Return):
            if self.fn == 'Output.as_keyvalue' and s.value is not None:
                self.events.append(('write', flatten(self.fn, s.value), {}))
            return
        if isinstance(s, (ast.Assign, ast.AnnAssign, ast.AugAssign, ast.Assert, ast.Delete, ast.Pass)):
            for sub in ast.walk(s):
                if isinstance(sub, ast.Attribute) and sub.attr == 'write':
                    raise TranslateError(f'{self.fn}:{s.lineno}: write inside an expression')
            return
        if isinstance(s, ast.Expr):
            return
        raise TranslateError(f'{self.fn}:{s.lineno}: statement {type(s).__name__} in an export method')


class Site:
    """One written keyvalue line."""

    def __init__(self, fn: str, block: str, key: list[Piece], val: list[Piece], line: int) -> None:
        self.fn, self.block, self.key, self.val, self.line = fn, block, key, val, line


def _split_lines(pieces: list[Piece]) -> list[list[Piece]]:
    lines: list[list[Piece]] = [[]]
    for p in pieces:
        if p.kind == 'lit':
            parts = p.text.split('\n')
            for i, part in enumerate(parts):
                if i > 0:
                    lines.append([])
                if part:
                    lines[-1].append(Piece('lit', part, line=p.line))
        else:
            lines[-1].append(p)
    return lines


def _parse_line(fn: str, pieces: list[Piece]) -> tuple:
    """('open',) ('close',) ('name', [names]) ('kv', key_pieces, val_pieces) ('empty',)"""
    # strip structural indentation
    ps = list(pieces)
    while ps and ((ps[0].kind == 'ip' and ps[0].cls == 'Struct' and ps[0].field in ('ind', 'ind[:-1]'))
                  or (ps[0].kind == 'lit' and ps[0].text.strip('\t') == '')):
        ps.pop(0)
    if ps and ps[0].kind == 'lit':
        ps[0] = Piece('lit', ps[0].text.lstrip('\t'), line=ps[0].line)
    if not ps:
        return ('empty',)
    ln = ps[0].line
    if len(ps) == 1 and ps[0].kind == 'lit' and ps[0].text == '{':
        return ('open',)
    if len(ps) == 1 and ps[0].kind == 'lit' and ps[0].text == '}':
        return ('close',)
    if ps[0].kind == 'lit' and ps[0].text.startswith('"'):
        # "K" "V"   or   "name"   (a quoted block name)
        chars: list[tuple[str, Any]] = []
        for p in ps:
            if p.kind == 'lit':
                chars += [('c', ch) for ch in p.text]
            else:
                chars.append(('p', p))
        fields: list[list[Piece]] = []
        between: list[str] = []
        cur: list[Piece] | None = None
        gap = ''
        for kind, v in chars:
            if kind == 'c' and v == '"':
                if cur is None:
                    cur = []
                    between.append(gap)
                    gap = ''
                else:
                    fields.append(cur)
                    cur = None
            elif cur is not None:
                if kind == 'c':
                    if cur and cur[-1].kind == 'lit':
                        cur[-1].text += v
                    else:
                        cur.append(Piece('lit', v, line=ln))
                else:
                    cur.append(v)
            else:
                if kind != 'c':
                    raise TranslateError(f'{fn}:{ln}: interpolation between quoted fields')
                gap += v
        if cur is not None:
            raise TranslateError(f'{fn}:{ln}: unbalanced quotes in written line')
        if gap != '':
            raise TranslateError(f'{fn}:{ln}: text after the closing quote: {gap!r}')
        if len(fields) == 2 and between == ['', ' ']:
            return ('kv', fields[0], fields[1])
        if len(fields) == 1 and between == ['']:
            if all(p.kind == 'lit' for p in fields[0]):
                return ('name', [''.join(p.text for p in fields[0])])
        raise TranslateError(f'{fn}:{ln}: written line is not of the form "key" "value": {ps}')
    # bare block name, possibly with Struct interpolations
    names = ['']
    for p in ps:
        if p.kind == 'lit':
            if not re.fullmatch(r'[A-Za-z0-9_]+', p.text):
                raise TranslateError(f'{fn}:{ln}: unrecognised bare text {p.text!r}')
            names = [n + p.text for n in names]
        elif p.cls == 'Struct' and '|' in p.field:
            names = [n + alt for n in names for alt in p.field.split('|')]
        elif p.cls == 'Struct':
            names = [n + '{' + p.field + '}' for n in names]
        elif p.cls == 'Num' and p.field == 'i':
            names = [n + '{i}' for n in names]
        else:
            raise TranslateError(f'{fn}:{ln}: unrecognised piece {p} in a block name')
    return ('name', names)


def export_sites(funcs: dict[str, ast.FunctionDef]) -> tuple[list[Site], list[tuple[str, str, str, bool]], dict]:
    """Simulate the block structure over all export methods, starting at VMF.export.
    Returns keyvalue sites, written (writer fn, block, key, is_prefix) records and side info."""
    walkers = {}
    for fn in EXPORT_FUNCS:
        if fn not in funcs:
            raise TranslateError(f'export method {fn} not found')
        walkers[fn] = ExportWalker(fn, funcs[fn])
    sites: list[Site] = []
    numfields: list[tuple] = []           # (writer, block, literal key text, index of the number in the value, formats | ('rows', src))
    written: list[tuple[str, str, str, bool]] = []
    done: set[tuple[str, str, tuple]] = set()
    reached: set[str] = set()

    def qual(name: str, parent: str) -> str:
        name = name.casefold()
        if name == 'editor':
            return f'editor@{BLOCK_ALIAS.get(parent, parent)}'
        return BLOCK_ALIAS.get(name, name) if False else name

    def run(fn: str, ctx: tuple, params: tuple) -> None:
        """ctx: the enclosing blocks a root-level item of this method belongs to (alternatives);
        params: ((name, value), ...) literal values of Struct parameters."""
        if (fn, ctx, params) in done:
            return
        done.add((fn, ctx, params))
        reached.add(fn)
        pmap = dict(params)
        # stack entries: [alternative block names, optional?]  (optional: opened under a condition that may be false)
        stack: list[list] = [[list(ctx), False]]
        if_marks: list[int] = []
        pending: list[str] | None = None

        def owners() -> list[str]:
            """Blocks that may directly contain what is written now."""
            out: list[str] = []
            for names, opt in reversed(stack):
                out += names
                if not opt:
                    break
            return sorted(set(BLOCK_ALIAS.get(n, n) for n in out))

        for ev in walkers[fn].events:
            if ev[0] == 'if':
                if_marks.append(len(stack))
            elif ev[0] == 'else':
                pass
            elif ev[0] == 'endif':
                m = if_marks.pop()
                for ent in stack[m:]:
                    ent[1] = True
            elif ev[0] == 'write':
                loops = ev[2]
                for line in _split_lines(ev[1]):
                    if any(p.kind == 'call' for p in line):
                        run('Output.as_keyvalue', tuple(owners()), ())
                        continue
                    r = _parse_line(fn, line)
                    if r[0] == 'empty':
                        continue
                    if r[0] == 'name':
                        names = []
                        for n in r[1]:
                            for pn, pv in pmap.items():
                                n = n.replace('{' + pn + '}', pv)
                            if '{i}' in n:
                                rng = loops.get('i')
                                m2 = re.fullmatch(r'range\((\d+)\)', rng or '')
                                if not m2:
                                    raise TranslateError(f'{fn}: block name uses i outside `for i in range(K)`')
                                names += [n.replace('{i}', str(k)) for k in range(int(m2.group(1)))]
                            elif '{' in n:
                                raise TranslateError(f'{fn}: block name {n} has an unresolved parameter')
                            else:
                                names.append(n)
                        pending = names
                        for n in names:
                            for o in owners():
                                written.append((fn, o, n.casefold(), False))
                    elif r[0] == 'open':
                        if not pending:
                            raise TranslateError(f'{fn}: "{{" without a block name')
                        par = owners()
                        stack.append([sorted({qual(n, par[0]) for n in pending}), False])
                        pending = None
                    elif r[0] == 'close':
                        if len(stack) <= 1:
                            raise TranslateError(f'{fn}: "}}" closes more blocks than were opened')
                        if if_marks and len(stack) <= if_marks[-1] and not stack[-1][1]:
                            raise TranslateError(f'{fn}: a block opened unconditionally is closed under a condition')
                        stack.pop()
                    else:
                        _, k, v = r
                        for blk in owners():
                            sites.append(Site(fn, blk, k, v, k[0].line if k else 0))
                            ktxt = ''.join(p.text for p in k if p.kind == 'lit').casefold()
                            for ni, pc in enumerate(p for p in v if p.kind == 'ip' and p.cls == 'Num'):
                                if pc.fmt is None:
                                    raise TranslateError(f'{fn}:{pc.line}: number {pc.field} without a recorded format')
                                numfields.append((fn, blk, ktxt, ni, pc.fmt if isinstance(pc.fmt, list) else tuple(pc.fmt), pc.field))
                            if all(p.kind == 'lit' for p in k):
                                written.append((fn, blk, ''.join(p.text for p in k).casefold(), False))
                            elif k and k[0].kind == 'lit' and all(p.kind == 'lit' or p.cls == 'Num' for p in k):
                                written.append((fn, blk, k[0].text.casefold(), True))          # e.g. row{y}, replace{id:02}
                            elif all(p.kind != 'lit' for p in k):
                                written.append((fn, blk, '', True))                            # fully dynamic key
                            else:
                                raise TranslateError(f'{fn}: key shape {k}')
            elif ev[0] == 'call':
                _, fs, lit, lit2, ln = ev
                for callee in CALLS[(fn, fs)]:
                    ps: tuple = ()
                    if callee == 'Side._export_disp_rowset':
                        if lit is None:
                            raise TranslateError(f'{fn}:{ln}: _export_disp_rowset needs a literal array name')
                        ps = (('name', lit),)
                    if callee in ('Strata2DViewport.export', 'Strata3DViewport.export'):
                        # `for name, view in zip(('v0', ...), ...)`: the titles are the literal tuple
                        for t in VIEW_TITLES[0]:
                            run(callee, tuple(owners()), (('title', t),))
                    else:
                        run(callee, tuple(owners()), ps)
        if len(stack) != 1 or if_marks:
            raise TranslateError(f'{fn}: blocks left open at the end of the method: {stack[1:]}')

    run('VMF.export', ('<file>',), ())
    for fn in EXPORT_FUNCS:
        if fn not in reached:
            raise TranslateError(f'export method {fn} is not reached from VMF.export')
    # de-duplicate sites (methods are run once per context)
    uniq: dict[tuple, Site] = {}
    for s in sites:
        uniq.setdefault((s.fn, s.line, repr(s.key), repr(s.val)), s)
    wr = sorted(set(written))
    nf: dict[tuple, tuple] = {}
    for rec in numfields:
        nf.setdefault((rec[0], rec[1], rec[2], rec[3], repr(rec[4])), rec)
    return list(uniq.values()), wr, {'n_sites': len(uniq), 'n_written': len(wr), 'numfields': list(nf.values())}


VIEW_TITLES: list[list[str]] = [[]]


def find_view_titles(fn: ast.FunctionDef) -> list[str]:
    for n in ast.walk(fn):
        if isinstance(n, ast.For) and ast.unparse(n.target) == '(name, view)':
            it = n.iter
            if isinstance(it, ast.Call) and ast.unparse(it.func) == 'zip' and isinstance(it.args[0], ast.Tuple) \
                    and all(isinstance(e, ast.Constant) and isinstance(e.value, str) for e in it.args[0].elts):
                return [e.value for e in it.args[0].elts]
    raise TranslateError('VMF.export: viewport title loop not recognised')


# ---------------------------------------------------------------------------------------------- parse side
class ParseWalker:
    """Collect (block, key, is_prefix) reads of one parse function."""

    def __init__(self, fn: str, node: ast.FunctionDef, roots: dict[str, str], consts: dict[str, list[str]]) -> None:
        self.fn = fn
        self.env: dict[str, Any] = dict(roots)          # var -> block name | ('child', block)
        self.alias: dict[str, str] = {}                 # name-variable -> tree variable
        self.litvars: dict[str, list[str]] = {}         # loop variables ranging over literal strings
        self.consts = consts
        self.reads: list[tuple[str, str, bool]] = []
        self.body(node.body)

    # -- helpers
    def blk(self, var: str) -> str:
        b = self.env[var]
        return b if isinstance(b, str) else b[1]

    def is_block(self, var: str) -> bool:
        b = self.env[var]
        return isinstance(b, str) or b[0] == 'multi'

    def blocks(self, var: str) -> list[str]:
        b = self.env[var]
        return [b] if isinstance(b, str) else list(b[1]) if b[0] == 'multi' else [b[1]]

    def q(self, name: str, parent: str) -> str:
        name = name.casefold()
        return f'editor@{parent}' if name == 'editor' else name

    def read(self, block: str, key: str, prefix: bool = False) -> None:
        self.reads.append((block, key.casefold(), prefix))

    def lits(self, e: ast.AST, ln: int) -> list[str]:
        if isinstance(e, ast.Constant) and isinstance(e.value, str):
            return [e.value]
        if isinstance(e, ast.Name) and e.id in self.litvars:
            return self.litvars[e.id]
        raise TranslateError(f'{self.fn}:{ln}: key expression {ast.unparse(e)} is not a literal')

    # -- statements
    def body(self, stmts: list[ast.stmt]) -> None:
        for s in stmts:
            self.stmt(s)

    def stmt(self, s: ast.stmt) -> None:
        if isinstance(s, ast.For):
            self.for_(s)
        elif isinstance(s, ast.If):
            self.expr(s.test)
            narrowed = self.narrow(s.test)
            saved = dict(self.env)
            if narrowed:
                self.env[narrowed[0]] = narrowed[1]
            self.body(s.body)
            self.env = saved
            self.body(s.orelse)
        elif isinstance(s, ast.Try):
            self.body(s.body)
            for h in s.handlers:
                self.body(h.body)
            self.body(s.orelse)
            self.body(s.finalbody)
        elif isinstance(s, ast.With):
            self.body(s.body)
        elif isinstance(s, (ast.Assign, ast.AnnAssign)):
            val = s.value
            tgts = s.targets if isinstance(s, ast.Assign) else [s.target]
            for t_ in tgts:
                self.expr(t_)
            if val is not None:
                self.expr(val)
                if len(tgts) == 1 and isinstance(tgts[0], ast.Name):
                    t = tgts[0].id
                    b = self.tree_of(val)
                    if b is not None:
                        self.env[t] = b
                    elif isinstance(val, ast.Attribute) and val.attr == 'name' and isinstance(val.value, ast.Name) \
                            and val.value.id in self.env:
                        self.alias[t] = val.value.id
                    elif t in self.env:
                        del self.env[t]
        elif isinstance(s, (ast.Expr, ast.Return, ast.Raise, ast.Assert, ast.AugAssign)):
            for ch in ast.iter_child_nodes(s):
                if isinstance(ch, ast.expr):
                    self.expr(ch)
        elif isinstance(s, (ast.Pass, ast.Continue, ast.Break, ast.FunctionDef)):
            pass
        else:
            raise TranslateError(f'{self.fn}:{s.lineno}: statement {type(s).__name__} in a parse method')

    def narrow(self, test: ast.AST):
        """`name == "lit"` / `V.name == "lit"`: inside the branch V denotes the block `lit`."""
        if isinstance(test, ast.Compare) and len(test.ops) == 1 and isinstance(test.ops[0], ast.Eq) \
                and isinstance(test.comparators[0], ast.Constant) and isinstance(test.comparators[0].value, str):
            v = self.namevar(test.left)
            if v is not None and not isinstance(self.env[v], str):
                return v, self.q(test.comparators[0].value, self.env[v][1])
        return None

    def namevar(self, e: ast.AST) -> str | None:
        if isinstance(e, ast.Name) and e.id in self.alias and self.alias[e.id] in self.env:
            return self.alias[e.id]
        if isinstance(e, ast.Attribute) and e.attr == 'name' and isinstance(e.value, ast.Name) and e.value.id in self.env:
            return e.value.id
        return None

    def tree_of(self, e: ast.AST):
        """Block denoted by an expression that yields a Keyvalues block."""
        if isinstance(e, ast.Call) and isinstance(e.func, ast.Attribute) and isinstance(e.func.value, ast.Name) \
                and e.func.value.id in self.env and e.func.attr in ('find_key', 'find_block'):
            parent = self.blk(e.func.value.id)
            names = self.lits(e.args[0], e.lineno)
            return self.q(names[0], parent) if len(names) == 1 else ('multi', [self.q(n, parent) for n in names])
        return None

    def for_(self, s: ast.For) -> None:
        it = s.iter
        ln = s.lineno
        # loops over literal tuples/lists of strings (viewport names, multiblend names)
        if isinstance(it, (ast.List, ast.Tuple)) and it.elts and all(isinstance(e, ast.Tuple) for e in it.elts):
            firsts = [e.elts[0] for e in it.elts]     # type: ignore[attr-defined]
            if all(isinstance(f, ast.Constant) and isinstance(f.value, str) for f in firsts) and isinstance(s.target, ast.Tuple) \
                    and isinstance(s.target.elts[0], ast.Name):
                self.litvars[s.target.elts[0].id] = [f.value for f in firsts]     # type: ignore[attr-defined]
                self.body(s.body)
                return
        if isinstance(it, ast.Name) and it.id in self.consts and isinstance(s.target, ast.Tuple) and isinstance(s.target.elts[0], ast.Name):
            self.litvars[s.target.elts[0].id] = self.consts[it.id]
            self.body(s.body)
            return
        tgt = s.target
        if isinstance(it, ast.Name) and it.id in self.env and isinstance(tgt, ast.Name):
            b = self.env[it.id]
            if not isinstance(b, str):
                raise TranslateError(f'{self.fn}:{ln}: iterating a child of unknown name')
            self.env[tgt.id] = ('child', b)
            self.body(s.body)
            return
        if isinstance(it, ast.Call) and isinstance(it.func, ast.Attribute) and isinstance(it.func.value, ast.Name) \
                and it.func.value.id in self.env and isinstance(tgt, ast.Name):
            parent = self.blk(it.func.value.id)
            if it.func.attr == 'find_all':
                cur = parent
                for a in it.args:
                    (n,) = self.lits(a, ln)
                    self.read(cur, n)
                    cur = self.q(n, cur)
                self.env[tgt.id] = cur
                self.body(s.body)
                return
            if it.func.attr == 'find_children':
                cur = parent
                for a in it.args:
                    names = self.lits(a, ln) if not (isinstance(a, ast.Name) and a.id == 'name' and self.fn == 'Side._iter_disp_row') else ['<array>']
                    (n,) = names
                    self.read(cur, n)
                    cur = self.q(n, cur)
                self.env[tgt.id] = ('child', cur)
                self.body(s.body)
                return
        # other loops (enumerate(row), range(...), self._iter_disp_row(...), ...)
        self.expr(it)
        self.body(s.body)

    # -- expressions
    def expr(self, e: ast.AST) -> None:
        for n in ast.walk(e):
            ln = getattr(n, 'lineno', 0)
            if isinstance(n, ast.Subscript) and isinstance(n.value, ast.Name) and n.value.id in self.env \
                    and self.is_block(n.value.id):
                sl = n.slice
                k = sl.elts[0] if isinstance(sl, ast.Tuple) else sl
                for name in self.lits(k, ln):
                    for b in self.blocks(n.value.id):
                        self.read(b, name)
            elif isinstance(n, ast.Call) and isinstance(n.func, ast.Attribute) and isinstance(n.func.value, ast.Name) \
                    and n.func.value.id in self.env:
                var, meth = n.func.value.id, n.func.attr
                if meth in KV_READ_METHODS or meth in ('find_key', 'find_block'):
                    if not self.is_block(var):
                        raise TranslateError(f'{self.fn}:{ln}: lookup on a child of unknown name')
                    for name in self.lits(n.args[0], ln):
                        for b in self.blocks(var):
                            self.read(b, name)
                elif meth in ('find_all', 'find_children'):
                    # as a `for` iterable this is handled (with variable binding) by for_; inside a comprehension only the
                    # lookup itself is recorded
                    if not (meth == 'find_children' and self.fn == 'Side._iter_disp_row'):
                        cur = self.blk(var)
                        for a_ in n.args:
                            (nm,) = self.lits(a_, ln)
                            self.read(cur, nm)
                            cur = self.q(nm, cur)
                elif meth in ('has_children',):
                    pass
                else:
                    raise TranslateError(f'{self.fn}:{ln}: unknown Keyvalues method .{meth}() on {var}')
            elif isinstance(n, ast.Compare):
                # 'lit' in X / not in X ; V.name ==/!= 'lit'
                if len(n.ops) == 1 and isinstance(n.ops[0], (ast.In, ast.NotIn)) and isinstance(n.comparators[0], ast.Name) \
                        and n.comparators[0].id in self.env and isinstance(n.left, ast.Constant) and isinstance(n.left.value, str):
                    self.read(self.blk(n.comparators[0].id), n.left.value)
                elif len(n.ops) == 1 and isinstance(n.ops[0], (ast.Eq, ast.NotEq)):
                    v = self.namevar(n.left)
                    if v is not None:
                        c = n.comparators[0]
                        if not (isinstance(c, ast.Constant) and isinstance(c.value, str)):
                            raise TranslateError(f'{self.fn}:{ln}: name compared with a non-literal')
                        b = self.env[v]
                        if isinstance(b, str):
                            # narrowed variable compared again: it is a key of the narrowed block's parent; ignore
                            continue
                        self.read(b[1], c.value)
            elif isinstance(n, ast.Call) and isinstance(n.func, ast.Attribute) and n.func.attr == 'startswith':
                v = self.namevar(n.func.value)
                if v is not None:
                    (p,) = self.lits(n.args[0], ln)
                    b = self.env[v]
                    self.read(b if isinstance(b, str) else b[1], p, True)
            elif isinstance(n, ast.Attribute) and n.attr == 'real_name' and isinstance(n.value, ast.Name) and n.value.id in self.env:
                b = self.env[n.value.id]
                if not isinstance(b, str):
                    self.read(b[1], '', True)           # any key is taken (entity keyvalues, output names)
            elif isinstance(n, ast.Call):
                # a child of unknown name handed to another parser: wildcard read of the parent block
                f = ast.unparse(n.func)
                for a in n.args:
                    if isinstance(a, ast.Name) and a.id in self.env and not isinstance(self.env[a.id], str) \
                            and f.endswith('.parse'):
                        self.read(self.env[a.id][1], '', True)
                if f in ('self._parse_disp_vecrow', 'self._iter_disp_row') and n.args and isinstance(n.args[0], ast.Name) \
                        and n.args[0].id in self.env:
                    for name in self.lits(n.args[1], ln):
                        self.read(self.blk(n.args[0].id), name)
                        self.read(name.casefold(), ROW_PREFIX[0].casefold(), True)
                        ARRAY_READS.append((self.fn, name, ast.unparse(n.args[2]) if f == 'self._iter_disp_row' else '<vecrow>', ln))


ARRAY_READS: list[tuple[str, str, str, int]] = []
ROW_PREFIX: list[str] = ['row']


def _regex_rowreader(pat: str, where: str) -> tuple[str, int, int, int | None]:
    """prefix + one group of digits: prefix(\\d+) prefix([0-9]) prefix([0-9]{1,2}) ... -> (prefix, skip, min, max)."""
    m = re.fullmatch(r'([A-Za-z_]*)\((\\d|\[0-9\])(\+|\*|\{(\d+)(,(\d*))?\})?\)', pat)
    if not m:
        raise TranslateError(f'{where}: row key pattern {pat!r} not recognised')
    prefix, quant = m.group(1), m.group(3)
    if quant is None:
        lo, hi = 1, 1
    elif quant == '+':
        lo, hi = 1, None
    elif quant == '*':
        lo, hi = 0, None
    else:
        lo = int(m.group(4))
        hi = lo if m.group(5) is None else (int(m.group(6)) if m.group(6) else None)
    return prefix, len(prefix), lo, hi


def _table_row_reader(loop: ast.For, nm: str, tree: ast.Module) -> tuple[str, int, int, int | None, str, int | None] | None:
    """Form 3 (round 5): the row index is looked up in a precomputed module-level table,  y = TABLE[name]  (unknown keys raise
    KeyError and are skipped) or  y = TABLE.get(name).  The table is read from the imported module (whatever way it is built):
    it must map  prefix + str(y)  to y for exactly the y below some bound B; the reader then knows the rows 0..B-1."""
    cand: list[str] = []
    for n in ast.walk(loop):
        if isinstance(n, ast.Assign) and ast.unparse(n.targets[0]) == 'y':
            v = n.value
            if isinstance(v, ast.Subscript) and isinstance(v.value, ast.Name) and ast.unparse(v.slice) == nm:
                cand.append(v.value.id)
            elif isinstance(v, ast.Call) and isinstance(v.func, ast.Attribute) and v.func.attr == 'get' and isinstance(v.func.value, ast.Name) \
                    and v.args and ast.unparse(v.args[0]) == nm:
                cand.append(v.func.value.id)
    if not cand:
        return None
    if len(cand) != 1:
        raise TranslateError(f'Side._iter_disp_row: row index looked up in more than one table: {cand}')
    if not any(isinstance(n, (ast.Continue, ast.Raise)) for n in ast.walk(loop)):
        raise TranslateError('Side._iter_disp_row: table form: unknown keys must be skipped or refused')
    if not any((isinstance(n, ast.Assign) and any(ast.unparse(t) == cand[0] for t in n.targets)) or
               (isinstance(n, ast.AnnAssign) and ast.unparse(n.target) == cand[0]) for n in tree.body):
        raise TranslateError(f'Side._iter_disp_row: table {cand[0]} is not a module-level name')
    try:
        import importlib
        mod = importlib.import_module('srctools.vmf')
        tbl = dict(getattr(mod, cand[0]))
    except Exception as e:       # noqa: BLE001
        raise TranslateError(f'Side._iter_disp_row: table {cand[0]} cannot be read from the imported module: {e!r}')
    if not tbl or not all(isinstance(k, str) and isinstance(v, int) and not isinstance(v, bool) for k, v in tbl.items()):
        raise TranslateError(f'Side._iter_disp_row: table {cand[0]} is not a non-empty str -> int mapping')
    some_key, some_val = next(iter(tbl.items()))
    if not some_key.endswith(str(some_val)):
        raise TranslateError(f'Side._iter_disp_row: table {cand[0]}: key {some_key!r} does not end in its index {some_val}')
    prefix = some_key[:len(some_key) - len(str(some_val))]
    bound = len(tbl)
    if sorted(tbl.values()) != list(range(bound)) or any(k != prefix + str(v) for k, v in tbl.items()):
        raise TranslateError(f'Side._iter_disp_row: table {cand[0]} is not {{prefix + str(y): y for y in range(B)}}')
    return prefix, len(prefix), 1, None, 'table', bound


def row_reader(funcs: dict[str, ast.FunctionDef], tree: ast.Module) -> tuple[str, int, int, int | None, str, int | None]:
    """How Side._iter_disp_row recognises a row key and computes the row index."""
    fn = funcs.get('Side._iter_disp_row')
    if fn is None:
        raise TranslateError('Side._iter_disp_row not found')
    loops = [n for n in fn.body if isinstance(n, ast.For)]
    if len(loops) != 1 or not isinstance(loops[0].target, ast.Name):
        raise TranslateError('Side._iter_disp_row: a single loop over the rows is expected')
    var = loops[0].target.id
    nm = f'{var}.name'
    body = loops[0].body
    tbl = _table_row_reader(loops[0], nm, tree)
    if tbl is not None:
        return tbl
    y_assign = [n for n in ast.walk(loops[0]) if isinstance(n, ast.Assign) and ast.unparse(n.targets[0]) == 'y']
    if len(y_assign) != 1:
        raise TranslateError('Side._iter_disp_row: a single assignment of the row index y is expected')
    yv = y_assign[0].value
    if not (isinstance(yv, ast.Call) and ast.unparse(yv.func) == 'int' and len(yv.args) == 1 and not yv.keywords):
        raise TranslateError(f'Side._iter_disp_row: row index is not int(...): {ast.unparse(yv)}')
    arg = yv.args[0]
    first = body[0]
    # form 1: if name.startswith(P): y = int(name[K:]) else: continue
    if isinstance(first, ast.If) and isinstance(first.test, ast.Call) and ast.unparse(first.test.func) == f'{nm}.startswith' \
            and len(first.test.args) == 1 and isinstance(first.test.args[0], ast.Constant) and isinstance(first.test.args[0].value, str):
        prefix = first.test.args[0].value
        if y_assign[0] not in first.body or not (len(first.orelse) == 1 and isinstance(first.orelse[0], ast.Continue)):
            raise TranslateError('Side._iter_disp_row: startswith form: index must be computed in the branch, other keys skipped')
        m = re.fullmatch(re.escape(nm) + r'\[(\d+):\]', ast.unparse(arg))
        if not m:
            raise TranslateError(f'Side._iter_disp_row: index expression {ast.unparse(arg)}')
        return prefix, int(m.group(1)), 1, None, 'startswith', None
    # form 2: match = <re>.fullmatch(name) / re.fullmatch(pat, name); if match is None: continue; y = int(match.group(1))
    if isinstance(first, ast.Assign) and isinstance(first.value, ast.Call) and len(first.targets) == 1 and isinstance(first.targets[0], ast.Name):
        mv = first.targets[0].id
        call = first.value
        f = ast.unparse(call.func)
        pat = None
        if f == 're.fullmatch' and len(call.args) == 2 and ast.unparse(call.args[1]) == nm and isinstance(call.args[0], ast.Constant):
            pat = call.args[0].value
        elif f.endswith('.fullmatch') and len(call.args) == 1 and ast.unparse(call.args[0]) == nm:
            cname = f[:-len('.fullmatch')]
            for n in tree.body:
                tg = n.targets[0] if isinstance(n, ast.Assign) else n.target if isinstance(n, ast.AnnAssign) else None
                if tg is not None and ast.unparse(tg) == cname and isinstance(n.value, ast.Call) and ast.unparse(n.value.func) == 're.compile' \
                        and len(n.value.args) == 1 and isinstance(n.value.args[0], ast.Constant):
                    pat = n.value.args[0].value
        if not isinstance(pat, str):
            raise TranslateError(f'Side._iter_disp_row: key test {ast.unparse(call)} is not a fullmatch of a literal pattern')
        guard = body[1] if len(body) > 1 else None
        if not (isinstance(guard, ast.If) and ast.unparse(guard.test) in (f'{mv} is None', f'not {mv}') and len(guard.body) == 1
                and isinstance(guard.body[0], ast.Continue) and not guard.orelse):
            raise TranslateError('Side._iter_disp_row: regex form: `if match is None: continue` expected')
        if ast.unparse(arg) != f'{mv}.group(1)':
            raise TranslateError(f'Side._iter_disp_row: index expression {ast.unparse(arg)}')
        p, k, lo, hi = _regex_rowreader(pat, 'Side._iter_disp_row')
        return p, k, lo, hi, 'regex', None
    raise TranslateError('Side._iter_disp_row: the way row keys are recognised is not one of the known forms')


def parse_reads(funcs: dict[str, ast.FunctionDef], tree: ast.Module) -> tuple[list[tuple[str, str, bool]], dict]:
    consts: dict[str, list[str]] = {}
    for n in tree.body:
        # _disprow_multiblend = [(f'multiblend_color_{i}', ...) for i in range(4)]
        if isinstance(n, ast.Assign) and ast.unparse(n.targets[0]) == '_disprow_multiblend':
            v = n.value
            ok = isinstance(v, ast.ListComp) and isinstance(v.elt, ast.Tuple) and isinstance(v.elt.elts[0], ast.JoinedStr) \
                and len(v.generators) == 1 and re.fullmatch(r'range\(\d+\)', ast.unparse(v.generators[0].iter))
            if not ok:
                raise TranslateError('_disprow_multiblend: shape not recognised')
            k = int(re.fullmatch(r'range\((\d+)\)', ast.unparse(v.generators[0].iter)).group(1))     # type: ignore[union-attr]
            js = v.elt.elts[0]       # type: ignore[union-attr]
            var = ast.unparse(v.generators[0].target)   # type: ignore[union-attr]
            names = []
            for i in range(k):
                s = ''
                for part in js.values:
                    if isinstance(part, ast.Constant):
                        s += str(part.value)
                    elif isinstance(part, ast.FormattedValue) and ast.unparse(part.value) == var:
                        s += str(i)
                    else:
                        raise TranslateError('_disprow_multiblend: name template not recognised')
                names.append(s)
            consts['_disprow_multiblend'] = names
    if '_disprow_multiblend' not in consts:
        raise TranslateError('_disprow_multiblend not found')
    reads: list[tuple[str, str, bool]] = []
    del ARRAY_READS[:]
    ROW_PREFIX[0] = row_reader(funcs, tree)[0]
    side = {}
    for fn, roots in PARSE_ROOTS.items():
        if fn not in funcs:
            raise TranslateError(f'parse method {fn} not found')
        w = ParseWalker(fn, funcs[fn], roots, consts)
        reads += w.reads
        side[fn] = len(w.reads)
    # the generic row reader must look rows up by a key prefix under the array's name (how exactly -- startswith + int of
    # the rest, or a regular expression -- is read by row_reader and judged by the obligations disp_row_keys_read:*)
    w = ParseWalker('Side._iter_disp_row', funcs['Side._iter_disp_row'], {'tree': '<arrayparent>'}, consts)
    if not any(b == '<array>' for b, _, _ in w.reads) and not any(
            isinstance(n, ast.Call) and ast.unparse(n.func) == 'tree.find_children' for n in ast.walk(funcs['Side._iter_disp_row'])):
        raise TranslateError('Side._iter_disp_row: row lookup not recognised')
    vr = funcs['Side._parse_disp_vecrow']
    if not any(isinstance(n, ast.Call) and ast.unparse(n.func) == 'self._iter_disp_row' and ast.unparse(n.args[1]) == 'name'
               for n in ast.walk(vr)):
        raise TranslateError('Side._parse_disp_vecrow: does not read through _iter_disp_row(tree, name, ...)')
    return sorted(set(reads)), side


# ---------------------------------------------------------------------------------------------- displacement shapes
def arith(e: ast.AST, env: dict[str, str], fn: str) -> str:
    """A Python int expression over size/power/y as a Coq Z expression."""
    if isinstance(e, ast.Constant) and isinstance(e.value, int) and not isinstance(e.value, bool):
        return f'{e.value}'
    if isinstance(e, ast.Name) and e.id in env:
        return env[e.id]
    if isinstance(e, ast.Attribute) and ast.unparse(e) in env:
        return env[ast.unparse(e)]
    if isinstance(e, ast.BinOp):
        op = {ast.Add: '+', ast.Sub: '-', ast.Mult: '*', ast.Pow: '^'}.get(type(e.op))
        if op is None:
            raise TranslateError(f'{fn}: operator {type(e.op).__name__} in a size expression')
        return f'({arith(e.left, env, fn)} {op} {arith(e.right, env, fn)})'
    raise TranslateError(f'{fn}:{getattr(e, "lineno", 0)}: size expression {ast.unparse(e)} not recognised')


def disp_shapes(funcs: dict[str, ast.FunctionDef]) -> tuple[list[dict], str, dict]:
    """Writer and reader shapes of every displacement array."""
    # Side.disp_size: `return 2 ** self.disp_power + 1`
    ds = funcs['Side.disp_size']
    rets = sorted((n for n in ast.walk(ds) if isinstance(n, ast.Return) and n.value is not None), key=lambda n: n.lineno)
    if len(rets) != 2 or ast.unparse(rets[0].value) != '0':
        raise TranslateError('Side.disp_size: shape not recognised')
    size_expr = arith(rets[1].value, {'self.disp_power': 'power'}, 'Side.disp_size')
    wenv = {'size': 'size', 'y': 'y'}
    arrays: dict[str, dict] = {}
    # --- generic rowset writer
    rs = funcs['Side._export_disp_rowset']
    loops = [n for n in ast.walk(rs) if isinstance(n, ast.For)]
    if len(loops) != 1 or ast.unparse(loops[0].target) != 'y':
        raise TranslateError('_export_disp_rowset: row loop not recognised')
    m = re.fullmatch(r'range\((.+)\)', ast.unparse(loops[0].iter))
    if not m:
        raise TranslateError('_export_disp_rowset: row loop range')
    rs_rows = arith(ast.parse(m.group(1), mode='eval').body, wenv, '_export_disp_rowset')
    sl = [n for n in ast.walk(loops[0]) if isinstance(n, ast.Subscript) and ast.unparse(n.value) == 'rows']
    if len(sl) != 1 or not isinstance(sl[0].slice, ast.Slice):
        raise TranslateError('_export_disp_rowset: row slice not recognised')
    rs_lo, rs_hi = arith(sl[0].slice.lower, wenv, 'rowset'), arith(sl[0].slice.upper, wenv, 'rowset')
    rows_def = [n for n in ast.walk(rs) if isinstance(n, ast.Assign) and ast.unparse(n.targets[0]) == 'rows']
    if len(rows_def) != 1 or ast.unparse(rows_def[0].value) != '[str(getattr(vert, membr)) for vert in self._disp_verts]':
        raise TranslateError('_export_disp_rowset: element expression not recognised')
    ed = funcs['Side._export_displacement']
    for n in ast.walk(ed):
        if isinstance(n, ast.Call) and ast.unparse(n.func) == 'self._export_disp_rowset':
            a = n.args
            if not (isinstance(a[0], ast.Constant) and isinstance(a[1], ast.Constant) and ast.unparse(a[4]) == 'size'):
                raise TranslateError('_export_displacement: rowset call shape')
            if a[1].value not in MEMBER_ARITY:
                raise TranslateError(f'_export_displacement: unknown vertex member {a[1].value}')
            arrays[a[0].value] = {'w_rows': rs_rows, 'w_lo': rs_lo, 'w_hi': rs_hi, 'w_arity': [MEMBER_ARITY[a[1].value]],
                                  'member': a[1].value, 'line': n.lineno,
                                  'fmts': str_formats('Side._export_disp_rowset', MEMBER_KINDS[a[1].value], n.lineno)}
    # --- inline writers: triangle_tags and multiblend_color_{i}
    def inline(loop: ast.For, name: str) -> None:
        mm = re.fullmatch(r'range\((.+)\)', ast.unparse(loop.iter))
        if not mm or ast.unparse(loop.target) != 'y':
            raise TranslateError(f'_export_displacement: row loop of {name}')
        rows = arith(ast.parse(mm.group(1), mode='eval').body, wenv, name)
        asg = [s for s in loop.body if isinstance(s, ast.Assign) and ast.unparse(s.targets[0]) == 'row']
        if len(asg) != 1 or not isinstance(asg[0].value, ast.ListComp):
            raise TranslateError(f'_export_displacement: row of {name} is not a list comprehension')
        lc = asg[0].value
        gen = lc.generators[0]
        if not (isinstance(gen.iter, ast.Subscript) and ast.unparse(gen.iter.value) == 'self._disp_verts'
                and isinstance(gen.iter.slice, ast.Slice) and not gen.ifs):
            raise TranslateError(f'_export_displacement: vertex slice of {name}')
        lo, hi = arith(gen.iter.slice.lower, wenv, name), arith(gen.iter.slice.upper, wenv, name)
        elt = lc.elt
        ar: list[int] = []
        if isinstance(elt, ast.JoinedStr):
            # f'{a} {b}': numbers separated by single spaces
            lit = ''.join(str(v.value) if isinstance(v, ast.Constant) else '#' for v in elt.values)
            if not re.fullmatch(r'#( #)*', lit):
                raise TranslateError(f'_export_displacement: element template of {name}: {lit!r}')
            ar = [lit.count('#')]
            fmts = [f for v in elt.values if isinstance(v, ast.FormattedValue)
                    for f in num_formats('Side._export_displacement', v.value, v.format_spec, loop.lineno)]
        elif isinstance(elt, ast.IfExp):
            b, o = elt.body, elt.orelse
            if ast.unparse(b) != 'str(vert.multi_colors[i])' or not (isinstance(o, ast.Constant) and isinstance(o.value, str)):
                raise TranslateError(f'_export_displacement: element expression of {name}')
            ar = [MEMBER_ARITY['multi_colors[i]'], len(o.value.split())]
            if not all(re.fullmatch(r'-?\d+', w) for w in o.value.split()):
                raise TranslateError(f'_export_displacement: default element {o.value!r} of {name} is not made of integers')
            fmts = str_formats('Side._export_displacement', MEMBER_KINDS['multi_colors[i]'], loop.lineno)
        else:
            raise TranslateError(f'_export_displacement: element expression of {name}')
        arrays[name] = {'w_rows': rows, 'w_lo': lo, 'w_hi': hi, 'w_arity': ar, 'member': ast.unparse(elt)[:60], 'line': loop.lineno,
                        'fmts': fmts}
    # find the `for y in ...` loops that assign `row`
    def visit(stmts: list[ast.stmt], ctx_i: str | None) -> None:
        for s in stmts:
            if isinstance(s, ast.For) and ast.unparse(s.target) == 'y':
                # the block name was written just before: find it from the preceding write in the same body
                idx = stmts.index(s)
                nm = None
                for p in reversed(stmts[:idx]):
                    if isinstance(p, ast.Expr) and isinstance(p.value, ast.Call) and ast.unparse(p.value.func).endswith('.write'):
                        txt = ''.join(str(v.value) for v in ast.walk(p.value.args[0]) if isinstance(v, ast.Constant) and isinstance(v.value, str))
                        mm = re.search(r'([a-z_]+)\n', txt)
                        if mm:
                            nm = mm.group(1)
                        break
                if nm is None:
                    raise TranslateError('_export_displacement: array name before a row loop not found')
                if ctx_i is not None:
                    for k in range(int(ctx_i)):
                        inline(s, f'{nm}{k}')
                else:
                    inline(s, nm)
            elif isinstance(s, ast.For):
                mm = re.fullmatch(r'range\((\d+)\)', ast.unparse(s.iter))
                visit(s.body, mm.group(1) if (mm and ast.unparse(s.target) == 'i') else ctx_i)
            elif isinstance(s, ast.If):
                visit(s.body, ctx_i)
                visit(s.orelse, ctx_i)
    visit(ed.body, None)
    # --- readers
    pd = funcs['Side._parse_displacement_data']
    renv = {'size': 'size', 'disp_power': 'power'}
    for n in ast.walk(pd):
        if isinstance(n, ast.Assign) and isinstance(n.targets[0], ast.Name) and n.targets[0].id not in ('size',):
            try:
                renv[n.targets[0].id] = arith(n.value, renv, 'reader')
            except TranslateError:
                pass
    if ast.unparse([n for n in ast.walk(pd) if isinstance(n, ast.Assign) and ast.unparse(n.targets[0]) == 'size'][0].value) != 'self.disp_size':
        raise TranslateError('_parse_displacement_data: size is not self.disp_size')
    vr = funcs['Side._parse_disp_vecrow']
    vcall = [n for n in ast.walk(vr) if isinstance(n, ast.Call) and ast.unparse(n.func) == 'self._iter_disp_row']
    if len(vcall) != 1:
        raise TranslateError('_parse_disp_vecrow: shape')
    vec_cols = arith(vcall[0].args[2], {'size': 'size'}, 'vecrow')
    # the length test of the generic row reader
    ir = funcs['Side._iter_disp_row']
    if not any(isinstance(n, ast.Compare) and ast.unparse(n) == 'len(split) != size' for n in ast.walk(ir)):
        raise TranslateError('_iter_disp_row: length test `len(split) != size` not found')
    readers: dict[str, str] = {}
    for fn, name, ex, ln in ARRAY_READS:
        if fn != 'Side._parse_displacement_data':
            continue
        if ex == '<vecrow>':
            readers[name] = vec_cols
        else:
            readers[name] = arith(ast.parse(ex, mode='eval').body, renv, 'reader')
    out = []
    for name in sorted(set(arrays) | set(readers)):
        a = arrays.get(name)
        out.append({'name': name, 'written': a is not None, 'read': name in readers,
                    'w_rows': a['w_rows'] if a else '0', 'w_lo': a['w_lo'] if a else '0', 'w_hi': a['w_hi'] if a else '0',
                    'w_arity': a['w_arity'] if a else [], 'r_cols': readers.get(name, '0'),
                    'member': a['member'] if a else '', 'line': a['line'] if a else 0, 'fmts': a['fmts'] if a else []})
        if a and any(x != len(a['fmts']) for x in a['w_arity'][:1]):
            raise TranslateError(f'displacement array {name}: {a["w_arity"]} numbers per vertex by the arity table, {len(a["fmts"])} '
                                 f'by the __str__ method that writes them')
    return out, size_expr, {'arrays': {o['name']: {k: o[k] for k in ('w_rows', 'w_lo', 'w_hi', 'w_arity', 'r_cols')} for o in out}}


# ---------------------------------------------------------------------------------------------- ordering
def entity_loop_mode(fn: ast.FunctionDef) -> tuple[str, dict]:
    """How VMF.parse collects entities: 'InOrder' (one loop over the file's blocks) or 'TwoPass'."""
    loops = []
    for n in fn.body:
        if isinstance(n, ast.For):
            calls = [ast.unparse(c.func) for c in ast.walk(n) if isinstance(c, ast.Call)]
            if 'map_obj.add_ent' in calls:
                loops.append(n)
    desc = [ast.unparse(l.iter) for l in loops]
    if len(loops) == 1 and desc == ['tree']:
        names = sorted(c.comparators[0].value for c in ast.walk(loops[0]) if isinstance(c, ast.Compare)
                       and ast.unparse(c.left) == ast.unparse(loops[0].target) + '.name' and isinstance(c.comparators[0], ast.Constant))
        if names == ['entity', 'hidden']:
            return 'InOrder', {'loops': desc}
        raise TranslateError(f'VMF.parse: single entity loop tests {names}')
    if len(loops) == 2 and desc[0].casefold() == "tree.find_all('entity')" and desc[1] == "tree.find_all('hidden')":
        return 'TwoPass', {'loops': desc}
    raise TranslateError(f'VMF.parse: entity loops not recognised: {desc}')


def fixup_index_shape(funcs: dict[str, ast.FunctionDef]) -> tuple[int, int]:
    """(minimum width written by EntityFixup.export, number of trailing characters read by Entity.parse)."""
    w = None
    for n in ast.walk(funcs['EntityFixup.export']):
        if isinstance(n, ast.FormattedValue) and ast.unparse(n.value) == 'fixup.id':
            sp = ast.unparse(n.format_spec) if n.format_spec is not None else ''
            m = re.fullmatch(r"f'0(\d)'", sp)
            if not m:
                raise TranslateError(f'EntityFixup.export: index format {sp!r}')
            w = int(m.group(1))
    r = None
    for n in ast.walk(funcs['Entity.parse']):
        if isinstance(n, ast.Assign) and ast.unparse(n.targets[0]) == 'ind_str':
            m = re.fullmatch(r'name\[-(\d):\]', ast.unparse(n.value))
            if not m:
                raise TranslateError('Entity.parse: ind_str slice')
            r = int(m.group(1))
    if w is None or r is None:
        raise TranslateError('fixup index shape not found')
    return w, r


# ---------------------------------------------------------------------------------------------- emit
_CACHE: dict[str, Any] = {}


def analyse() -> dict:
    src = src_text('vmf.py')
    key = str(hash(src))
    if _CACHE.get('key') == key:
        return _CACHE['val']
    tree = ast.parse(src)
    funcs = _funcs(tree)
    VIEW_TITLES[0] = find_view_titles(funcs['VMF.export'])
    load_str_formats(funcs)
    SEP_NAMES.clear()
    if 'Output.as_keyvalue' in funcs:
        SEP_NAMES.update(sep_locals(funcs['Output.as_keyvalue']))
    LOCALS.clear()
    for fn in EXPORT_FUNCS:
        if fn in funcs:
            LOCALS[fn] = find_locals(fn, funcs[fn])
    sites, written, s1 = export_sites(funcs)
    reads, s2 = parse_reads(funcs, tree)
    arrays, size_expr, s3 = disp_shapes(funcs)
    by_name = {o['name']: o for o in arrays}
    numfields = []
    for fn, blk, key, idx, fmt, field in s1.pop('numfields'):
        if isinstance(fmt, tuple) and fmt and fmt[0] == 'rows':
            if blk not in by_name or not by_name[blk]['written']:
                raise TranslateError(f'{fn}: a row of numbers is written in block {blk}, which is not a known displacement array')
            fmt = by_name[blk]['fmts']
        numfields.append({'fn': fn, 'block': blk, 'key': key, 'idx': idx, 'fmts': [fmt_name(f) for f in fmt], 'field': field,
                          'raw': list(fmt)})
    mode, s4 = entity_loop_mode(funcs['VMF.parse'])
    fw, fr = fixup_index_shape(funcs)
    digests = {fn: ast_digest(funcs[fn]) for fn in EXPORT_FUNCS + list(PARSE_ROOTS) if fn in funcs}
    val = dict(sites=sites, written=written, reads=reads, arrays=arrays, size_expr=size_expr, mode=mode, fixup=(fw, fr), numfields=numfields,
               side=dict(export=s1, parse=s2, disp=s3, order=s4, digests=digests, view_titles=VIEW_TITLES[0]))
    _CACHE.update(key=key, val=val)
    return val


def _seg(p: Piece, fields: dict[str, int]) -> str:
    if p.kind == 'lit':
        return f'TLit {_coq_str(p.text)}'
    idx = fields.setdefault(p.field, len(fields))
    return f'TIp {p.cls} {idx}%N'


def gen_templates() -> tuple[str, dict]:
    a = analyse()
    fields: dict[str, int] = {}
    lines = ['(* GENERATED by translate/c06_vmf.py from src/srctools/vmf.py. Do not edit. *)',
             'From Coq Require Import NArith List String.', 'From SV Require Import Fmt.VmfText.', 'Import ListNotations.',
             'Open Scope string_scope.', '',
             '(* every written keyvalue line: writer method, enclosing block, source line, key segments, value segments *)',
             'Definition kv_sites : list kvsite := [']
    rows = []
    info = []
    for s in sorted(a['sites'], key=lambda s: (s.fn, s.line, s.block)):
        k = '[' + '; '.join(_seg(p, fields) for p in s.key) + ']'
        v = '[' + '; '.join(_seg(p, fields) for p in s.val) + ']'
        rows.append(f'  mk_site {_coq_name(s.fn)} {_coq_name(s.block)} {s.line}%N {k} {v}')
        info.append({'fn': s.fn, 'block': s.block, 'line': s.line, 'key': repr(s.key), 'val': repr(s.val)})
    lines.append(';\n'.join(rows))
    lines.append('].')
    lines.append('(* field index -> source expression *)')
    lines.append('Definition field_names : list (N * string) := [')
    lines.append(';\n'.join(f'  ({i}%N, {_coq_name(f)})' for f, i in sorted(fields.items(), key=lambda x: x[1])))
    lines.append('].')
    lines.append('Definition writer_methods : list string := [' + '; '.join(_coq_name(f) for f in EXPORT_FUNCS) + '].')
    lines.append('')
    side = dict(a['side'])
    side['sites'] = info
    side['raw_str_sites'] = [i for i in info if 'RawStr' in i['key'] or 'RawStr' in i['val']]
    return '\n'.join(lines), side


def gen_keys() -> tuple[str, dict]:
    a = analyse()
    lines = ['(* GENERATED by translate/c06_vmf.py from src/srctools/vmf.py. Do not edit. *)',
             'From Coq Require Import NArith List String Bool.', 'From SV Require Import Fmt.VmfText.', 'Import ListNotations.',
             'Open Scope string_scope.', '',
             '(* (writer method, block, key or key prefix (lower case), is_prefix) for every key and block name written *)',
             'Definition written_keys : list wkey := [',
             ';\n'.join(f'  mk_wkey {_coq_name(fn)} {_coq_name(b)} {_coq_name(k)} {"true" if p else "false"}' for fn, b, k, p in a['written']),
             '].',
             '(* (block, key or prefix (lower case), is_prefix) for every lookup made by the parse methods *)',
             'Definition read_keys : list rkey := [',
             ';\n'.join(f'  mk_rkey {_coq_name(b)} {_coq_name(k)} {"true" if p else "false"}' for b, k, p in a['reads']),
             '].', '']
    return '\n'.join(lines), {'written': [list(w) for w in a['written']], 'reads': [list(r) for r in a['reads']]}


def gen_disp() -> tuple[str, dict]:
    a = analyse()
    lines = ['(* GENERATED by translate/c06_vmf.py from src/srctools/vmf.py. Do not edit. *)',
             'From Coq Require Import ZArith List String.', 'From SV Require Import Fmt.VmfText.', 'Import ListNotations.',
             'Open Scope Z_scope.', '',
             '(* Side.disp_size *)',
             f'Definition gen_disp_size (power : Z) : Z := {a["size_expr"]}.',
             '(* writer: number of rows, vertex slice [lo, hi) of row y, numbers per vertex (all alternatives);',
             '   reader: required number of values per row *)',
             'Definition disp_arrays : list disp_array := [']
    rows = []
    for o in a['arrays']:
        ar = '[' + '; '.join(str(x) for x in o['w_arity']) + ']'
        rows.append(f'  mk_disp_array "{o["name"]}"%string {"true" if o["written"] else "false"} {"true" if o["read"] else "false"}\n'
                    f'    (fun size => {o["w_rows"]}) (fun size y => {o["w_lo"]}) (fun size y => {o["w_hi"]}) {ar}\n'
                    f'    (fun power size => {o["r_cols"]})')
    lines.append(';\n'.join(rows))
    lines.append('].')
    lines.append('')
    return '\n'.join(lines), a['side']['disp']


def gen_order() -> tuple[str, dict]:
    a = analyse()
    fw, fr = a['fixup']
    lines = ['(* GENERATED by translate/c06_vmf.py from src/srctools/vmf.py. Do not edit. *)',
             'From Coq Require Import NArith.', 'From SV Require Import Fmt.VmfText.', '',
             '(* shape of the entity loop(s) of VMF.parse *)',
             f'Definition gen_entity_parse_mode : parse_mode := {a["mode"]}.',
             '(* replaceNN: minimum number of digits written by EntityFixup.export, trailing characters read by Entity.parse *)',
             f'Definition gen_fixup_width_written : nat := {fw}.',
             f'Definition gen_fixup_chars_read : nat := {fr}.', '']
    return '\n'.join(lines), {'mode': a['mode'], 'fixup_width_written': fw, 'fixup_chars_read': fr, **a['side']['order']}


def _coq_fmt(f: Any) -> str:
    if f == 'I':
        return 'FmtInt'
    if f == 'B':
        return 'FmtFlag'
    if f == 'R':
        return 'FmtRepr'
    if isinstance(f, tuple) and f[0] in ('F', 'G') and isinstance(f[1], int) and 0 <= f[1] <= 30:
        return f'(Fmt{f[0]} {f[1]})'
    raise TranslateError(f'number format {f!r}')


def gen_numfmt() -> tuple[str, dict]:
    """Which formatter writes every number of every written keyvalue line."""
    a = analyse()
    lines = ['(* GENERATED by translate/c06_vmf.py from src/srctools/vmf.py and math.py. Do not edit. *)',
             'From Coq Require Import NArith List String.', 'From SV Require Import Fmt.VmfNum.', 'Import ListNotations.',
             'Open Scope string_scope.', '',
             '(* writer method, enclosing block, literal text of the key (lower case; "" for a dynamic key), index of the number within',
             '   the value, formats of its components (a Vec has three, a UVAxis five, a row of an array one vertex worth) *)',
             'Definition num_fields : list numfield := [']
    rows = []
    for f in sorted(a['numfields'], key=lambda f: (f['block'], f['key'], f['idx'], f['fn'])):
        rows.append(f'  mk_numfield {_coq_name(f["fn"])} {_coq_name(f["block"])} {_coq_name(f["key"])} {f["idx"]}%N '
                    f'[{"; ".join(_coq_fmt(x) for x in f["raw"])}]')
    lines.append(';\n'.join(rows))
    lines.append('].')
    lines.append(f'Definition gen_float_places : nat := {FLOAT_PLACES[0]}.')
    lines.append('')
    info = [{k: f[k] for k in ('fn', 'block', 'key', 'idx', 'fmts', 'field')} for f in a['numfields']]
    return '\n'.join(lines), {'fields': info, 'str_formats': {k: [fmt_name(x) for x in v] for k, v in STR_FMTS.items()},
                              'float_places': FLOAT_PLACES[0]}


GEN = {'VmfNumFmt_gen': gen_numfmt, 'VmfTemplates_gen': gen_templates, 'VmfKeys_gen': gen_keys, 'VmfDispSizes_gen': gen_disp, 'VmfOrder_gen': gen_order}
