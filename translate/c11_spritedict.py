"""C11 translator, part: the sprite dictionary of the detail-prop lump (Fmt/BspSpriteDict.v).

A sprite / shape detail prop stores eight numbers (two corners of the quad, two corners of the texture rectangle) not in its own
record but in a dictionary entry that the record refers to by index.
  writer `_lmp_write_detail_props`: `add_sprite(prop.A + prop.B + prop.C + prop.D)` (tuples concatenated; the width of each
      attribute comes from its annotation `tuple[float, float]`), later `for spr in sprites: <fmt>.pack(*spr)`;
  reader `_lmp_read_detail_props`: eight targets of `struct_read(<fmt>)`, regrouped into a tuple of tuples that is appended to the
      dictionary; later `(a, b, c, d) = detail_sprites[i]` and `Class(..., a, b, c, d, ...)`: the constructor position gives the
      attribute (attrs field order incl. inherited fields).
Generated: for every class that is written through the dictionary the attribute component that travels in each of the slots, on
both sides.  Fail-closed: any other shape -> TranslateError.
"""
from __future__ import annotations

import ast
from typing import Any

from harness.common import TranslateError
from translate.c11_dedup import Classes


def _fn(tree: ast.AST, name: str) -> ast.FunctionDef:
    for n in ast.walk(tree):
        if isinstance(n, ast.FunctionDef) and n.name == name:
            return n
    raise TranslateError(f'{name} not found')


def _tuple_width(ann: str, where: str) -> int:
    try:
        e = ast.parse(ann, mode='eval').body
    except SyntaxError:
        raise TranslateError(f'{where}: annotation {ann!r} not parsed') from None
    if isinstance(e, ast.Subscript) and ast.unparse(e.value) in ('tuple', 'Tuple') and isinstance(e.slice, ast.Tuple) \
            and not any(isinstance(x, ast.Constant) and x.value is Ellipsis for x in e.slice.elts):
        return len(e.slice.elts)
    raise TranslateError(f'{where}: annotation {ann!r} is not a tuple of fixed width')


def _flatten_add(e: ast.AST) -> list[ast.AST]:
    if isinstance(e, ast.BinOp) and isinstance(e.op, ast.Add):
        return _flatten_add(e.left) + _flatten_add(e.right)
    return [e]


def writer(fn: ast.FunctionDef, cls: Classes) -> tuple[dict[str, list[str]], str]:
    w = 'writer _lmp_write_detail_props'
    adders = {}
    for n in ast.walk(fn):
        if isinstance(n, ast.Assign) and len(n.targets) == 1 and isinstance(n.targets[0], ast.Name) and isinstance(n.value, ast.Call) \
                and ast.unparse(n.value.func) == 'find_or_insert' and n.value.args and isinstance(n.value.args[0], ast.Name):
            adders[n.targets[0].id] = n.value.args[0].id
    # the table that is written with a starred pack: `for spr in T: ... pack(*spr)`
    table = fmt = None
    local_structs = {n.targets[0].id: n.value.args[0].value for n in ast.walk(fn)
                     if isinstance(n, ast.Assign) and len(n.targets) == 1 and isinstance(n.targets[0], ast.Name) and isinstance(n.value, ast.Call)
                     and ast.unparse(n.value.func) in ('struct.Struct', 'Struct') and len(n.value.args) == 1 and isinstance(n.value.args[0], ast.Constant)}
    for lp in ast.walk(fn):
        if isinstance(lp, ast.For) and isinstance(lp.target, ast.Name) and isinstance(lp.iter, ast.Name) and lp.iter.id in adders.values():
            for c in ast.walk(lp):
                if isinstance(c, ast.Call) and any(isinstance(a, ast.Starred) and isinstance(a.value, ast.Name) and a.value.id == lp.target.id for a in c.args):
                    f = ast.unparse(c.func)
                    if f == 'struct.pack' and isinstance(c.args[0], ast.Constant) and len(c.args) == 2:
                        table, fmt = lp.iter.id, c.args[0].value
                    elif isinstance(c.func, ast.Attribute) and c.func.attr == 'pack' and isinstance(c.func.value, ast.Name) \
                            and c.func.value.id in local_structs and len(c.args) == 1:
                        table, fmt = lp.iter.id, local_structs[c.func.value.id]
                    else:
                        raise TranslateError(f'{w}: line {c.lineno}: the dictionary entry is not packed with a literal format')
    if table is None or not isinstance(fmt, str):
        raise TranslateError(f'{w}: no loop packs the entries of a dictionary with `*entry`')
    add = [a for a, t in adders.items() if t == table]
    out: dict[str, list[str]] = {}
    for n in ast.walk(fn):
        if isinstance(n, ast.If):
            t = n.test
            if isinstance(t, ast.Call) and ast.unparse(t.func) == 'isinstance' and len(t.args) == 2 and isinstance(t.args[1], ast.Name):
                c = t.args[1].id
                calls = [x for st in n.body for x in ast.walk(st) if isinstance(x, ast.Call) and isinstance(x.func, ast.Name) and x.func.id in add]
                for call in calls:
                    if len(call.args) != 1:
                        raise TranslateError(f'{w}: line {call.lineno}: dictionary closure called with {len(call.args)} arguments')
                    labels: list[str] = []
                    for part in _flatten_add(call.args[0]):
                        if not (isinstance(part, ast.Attribute) and isinstance(part.value, ast.Name)):
                            raise TranslateError(f'{w}: line {call.lineno}: part of a dictionary entry is not an attribute of the prop: {ast.unparse(part)[:40]}')
                        ann = next((a for f, a, _ in cls.fields(c) if f == part.attr), None)
                        if ann is None:
                            raise TranslateError(f'{w}: class {c} has no field {part.attr}')
                        labels += [f'{part.attr}.{i}' for i in range(_tuple_width(ann, f'{c}.{part.attr}'))]
                    if c in out and out[c] != labels:
                        raise TranslateError(f'{w}: class {c} is entered into the dictionary in two different ways')
                    out[c] = labels
    n_calls = sum(1 for x in ast.walk(fn) if isinstance(x, ast.Call) and isinstance(x.func, ast.Name) and x.func.id in add)
    if not out or n_calls != len(out):
        raise TranslateError(f'{w}: {n_calls} calls of the dictionary closure, {len(out)} classified by an isinstance branch')
    return out, fmt


def reader(fn: ast.FunctionDef, cls: Classes) -> tuple[dict[str, list[str]], str]:
    w = 'reader _lmp_read_detail_props'
    slots = fmt = dict_name = groups = None
    for lp in ast.walk(fn):
        if not isinstance(lp, ast.For):
            continue
        for i, st in enumerate(lp.body):
            if isinstance(st, ast.Assign) and len(st.targets) == 1 and isinstance(st.targets[0], ast.Tuple) and isinstance(st.value, ast.Call) \
                    and ast.unparse(st.value.func) == 'struct_read' and all(isinstance(e, ast.Name) for e in st.targets[0].elts) \
                    and i + 1 < len(lp.body):
                nxt = lp.body[i + 1]
                if isinstance(nxt, ast.Expr) and isinstance(nxt.value, ast.Call) and isinstance(nxt.value.func, ast.Attribute) \
                        and nxt.value.func.attr == 'append' and isinstance(nxt.value.func.value, ast.Name) and len(nxt.value.args) == 1 \
                        and isinstance(nxt.value.args[0], ast.Tuple) and all(isinstance(g, ast.Tuple) for g in nxt.value.args[0].elts):
                    names = [e.id for e in st.targets[0].elts]      # type: ignore[attr-defined]
                    grp = [[x.id if isinstance(x, ast.Name) else None for x in g.elts] for g in nxt.value.args[0].elts]      # type: ignore[attr-defined]
                    flat = [x for g in grp for x in g]
                    if None in flat or sorted(flat) != sorted(names) or len(set(names)) != len(names):
                        raise TranslateError(f'{w}: line {nxt.lineno}: the dictionary entry is not a regrouping of the values read')
                    if not (st.value.args and isinstance(st.value.args[0], ast.Constant)):
                        raise TranslateError(f'{w}: line {st.lineno}: format of the dictionary entry is not a literal')
                    slots, fmt, dict_name, groups = names, st.value.args[0].value, nxt.value.func.value.id, grp
    if slots is None:
        raise TranslateError(f'{w}: no loop reads a dictionary entry with struct_read and appends its regrouped values')
    out: dict[str, list[str]] = {}
    for blk in [n for n in ast.walk(fn) if isinstance(n, (ast.If, ast.For))]:
        for body in (blk.body, blk.orelse):
            for i, st in enumerate(body):
                if isinstance(st, ast.Assign) and len(st.targets) == 1 and isinstance(st.targets[0], ast.Tuple) and isinstance(st.value, ast.Subscript) \
                        and isinstance(st.value.value, ast.Name) and st.value.value.id == dict_name:
                    tv = st.targets[0].elts
                    if len(tv) != len(groups) or not all(isinstance(e, ast.Name) for e in tv):
                        raise TranslateError(f'{w}: line {st.lineno}: a dictionary entry is not taken apart into its {len(groups)} groups')
                    cons = [c for s2 in body[i + 1:] for c in ast.walk(s2) if isinstance(c, ast.Call) and isinstance(c.func, ast.Name) and c.func.id in cls.raw
                            and any(isinstance(a, ast.Name) and a.id in {e.id for e in tv} for a in c.args)]        # type: ignore[attr-defined]
                    if len(cons) != 1:
                        raise TranslateError(f'{w}: line {st.lineno}: expected one constructor call that takes the parts of the dictionary entry')
                    c = cons[0]
                    fields = [f for f, _, _ in cls.fields(c.func.id)]       # type: ignore[attr-defined]
                    if c.keywords or any(isinstance(a, ast.Starred) for a in c.args):
                        raise TranslateError(f'{w}: line {c.lineno}: constructor call with keywords / starred arguments: not followed')
                    labels: list[str | None] = [None] * len(slots)
                    for j, e in enumerate(tv):
                        pos = [k for k, a in enumerate(c.args) if isinstance(a, ast.Name) and a.id == e.id]      # type: ignore[attr-defined]
                        if len(pos) != 1 or pos[0] >= len(fields):
                            raise TranslateError(f'{w}: line {c.lineno}: part `{e.id}` of the entry is not handed to the constructor exactly once')      # type: ignore[attr-defined]
                        for k, nm in enumerate(groups[j]):
                            labels[slots.index(nm)] = f'{fields[pos[0]]}.{k}'
                    if None in labels:
                        raise TranslateError(f'{w}: line {c.lineno}: a value of the dictionary entry reaches no attribute')
                    cname = c.func.id       # type: ignore[attr-defined]
                    if cname in out and out[cname] != labels:
                        raise TranslateError(f'{w}: class {cname} is built from the dictionary in two different ways')
                    out[cname] = labels     # type: ignore[assignment]
    if not out:
        raise TranslateError(f'{w}: no constructor takes the parts of a dictionary entry')
    return out, fmt


def generate(tree: ast.Module) -> tuple[str, dict[str, Any]]:
    cls = Classes(tree)
    wr, wfmt = writer(_fn(tree, '_lmp_write_detail_props'), cls)
    rd, rfmt = reader(_fn(tree, '_lmp_read_detail_props'), cls)
    if set(wr) != set(rd):
        raise TranslateError(f'sprite dictionary: classes written {sorted(wr)} differ from classes read {sorted(rd)}')
    q = lambda xs: '[' + '; '.join(f'"{x}"' for x in xs) + ']'       # noqa: E731
    text = ('(* sprite dictionary of the detail props: class, attribute component in every slot as written, as read *)\n'
            'Definition sprite_dict : list (string * list string * list string) := [' +
            '; '.join(f'("{c}", {q(wr[c])}, {q(rd[c])})' for c in sorted(wr)) + '].\n'
            f'Definition sprite_dict_fmts : string * string := ("{wfmt}", "{rfmt}").')
    return text, {'sprite_dict': {c: [wr[c], rd[c]] for c in sorted(wr)}, 'sprite_dict_fmts': [wfmt, rfmt]}
