"""C13 translator: the two name helpers of vpk.py -> Gen/VpkNames_gen.v.

`_join_file_parts` is executed on symbolic strings for the eight combinations (path empty?, stem empty?, extension empty?); the result of
each run is a list of pieces (the three parameters and literals) = one `jrow` of `g_join_table` (Fmt/VpkNameJoin.v gives the table its
meaning `join_k`, `join_table_ok` judges it).  `_get_file_parts` is executed for the three name forms with relative_to = '' and described
as a `gparts`: where folder / file name / extension come from before the split statement, whether the split statement (recognised by
translate/c13_vpk.py `_split_site`, which yields `g_ext_split`) is reached on (file name, extension), the chain of string operations on
the folder, the order of the returned triple.  Fail-closed: anything the executors do not understand raises TranslateError.
"""
from __future__ import annotations

import ast

from harness.common import TranslateError, ast_digest, src_text
from translate.c13_nullstr import find_def, fn_body


# ------------------------------------------------------------------------------------------------ _join_file_parts
class _Ret(Exception):
    def __init__(self, v):
        self.v = v


class _Join:
    """Symbolic strings are tuples of pieces 'P' / 'N' / 'E' / ('lit', text); lists of strings are Python lists."""

    def __init__(self, params: list[str], empty: tuple[bool, bool, bool]):
        self.env: dict = {params[0]: ('P',), params[1]: ('N',), params[2]: ('E',)}
        self.empty = dict(zip('PNE', empty))

    def nonempty(self, v) -> bool:
        if isinstance(v, bool):
            return v
        if isinstance(v, list):
            return bool(v)
        if v is None:
            return False
        return any((not self.empty[p]) if isinstance(p, str) else len(p[1]) > 0 for p in v)

    def ev(self, e):
        if isinstance(e, ast.Constant):
            if isinstance(e.value, str):
                return (('lit', e.value),) if e.value else ()
            if e.value is None or isinstance(e.value, bool):
                return e.value
        if isinstance(e, ast.Name):
            if e.id in self.env:
                return self.env[e.id]
            raise TranslateError(f'line {e.lineno}: _join_file_parts uses {e.id!r}')
        if isinstance(e, ast.JoinedStr):
            out = ()
            for v in e.values:
                if isinstance(v, ast.Constant) and isinstance(v.value, str):
                    out += (('lit', v.value),) if v.value else ()
                elif isinstance(v, ast.FormattedValue) and v.conversion == -1 and v.format_spec is None:
                    out += self.string(v.value)
                else:
                    raise TranslateError(f'line {e.lineno}: f-string part {ast.unparse(v)!r} not understood')
            return out
        if isinstance(e, ast.IfExp):
            return self.ev(e.body if self.nonempty(self.ev(e.test)) else e.orelse)
        if isinstance(e, ast.BinOp) and isinstance(e.op, ast.Add):
            return self.string(e.left) + self.string(e.right)
        if isinstance(e, ast.BoolOp):
            v = None
            for x in e.values:
                v = self.ev(x)
                if isinstance(e.op, ast.And) != self.nonempty(v):
                    return v
            return v
        if isinstance(e, ast.UnaryOp) and isinstance(e.op, ast.Not):
            return not self.nonempty(self.ev(e.operand))
        if isinstance(e, ast.Compare) and len(e.ops) == 1 and isinstance(e.ops[0], (ast.Eq, ast.NotEq)):
            l, r = e.left, e.comparators[0]
            if isinstance(l, ast.Constant):
                l, r = r, l
            if isinstance(r, ast.Constant) and r.value == '':
                return self.nonempty(self.string(l)) == isinstance(e.ops[0], ast.NotEq)
            if isinstance(r, ast.Constant) and r.value == 0 and isinstance(l, ast.Call) and isinstance(l.func, ast.Name) and l.func.id == 'len' and len(l.args) == 1:
                return self.nonempty(self.ev(l.args[0])) == isinstance(e.ops[0], ast.NotEq)
        if isinstance(e, (ast.Tuple, ast.List)):
            return [self.string(x) for x in e.elts]
        if isinstance(e, (ast.ListComp, ast.GeneratorExp)) and len(e.generators) == 1 and isinstance(e.generators[0].target, ast.Name) \
                and not e.generators[0].is_async:
            g = e.generators[0]
            out = []
            seq = self.ev(g.iter)
            if not isinstance(seq, list):
                raise TranslateError(f'line {e.lineno}: comprehension over {ast.unparse(g.iter)!r} not understood')
            saved = self.env.get(g.target.id)
            for item in seq:
                self.env[g.target.id] = item
                if all(self.nonempty(self.ev(c)) for c in g.ifs):
                    out.append(self.string(e.elt))
            if saved is None:
                self.env.pop(g.target.id, None)
            else:
                self.env[g.target.id] = saved
            return out
        if isinstance(e, ast.Call) and not e.keywords:
            f = e.func
            if isinstance(f, ast.Name) and f.id == 'filter' and len(e.args) == 2 and isinstance(e.args[0], ast.Constant) and e.args[0].value is None:
                seq = self.ev(e.args[1])
                if isinstance(seq, list):
                    return [x for x in seq if self.nonempty(x)]
            if isinstance(f, ast.Name) and f.id in ('bool', 'len') and len(e.args) == 1:
                return self.nonempty(self.ev(e.args[0]))
            if isinstance(f, ast.Name) and f.id in ('list', 'tuple', 'str') and len(e.args) == 1:
                return self.ev(e.args[0])
            if isinstance(f, ast.Attribute) and f.attr == 'join' and len(e.args) == 1:
                sep = self.string(f.value)
                seq = self.ev(e.args[0])
                if isinstance(seq, list):
                    out = ()
                    for i, x in enumerate(seq):
                        out += (sep if i else ()) + x
                    return out
        raise TranslateError(f'line {getattr(e, "lineno", "?")}: _join_file_parts: expression {ast.unparse(e)[:70]!r} not understood')

    def string(self, e):
        v = self.ev(e)
        if not isinstance(v, tuple):
            raise TranslateError(f'line {getattr(e, "lineno", "?")}: _join_file_parts: {ast.unparse(e)[:60]!r} is not a string')
        return v

    def run(self, stmts) -> None:
        for s in stmts:
            if isinstance(s, ast.Expr) and isinstance(s.value, ast.Constant):
                continue
            if isinstance(s, ast.Pass):
                continue
            if isinstance(s, ast.Return) and s.value is not None:
                raise _Ret(self.string(s.value))
            if isinstance(s, ast.Assign) and len(s.targets) == 1 and isinstance(s.targets[0], ast.Name):
                self.env[s.targets[0].id] = self.ev(s.value)
            elif isinstance(s, ast.AnnAssign) and isinstance(s.target, ast.Name) and s.value is not None:
                self.env[s.target.id] = self.ev(s.value)
            elif isinstance(s, ast.AugAssign) and isinstance(s.target, ast.Name) and isinstance(s.op, ast.Add):
                self.env[s.target.id] = self.string(s.target) + self.string(s.value)
            elif isinstance(s, ast.If):
                self.run(s.body if self.nonempty(self.ev(s.test)) else s.orelse)
            else:
                raise TranslateError(f'line {s.lineno}: _join_file_parts: statement {ast.unparse(s)[:60]!r} not understood')


def join_table(fn: ast.FunctionDef) -> list[tuple]:
    params = [a.arg for a in fn.args.posonlyargs + fn.args.args]
    if len(params) != 3 or fn.args.vararg or fn.args.kwarg or fn.args.kwonlyargs:
        raise TranslateError('_join_file_parts: three positional parameters (path, filename, ext) expected')
    rows = []
    for pe in (False, True):
        for ne in (False, True):
            for ee in (False, True):
                ex = _Join(params, (pe, ne, ee))
                try:
                    ex.run(fn_body(fn))
                except _Ret as r:
                    out = r.v
                else:
                    raise TranslateError('_join_file_parts: a path through the function returns nothing')
                rows.append((pe, ne, ee, out))
    return rows


def coq_bytes_lit(b: bytes) -> str:
    return '[' + '; '.join(str(x) for x in b) + ']' if b else '[]'


def coq_join_rows(rows) -> str:
    b = lambda x: 'true' if x else 'false'
    pc = {'P': 'JPath', 'N': 'JName', 'E': 'JExt'}

    def piece(p):
        if isinstance(p, str):
            return pc[p]
        try:
            return f'JLit {coq_bytes_lit(p[1].encode("ascii"))}'
        except UnicodeEncodeError:
            raise TranslateError(f'_join_file_parts: non-ASCII literal {p[1]!r}')
    return '[' + ';\n   '.join(f'mkJRow {b(pe)} {b(ne)} {b(ee)} [' + '; '.join(piece(p) for p in out) + ']' for pe, ne, ee, out in rows) + ']'


# ------------------------------------------------------------------------------------------------ _get_file_parts
class _Parts:
    """Values: ('form',) the argument; ('src', <psrc text>) a string taken from it; ('path', <psrc text>, [ops]) the folder under the chain;
    ('post', 'n'|'e') file name / extension after the split statement; ('tuple', [values])."""

    def __init__(self, fn: ast.FunctionDef, kind: str, split_if: ast.If):
        params = [a.arg for a in fn.args.posonlyargs + fn.args.args]
        defaults = fn.args.defaults
        if len(params) != 2 or len(defaults) != 1 or not (isinstance(defaults[0], ast.Constant) and defaults[0].value == ''):
            raise TranslateError("_get_file_parts: parameters (value, relative_to='') expected")
        self.vname, self.rel = params
        self.kind = kind                       # 'str' | '2' | '3'
        self.split_if = split_if
        self.env: dict = {self.vname: ('form',), self.rel: ('empty-const',)}
        self.split_on = None
        self.ops_seen: list = []

    def test(self, t) -> bool:
        src = ast.unparse(t)
        if isinstance(t, ast.UnaryOp) and isinstance(t.op, ast.Not):
            return not self.test(t.operand)
        if src == f'isinstance({self.vname}, str)':
            return self.kind == 'str'
        if isinstance(t, ast.Compare) and len(t.ops) == 1 and ast.unparse(t.left) == f'len({self.vname})' and isinstance(t.comparators[0], ast.Constant) \
                and isinstance(t.comparators[0].value, int) and isinstance(t.ops[0], (ast.Eq, ast.NotEq)):
            if self.kind == 'str':
                raise TranslateError(f'line {t.lineno}: _get_file_parts: len() of the string form decides the form')
            return (int(self.kind) == t.comparators[0].value) == isinstance(t.ops[0], ast.Eq)
        if isinstance(t, ast.Name) and t.id == self.rel:
            return False            # relative_to = '' (the default; the root= argument is outside the model)
        raise TranslateError(f'line {t.lineno}: _get_file_parts: test {src[:60]!r} not understood')

    def ev(self, e):
        if isinstance(e, ast.Constant) and e.value == '':
            return ('src', 'SEmpty')
        if isinstance(e, ast.Name):
            if e.id in self.env:
                return self.env[e.id]
            raise TranslateError(f'line {e.lineno}: _get_file_parts uses {e.id!r} before it is bound')
        if isinstance(e, ast.Tuple):
            return ('tuple', [self.ev(x) for x in e.elts])
        if isinstance(e, ast.Subscript) and isinstance(e.slice, ast.Constant) and isinstance(e.slice.value, int) and self.ev(e.value) == ('form',) \
                and self.kind != 'str' and 0 <= e.slice.value < int(self.kind):
            return ('src', f'SElem {e.slice.value}')
        if isinstance(e, ast.Call) and not e.keywords:
            f = e.func
            src = ast.unparse(f)
            if src in ('os.path.split', 'posixpath.split') and len(e.args) == 1 and self.ev(e.args[0]) == ('form',) and self.kind == 'str' and src == 'os.path.split':
                return ('tuple', [('src', 'SHead'), ('src', 'STail')])
            if src == 'os.path.normpath' and len(e.args) == 1:
                return self.chain(self.ev(e.args[0]), 'PNorm', e)
            if isinstance(f, ast.Attribute) and f.attr == 'replace' and len(e.args) == 2 and all(
                    isinstance(a, ast.Constant) and isinstance(a.value, str) and len(a.value) == 1 and ord(a.value) < 128 for a in e.args):
                return self.chain(self.ev(f.value), f'PRepl {ord(e.args[0].value)} {ord(e.args[1].value)}', e)
            if isinstance(f, ast.Attribute) and f.attr == 'rstrip' and len(e.args) == 1 and isinstance(e.args[0], ast.Constant) \
                    and isinstance(e.args[0].value, str) and len(e.args[0].value) == 1 and ord(e.args[0].value) < 128:
                return self.chain(self.ev(f.value), f'PRstrip {ord(e.args[0].value)}', e)
        raise TranslateError(f'line {getattr(e, "lineno", "?")}: _get_file_parts: expression {ast.unparse(e)[:70]!r} not understood')

    def chain(self, v, op: str, node):
        if v[0] == 'src':
            v = ('path', v[1], [])
        if v[0] != 'path':
            raise TranslateError(f'line {node.lineno}: _get_file_parts: string operation on {v!r}')
        return ('path', v[1], v[2] + [op])

    def assign(self, t, v, node) -> None:
        if isinstance(t, ast.Name):
            self.env[t.id] = v
        elif isinstance(t, ast.Tuple) and all(isinstance(x, ast.Name) for x in t.elts):
            if v == ('form',) and self.kind != 'str':
                v = ('tuple', [('src', f'SElem {i}') for i in range(int(self.kind))])
            if v[0] != 'tuple' or len(v[1]) != len(t.elts):
                raise TranslateError(f'line {node.lineno}: _get_file_parts: cannot unpack {ast.unparse(node)[:60]!r} for the {self.kind} form')
            for x, y in zip(t.elts, v[1]):
                self.env[x.id] = y
        else:
            raise TranslateError(f'line {node.lineno}: _get_file_parts: assignment target {ast.unparse(t)!r}')

    def run(self, stmts) -> None:
        for s in stmts:
            if isinstance(s, ast.Expr) and isinstance(s.value, ast.Constant):
                continue
            if isinstance(s, (ast.Pass,)) or (isinstance(s, ast.AnnAssign) and s.value is None):
                continue
            if s is self.split_if:
                if self.split_on is not None:
                    raise TranslateError('_get_file_parts: the split statement is reached twice')
                self.split_on = (self.env.get('filename'), self.env.get('ext'))
                self.env['filename'], self.env['ext'] = ('post', 'n'), ('post', 'e')
                continue
            if isinstance(s, ast.If):
                # `if path == '.': path = ''`
                t = s.test
                if isinstance(t, ast.Compare) and len(t.ops) == 1 and isinstance(t.ops[0], ast.Eq) and isinstance(t.left, ast.Name) \
                        and isinstance(t.comparators[0], ast.Constant) and t.comparators[0].value == '.' and not s.orelse and len(s.body) == 1 \
                        and isinstance(s.body[0], ast.Assign) and len(s.body[0].targets) == 1 and ast.unparse(s.body[0].targets[0]) == t.left.id \
                        and isinstance(s.body[0].value, ast.Constant) and s.body[0].value.value == '':
                    self.env[t.left.id] = self.chain(self.env.get(t.left.id, ('?',)), 'PDotEmpty', s)
                    continue
                self.run(s.body if self.test(t) else s.orelse)
            elif isinstance(s, ast.Assign) and len(s.targets) == 1:
                self.assign(s.targets[0], self.ev(s.value), s)
            elif isinstance(s, ast.AnnAssign) and s.value is not None:
                self.assign(s.target, self.ev(s.value), s)
            elif isinstance(s, ast.Return) and s.value is not None:
                raise _Ret(self.ev(s.value))
            else:
                raise TranslateError(f'line {s.lineno}: _get_file_parts: statement {ast.unparse(s)[:60]!r} not understood')


def parts_description(fn: ast.FunctionDef, split_if: ast.If) -> dict:
    out = {}
    chains = set()
    split = ret = True
    for kind in ('str', '2', '3'):
        ex = _Parts(fn, kind, split_if)
        try:
            ex.run(fn_body(fn))
        except _Ret as r:
            v = r.v
        else:
            raise TranslateError('_get_file_parts: a path through the function returns nothing')
        if v[0] != 'tuple' or len(v[1]) != 3:
            raise TranslateError('_get_file_parts: a triple is not returned')
        p, n, e = v[1]
        if p[0] == 'src':
            p = ('path', p[1], [])
        if ex.split_on is None:
            # the split statement is not reached: file name and extension are returned as they came in
            split = False
            fn_src, ext_src = n, e
            ok_ret = p[0] == 'path' and n[0] == 'src' and e[0] == 'src'
        else:
            fn_src, ext_src = ex.split_on
            ok_ret = p[0] == 'path' and n == ('post', 'n') and e == ('post', 'e')
        if p[0] != 'path' or fn_src is None or ext_src is None or fn_src[0] != 'src' or ext_src[0] != 'src':
            raise TranslateError(f'_get_file_parts ({kind} form): folder / file name / extension are not taken from the argument: {p!r} {fn_src!r} {ext_src!r}')
        ret = ret and ok_ret
        out[kind] = (p[1], fn_src[1], ext_src[1])
        chains.add(tuple(p[2]))
    if len(chains) != 1:
        raise TranslateError(f'_get_file_parts: the folder is normalised differently for the three forms: {sorted(chains)!r}')
    return {'forms': out, 'split': split, 'chain': list(chains.pop()), 'ret_ok': ret}


def _src(s: str) -> str:
    return f'({s})' if ' ' in s else s


def translate() -> tuple[str, dict]:
    tree = ast.parse(src_text('vpk.py'))
    jfn = find_def(tree.body, ast.FunctionDef, '_join_file_parts')
    gfn = find_def(tree.body, ast.FunctionDef, '_get_file_parts')
    rows = join_table(jfn)
    from translate.c13_vpk import _split_site
    _split_site(tree)              # fail-closed recognition of the split statement (g_ext_split is emitted by c13_vpk)
    split_if = [n for n in ast.walk(gfn) if isinstance(n, ast.If) and any(
        isinstance(b, ast.Assign) and isinstance(b.targets[0], ast.Tuple) and any(isinstance(x, ast.Name) and x.id == 'ext' for x in b.targets[0].elts)
        and isinstance(b.value, ast.Call) and isinstance(b.value.func, ast.Attribute) for b in n.body)]
    if len(split_if) != 1:
        raise TranslateError('_get_file_parts: split statement not found')
    pd = parts_description(gfn, split_if[0])
    # census: every place that turns parts into a listed name goes through _join_file_parts (FileInfo.filename / name)
    finfo = find_def(tree.body, ast.ClassDef, 'FileInfo')
    fname_prop = [n for n in finfo.body if isinstance(n, ast.FunctionDef) and n.name == 'filename']
    filename_is_join = False
    if len(fname_prop) == 1:
        rets = [s for s in ast.walk(fname_prop[0]) if isinstance(s, ast.Return)]
        filename_is_join = len(rets) == 1 and rets[0].value is not None and \
            ast.unparse(rets[0].value) in ('_join_file_parts(self.dir, self._filename, self.ext)',)
    # census: every method that takes a file name resolves it with _get_file_parts(<its name parameter>[, root]) and uses the parameter for
    # nothing else (error messages aside); add_file hands its name to new_file unchanged
    vpk = find_def(tree.body, ast.ClassDef, 'VPK')
    name_sites = {}
    for meth in ('__getitem__', '__delitem__', '__contains__', 'new_file'):
        fn = find_def(vpk.body, ast.FunctionDef, meth)
        params = [a.arg for a in fn.args.posonlyargs + fn.args.args]
        ok = len(params) >= 2
        if ok:
            nm = params[1]
            calls = [n for n in ast.walk(fn) if isinstance(n, ast.Call) and isinstance(n.func, ast.Name) and n.func.id == '_get_file_parts']
            ok = len(calls) == 1 and not calls[0].keywords and 1 <= len(calls[0].args) <= 2 and isinstance(calls[0].args[0], ast.Name) and calls[0].args[0].id == nm \
                and (len(calls[0].args) == 1 or (isinstance(calls[0].args[1], ast.Name) and calls[0].args[1].id in params))
            # other loads of the parameter only inside raise statements (messages)
            in_raise = {id(x) for r in ast.walk(fn) if isinstance(r, ast.Raise) for x in ast.walk(r)}
            in_call = {id(x) for c in calls for x in ast.walk(c)}
            for n in ast.walk(fn):
                if isinstance(n, ast.Name) and n.id == nm and isinstance(n.ctx, ast.Load) and id(n) not in in_raise and id(n) not in in_call:
                    ok = False
        name_sites[meth] = ok
    addf = find_def(vpk.body, ast.FunctionDef, 'add_file')
    ap = [a.arg for a in addf.args.posonlyargs + addf.args.args]
    nf = [n for n in ast.walk(addf) if isinstance(n, ast.Call) and isinstance(n.func, ast.Attribute) and n.func.attr == 'new_file' and ast.unparse(n.func.value) == 'self']
    name_sites['add_file'] = len(ap) >= 2 and len(nf) == 1 and len(nf[0].args) >= 1 and isinstance(nf[0].args[0], ast.Name) and nf[0].args[0].id == ap[1] and \
        sum(1 for n in ast.walk(addf) if isinstance(n, ast.Name) and n.id == ap[1] and isinstance(n.ctx, ast.Load)) == 1
    b = lambda x: 'true' if x else 'false'
    trip = lambda t: '(' + ', '.join(_src(x) for x in t) + ')'
    side = {'join_rows': [[pe, ne, ee, [p if isinstance(p, str) else p[1] for p in out]] for pe, ne, ee, out in rows], 'parts': pd,
            'filename_is_join': filename_is_join, 'name_sites': name_sites, 'digests': {'_join_file_parts': ast_digest(jfn), '_get_file_parts': ast_digest(gfn)}}
    text = '\n'.join([
        '(* GENERATED by translate/c13_names.py from /repo/src/srctools/vpk.py. Do not edit. *)',
        'From Coq Require Import List NArith Bool.', 'From SV Require Import Fmt.VpkDir SM.Vpk Fmt.VpkName Fmt.VpkNameSplit Fmt.VpkNameJoin.',
        'Import ListNotations.', 'Open Scope N_scope.',
        f'(* _join_file_parts (line {jfn.lineno}) executed on symbolic strings: (path empty, stem empty, extension empty, pieces of the result) *)',
        'Definition g_join_table : list jrow :=\n  ' + coq_join_rows(rows) + '.',
        f'(* _get_file_parts (line {gfn.lineno}) executed for the three name forms with relative_to = \'\' *)',
        'Definition g_parts : gparts :=',
        f'  mkGParts {trip(pd["forms"]["str"])} {trip(pd["forms"]["2"])} {trip(pd["forms"]["3"])} {b(pd["split"])}',
        '           [' + '; '.join(pd['chain']) + f'] {b(pd["ret_ok"])}.',
        f'Definition g_fileinfo_filename_is_join : bool := {b(filename_is_join)}.',
        '(* __getitem__, __delitem__, __contains__, new_file resolve their name argument with _get_file_parts and use it for nothing else; add_file passes it to new_file *)',
        f'Definition g_names_resolved_by_get_file_parts : bool := {b(all(name_sites.values()))}.',
        '',
    ])
    return text, side


GEN = {'VpkNames_gen': translate}
