"""C09 translator (round 2): which data fields the EXPORT of each map class reads  ->  Gen/CopyExportReads_gen.v.

For every class with an export entry point (export / _serialise / __str__) walk the method and, transitively, every
method or property of the same class it calls through `self`; record every attribute read on `self` and on every
variable bound to an element of one of its container fields (`for vert in self._disp_verts`, `for fixup in
sorted(self._fixup.values(), ...)`), the element class coming from the field annotation.  `getattr(v, name)` is
resolved through the constant arguments at the call sites of the helper.  Fail-closed: a tracked object used in any
way other than an attribute read / method call / iteration / subscript raises TranslateError.

Together with the copy census (translate/c09_copy.py) this gives the instance obligation
`copy_export_equal:<Class>`: every field export reads is carried over by copy() and built from that same field.
"""
from __future__ import annotations

import ast
from typing import Optional

from harness.common import TranslateError, src_text
from translate.c09_copy import ClassInfo, _find_class, _method, elem_class, VMF_CLASSES

# class -> export entry point
ENTRY = {'Camera': 'export', 'Cordon': 'export', 'VisGroup': 'export', 'Solid': 'export', 'UVAxis': '__str__',
         'Side': 'export', 'Entity': 'export', 'EntityFixup': 'export', 'EntityGroup': 'export', 'Output': 'export',
         'Keyvalues': '_serialise'}
# calls on a nested object that are that object's own export (its reads are its own census)
NESTED_EXPORT = {'export', '_serialise', 'serialise'}
# builtins / helpers through which a tracked value may flow without being stored anywhere
PURE_CALLS = {'sorted', 'len', 'enumerate', 'any', 'all', 'map', 'str', 'int', 'bool', 'escape_text', 'format_float',
              'isinstance', 'repr', 'list', 'tuple', 'iter', 'reversed', 'zip', 'min', 'max', 'sum', 'float', 'range'}


class Reads:
    def __init__(self, tree: ast.Module, classes: dict[str, ClassInfo]) -> None:
        self.tree, self.classes = tree, classes
        self.reads: dict[str, list[str]] = {}
        self.sites: dict[str, dict[str, int]] = {}
        self.active: set[tuple[str, str, tuple]] = set()

    def note(self, cname: str, attr: str, line: int) -> None:
        self.reads.setdefault(cname, [])
        if attr not in self.reads[cname]:
            self.reads[cname].append(attr)
            self.sites.setdefault(cname, {})[attr] = line

    def members(self, cname: str) -> dict[str, ast.FunctionDef]:
        return {n.name: n for n in self.classes[cname].node.body if isinstance(n, ast.FunctionDef)
                and not any(ast.unparse(d) == 'overload' or ast.unparse(d).endswith('.setter') for d in n.decorator_list)}

    def class_consts(self, cname: str) -> set[str]:
        out = set()
        for n in self.classes[cname].node.body:
            if isinstance(n, ast.Assign):
                out |= {t.id for t in n.targets if isinstance(t, ast.Name)}
            elif isinstance(n, ast.AnnAssign) and isinstance(n.target, ast.Name) and 'Final' in ast.unparse(n.annotation):
                out.add(n.target.id)
        return out

    # ---- class of the elements an iterable expression yields (None: untracked values such as ints / strings)
    def iter_class(self, it: ast.expr, env: dict[str, str]) -> tuple[Optional[str], bool]:
        """(element class, yields (key, value) pairs?)"""
        if isinstance(it, ast.Call):
            fn = it.func
            if isinstance(fn, ast.Name) and fn.id in ('sorted', 'reversed', 'list', 'tuple', 'iter') and it.args:
                return self.iter_class(it.args[0], env)
            if isinstance(fn, ast.Name) and fn.id == 'enumerate' and it.args:
                c, _ = self.iter_class(it.args[0], env)
                return c, True
            if isinstance(fn, ast.Name) and fn.id == 'range':
                return None, False
            if isinstance(fn, ast.Attribute) and fn.attr in ('values', 'items', 'keys') and not it.args:
                c, _ = self.iter_class(fn.value, env)
                return (None if fn.attr == 'keys' else c), fn.attr == 'items'
            raise TranslateError(f'export reads: unrecognised iterable `{ast.unparse(it)}` (line {it.lineno})')
        if isinstance(it, ast.Subscript):
            return self.iter_class(it.value, env)
        if isinstance(it, ast.Attribute) and isinstance(it.value, ast.Name) and it.value.id in env:
            owner = env[it.value.id]
            ann = self.classes[owner].ann.get(it.attr) if owner in self.classes else None
            ec = elem_class(ann)
            return (ec if ec in self.classes else None), False
        if isinstance(it, ast.Attribute):
            # e.g. self.map.groups : reached through the context pointer; its elements are not tracked
            return None, False
        if isinstance(it, ast.Name):
            return None, False
        raise TranslateError(f'export reads: unrecognised iterable `{ast.unparse(it)}` (line {it.lineno})')

    def bind_target(self, tgt: ast.expr, ecls: Optional[str], pairs: bool, env: dict[str, str]) -> None:
        if isinstance(tgt, ast.Name):
            if ecls is not None and not pairs:
                env[tgt.id] = ecls
            else:
                env.pop(tgt.id, None)
            return
        if isinstance(tgt, ast.Tuple) and len(tgt.elts) == 2 and all(isinstance(e, ast.Name) for e in tgt.elts):
            env.pop(tgt.elts[0].id, None)  # type: ignore[attr-defined]
            if ecls is not None:
                env[tgt.elts[1].id] = ecls  # type: ignore[attr-defined]
            else:
                env.pop(tgt.elts[1].id, None)  # type: ignore[attr-defined]
            return
        raise TranslateError(f'export reads: unrecognised loop target `{ast.unparse(tgt)}`')

    # ---- one method
    def method(self, cname: str, mname: str, consts: dict[str, str]) -> None:
        key = (cname, mname, tuple(sorted(consts.items())))
        if key in self.active:
            return
        self.active.add(key)
        fn = self.members(cname)[mname]
        env = {'self': cname}
        for st in fn.body:
            self.stmt(st, env, consts, cname, fn)

    def stmt(self, st: ast.stmt, env: dict[str, str], consts: dict[str, str], cname: str, fn: ast.FunctionDef) -> None:
        if isinstance(st, ast.Expr):
            self.expr(st.value, env, consts, cname)
        elif isinstance(st, (ast.Assign, ast.AnnAssign, ast.AugAssign)):
            targets = st.targets if isinstance(st, ast.Assign) else [st.target]
            for t in targets:
                for n in ast.walk(t):
                    if isinstance(n, ast.Name) and n.id in env and not isinstance(t, ast.Name):
                        raise TranslateError(f'{cname}.{fn.name}: export stores into `{ast.unparse(t)}` (line {st.lineno})')
                if isinstance(t, ast.Name):
                    env.pop(t.id, None)
            if st.value is not None:
                self.expr(st.value, env, consts, cname)
        elif isinstance(st, ast.If):
            self.expr(st.test, env, consts, cname)
            for s in st.body + st.orelse:
                self.stmt(s, env, consts, cname, fn)
        elif isinstance(st, ast.For):
            self.expr(st.iter, env, consts, cname)
            ecls, pairs = self.iter_class(st.iter, env)
            inner = dict(env)
            self.bind_target(st.target, ecls, pairs, inner)
            for s in st.body + st.orelse:
                self.stmt(s, inner, consts, cname, fn)
        elif isinstance(st, ast.Assert):
            self.expr(st.test, env, consts, cname)
        elif isinstance(st, ast.Return):
            if st.value is not None:
                self.expr(st.value, env, consts, cname)
        elif isinstance(st, ast.Pass):
            pass
        else:
            raise TranslateError(f'{cname}.{fn.name}: unsupported statement {type(st).__name__} in export code (line {st.lineno})')

    def expr(self, e: ast.expr, env: dict[str, str], consts: dict[str, str], cname: str) -> None:
        """Record the reads of one expression.  Tracked names may occur only as `name.attr`, `getattr(name, const)`."""
        if isinstance(e, (ast.ListComp, ast.GeneratorExp, ast.SetComp, ast.DictComp)):
            inner = dict(env)
            for g in e.generators:
                self.expr(g.iter, inner, consts, cname)
                ecls, pairs = self.iter_class(g.iter, inner)
                self.bind_target(g.target, ecls, pairs, inner)
                for c in g.ifs:
                    self.expr(c, inner, consts, cname)
            if isinstance(e, ast.DictComp):
                self.expr(e.key, inner, consts, cname)
                self.expr(e.value, inner, consts, cname)
            else:
                self.expr(e.elt, inner, consts, cname)
            return
        if isinstance(e, ast.Attribute) and isinstance(e.value, ast.Name) and e.value.id in env:
            self.attr_read(env[e.value.id], e.attr, e.lineno, is_self=(e.value.id == 'self'), call=None, consts=consts)
            return
        if isinstance(e, ast.Call):
            fn = e.func
            # getattr(v, name)
            if isinstance(fn, ast.Name) and fn.id == 'getattr' and len(e.args) >= 2 and isinstance(e.args[0], ast.Name) \
                    and e.args[0].id in env:
                nm = e.args[1]
                if isinstance(nm, ast.Constant) and isinstance(nm.value, str):
                    attr = nm.value
                elif isinstance(nm, ast.Name) and nm.id in consts:
                    attr = consts[nm.id]
                else:
                    raise TranslateError(f'export reads: getattr with a non-constant name `{ast.unparse(e)}` (line {e.lineno})')
                self.attr_read(env[e.args[0].id], attr, e.lineno, is_self=False, call=None, consts=consts)
                for a in e.args[2:]:
                    self.expr(a, env, consts, cname)
                return
            # operator.attrgetter('id') used as a sort key over tracked elements: resolved by the caller (sorted)
            if isinstance(fn, ast.Name) and fn.id == 'sorted':
                ecls, _ = self.iter_class(e.args[0], env) if e.args else (None, False)
                for kw in e.keywords:
                    if kw.arg == 'key' and isinstance(kw.value, ast.Call) and ast.unparse(kw.value.func) == 'operator.attrgetter':
                        for a in kw.value.args:
                            if not (isinstance(a, ast.Constant) and isinstance(a.value, str)):
                                raise TranslateError(f'export reads: attrgetter with a non-constant name (line {e.lineno})')
                            if ecls is not None:
                                self.attr_read(ecls, a.value, e.lineno, is_self=False, call=None, consts=consts)
                    elif kw.arg == 'key' and ast.unparse(kw.value).startswith('operator.itemgetter'):
                        pass
                    elif kw.arg == 'key':
                        raise TranslateError(f'export reads: unrecognised sort key `{ast.unparse(kw.value)}` (line {e.lineno})')
                for a in e.args:
                    self.expr(a, env, consts, cname)
                return
            # v.method(...)
            if isinstance(fn, ast.Attribute) and isinstance(fn.value, ast.Name) and fn.value.id in env:
                self.attr_read(env[fn.value.id], fn.attr, e.lineno, is_self=(fn.value.id == 'self'), call=e, consts=consts)
                for a in list(e.args) + [k.value for k in e.keywords]:
                    self.expr(a, env, consts, cname)
                return
            # tracked object passed whole to a function: only to known pure ones
            for a in list(e.args) + [k.value for k in e.keywords]:
                if isinstance(a, ast.Name) and a.id in env:
                    if not (isinstance(fn, ast.Name) and fn.id in PURE_CALLS):
                        raise TranslateError(f'export reads: `{a.id}` passed to `{ast.unparse(fn)}` (line {e.lineno})')
                    if isinstance(fn, ast.Name) and fn.id in ('str', 'repr'):
                        self.attr_read(env[a.id], '__str__', e.lineno, is_self=(a.id == 'self'), call=e, consts=consts)
                else:
                    self.expr(a, env, consts, cname)
            self.expr(fn, env, consts, cname)
            return
        if isinstance(e, ast.Name):
            if e.id in env and isinstance(e.ctx, ast.Load):
                raise TranslateError(f'export reads: tracked object `{e.id}` used as a value (line {e.lineno})')
            return
        if isinstance(e, ast.FormattedValue):
            if isinstance(e.value, ast.Name) and e.value.id in env:
                self.attr_read(env[e.value.id], '__str__', e.lineno, is_self=(e.value.id == 'self'), call=None, consts=consts)
                return
            self.expr(e.value, env, consts, cname)
            if e.format_spec is not None:
                self.expr(e.format_spec, env, consts, cname)
            return
        for ch in ast.iter_child_nodes(e):
            if isinstance(ch, ast.expr):
                self.expr(ch, env, consts, cname)
            elif isinstance(ch, ast.comprehension):
                raise TranslateError('export reads: stray comprehension')
            elif isinstance(ch, ast.keyword):
                self.expr(ch.value, env, consts, cname)

    def attr_read(self, ocls: str, attr: str, line: int, is_self: bool, call: Optional[ast.Call], consts: dict[str, str]) -> None:
        info = self.classes[ocls]
        if attr in info.fields:
            self.note(ocls, attr, line)
            return
        mem = self.members(ocls)
        if attr in mem:
            if attr in NESTED_EXPORT and not is_self:
                return            # the nested object's own export: covered by that class's census
            if attr in NESTED_EXPORT and is_self and call is not None and attr == ENTRY.get(ocls):
                return            # recursion into the same entry point (Keyvalues children are handled by iteration)
            new_consts: dict[str, str] = {}
            if call is not None:
                params = [a.arg for a in mem[attr].args.args[1:]]
                for p, a in zip(params, call.args):
                    if isinstance(a, ast.Constant) and isinstance(a.value, str):
                        new_consts[p] = a.value
                for kw in call.keywords:
                    if kw.arg and isinstance(kw.value, ast.Constant) and isinstance(kw.value.value, str):
                        new_consts[kw.arg] = kw.value.value
            self.method(ocls, attr, new_consts)
            return
        if attr == '__str__':
            # str() of an object whose class defines no __str__ here (attrs repr): reads every field
            for f in info.fields:
                self.note(ocls, f, line)
            return
        if attr in self.class_consts(ocls) or attr == '__class__':
            return
        raise TranslateError(f'export reads: `{ocls}.{attr}` (line {line}) is neither a data field nor a method of the class')


def translate() -> tuple[str, dict]:
    vtree = ast.parse(src_text('vmf.py'))
    ktree = ast.parse(src_text('keyvalues.py'))
    vclasses = {n: ClassInfo(_find_class(vtree, n), module=vtree) for n in VMF_CLASSES}
    kv_info = ClassInfo(_find_class(ktree, 'Keyvalues'), want_feeds=False, module=ktree)
    kv_info.ann.update({'_folded_name': 'Optional[str]', '_real_name': 'Optional[str]', 'line_num': 'Optional[int]'})
    rv = Reads(vtree, vclasses)
    rk = Reads(ktree, {'Keyvalues': kv_info})
    for cname, entry in ENTRY.items():
        r = rk if cname == 'Keyvalues' else rv
        if entry not in r.members(cname):
            raise TranslateError(f'{cname}.{entry}: export entry point not found')
        r.method(cname, entry, {})
    reads = {**rv.reads, **rk.reads}
    fields = {n: c.fields for n, c in vclasses.items()}
    fields['Keyvalues'] = kv_info.fields
    for cname in list(vclasses) + ['Keyvalues']:
        reads.setdefault(cname, [])
    lines = ['(* GENERATED by translate/c09_export.py from /repo/src/srctools/vmf.py, keyvalues.py. Do not edit. *)',
             'From Coq Require Import List String.', 'Import ListNotations.', 'Open Scope string_scope.', '']
    for cname in sorted(reads):
        lines.append(f'Definition export_reads_{cname} : list string := [' + '; '.join(f'"{f}"' for f in reads[cname]) + '].')
    lines.append('Definition all_export_reads : list (string * list string) := [')
    lines.append(';\n'.join(f'  ("{c}", export_reads_{c})' for c in sorted(reads)))
    lines.append('].')
    side = {'reads': reads, 'entry': ENTRY, 'not_read': {c: [f for f in fields[c] if f not in reads[c]] for c in sorted(reads)},
            'sites': {**rv.sites, **rk.sites}}
    return '\n'.join(lines) + '\n', side


GEN = {'CopyExportReads_gen': translate}
