"""C04 translator, in-place census: every in-place operator method (`__iadd__` ... `__imatmul__`) that the nine operand
classes of srctools/math.py define at run time -> Gen/RotInplace_gen.v.

"Define at run time": a `def` directly in the class body, or one produced by the class body's
`for <names> in (<literal tuples>): exec(<TEMPLATE>.format(<kw>=<name>, ...), globals(), locals())` loops (the templates
are module-level string constants; they are formatted here exactly as the loop does and parsed).  Definitions under
`if TYPE_CHECKING:` are stubs for the type checker and are skipped.  Any other `exec` / `eval` / `setattr` in a class body, an
assignment to an in-place name, or a template that cannot be resolved fails closed.

For every such method every control-flow path (if / elif / else; a path that raises is dropped) is classified by what it
returns:
  PSelf n           `return self` (or `return m._to_angle(self)`, `_to_angle` returning its argument) after n statements that
                    store into the receiver (`self.x op= ..`, `self._x = ..`, `self._mat_mul(..)`, `m._vec_rot(self)`,
                    `m._to_angle(self)`);
  PNotImplemented   `return NotImplemented` (Python then falls back to the pure operator);
  POther            anything else - a new object, another name, falling off the end, NotImplemented AFTER a store into the
                    receiver (Python would then apply the pure operator to the half-updated object).
The Coq side (Rot/RotInplace.v) accepts the census when every method belongs to a mutable class only (is not reachable from a
frozen class through the MRO), and every path that returns a value returns the receiver after at least one store.  The check
compares the census with `vars()` of the running classes.
"""
from __future__ import annotations

import ast
from typing import Any, Iterator

from harness.common import TranslateError, src_text
from translate import c04_formulas as tr

INPLACE_NAMES = ('__iadd__', '__isub__', '__imul__', '__imatmul__', '__itruediv__', '__ifloordiv__', '__imod__', '__ipow__',
                 '__ilshift__', '__irshift__', '__iand__', '__ixor__', '__ior__')
CLASSES = tr.OPERAND_CLASSES
MUTABLE = ('Vec', 'Angle', 'Matrix')
FROZEN = ('FrozenVec', 'FrozenAngle', 'FrozenMatrix')
STORE_HELPERS_ON_SELF = ('_mat_mul',)                 # self._mat_mul(x) stores into self
STORE_HELPERS_ON_ARG = ('_vec_rot', '_to_angle')      # m._vec_rot(self), m._to_angle(self) store into their argument


def _module_strings(tree: ast.Module) -> dict[str, str]:
    out: dict[str, str] = {}
    count: dict[str, int] = {}
    for n in tree.body:
        if isinstance(n, ast.Assign) and len(n.targets) == 1 and isinstance(n.targets[0], ast.Name):
            count[n.targets[0].id] = count.get(n.targets[0].id, 0) + 1
            if isinstance(n.value, ast.Constant) and isinstance(n.value.value, str):
                out[n.targets[0].id] = n.value.value
    return {k: v for k, v in out.items() if count[k] == 1}


def _is_overload(f: ast.FunctionDef) -> bool:
    return any(isinstance(d, ast.Name) and d.id == 'overload' for d in f.decorator_list)


def _calls(n: ast.AST) -> Iterator[ast.Call]:
    for sub in ast.walk(n):
        if isinstance(sub, ast.Call):
            yield sub


def _exec_template(call: ast.Call, env: dict[str, str], strings: dict[str, str], where: str) -> str:
    """The text `exec(TEMPLATE.format(kw=name, ...), globals(), locals())` executes, given the loop variables."""
    if not call.args or call.keywords:
        raise TranslateError(f'{where}: line {call.lineno}: unsupported exec() call')
    a = call.args[0]
    if isinstance(a, ast.Name) and a.id in strings:
        return strings[a.id]
    if isinstance(a, ast.Call) and isinstance(a.func, ast.Attribute) and a.func.attr == 'format' and not a.args \
            and isinstance(a.func.value, ast.Name) and a.func.value.id in strings:
        kw: dict[str, str] = {}
        for k in a.keywords:
            if k.arg is None:
                raise TranslateError(f'{where}: line {call.lineno}: **kwargs in a template format')
            if isinstance(k.value, ast.Constant) and isinstance(k.value.value, str):
                kw[k.arg] = k.value.value
            elif isinstance(k.value, ast.Name) and k.value.id in env:
                kw[k.arg] = env[k.value.id]
            else:
                raise TranslateError(f'{where}: line {call.lineno}: template argument {k.arg} is not a loop variable or literal')
        try:
            return strings[a.func.value.id].format(**kw)
        except (KeyError, IndexError, ValueError) as e:
            raise TranslateError(f'{where}: line {call.lineno}: template cannot be formatted: {e!r}') from None
    raise TranslateError(f'{where}: line {call.lineno}: exec() of something that is not a module-level template string')


def class_defs(cdef: ast.ClassDef, strings: dict[str, str]) -> list[tuple[ast.FunctionDef, str]]:
    """Every function the class body defines at run time, in order, with where it comes from."""
    where = f'class {cdef.name}'
    out: list[tuple[ast.FunctionDef, str]] = []

    def from_text(text: str, origin: str, line: int) -> None:
        try:
            mod = ast.parse(text)
        except SyntaxError as e:
            raise TranslateError(f'{where}: line {line}: formatted template does not parse: {e}') from None
        for s in mod.body:
            if isinstance(s, ast.FunctionDef):
                out.append((s, origin))
            elif not tr._is_docstring(s):
                raise TranslateError(f'{where}: line {line}: template contains a statement other than a def')

    def stmts(body: list[ast.stmt], env: dict[str, str]) -> None:
        for s in body:
            if isinstance(s, ast.FunctionDef):
                if not _is_overload(s):
                    out.append((s, 'def'))
                continue
            if isinstance(s, ast.If):
                t = s.test
                if isinstance(t, ast.Name) and t.id == 'TYPE_CHECKING' or \
                        (isinstance(t, ast.Attribute) and t.attr == 'TYPE_CHECKING'):
                    stmts(s.orelse, env)
                else:
                    stmts(s.body, env)
                    stmts(s.orelse, env)
                continue
            if isinstance(s, ast.For):
                execs = [c for c in _calls(s) if isinstance(c.func, ast.Name) and c.func.id in ('exec', 'eval')]
                if not execs:
                    for c in _calls(s):
                        if isinstance(c.func, ast.Name) and c.func.id in ('setattr', 'delattr'):
                            raise TranslateError(f'{where}: line {s.lineno}: setattr in a class-body loop')
                    continue
                if s.orelse or len(s.body) != 1 or not isinstance(s.body[0], ast.Expr) or s.body[0].value is not execs[0] \
                        or len(execs) != 1:
                    raise TranslateError(f'{where}: line {s.lineno}: exec loop is not `for ..: exec(TEMPLATE.format(..), ..)`')
                tg = s.target
                names = [tg.id] if isinstance(tg, ast.Name) else [e.id for e in tg.elts if isinstance(e, ast.Name)] \
                    if isinstance(tg, ast.Tuple) else []
                if not names or (isinstance(tg, ast.Tuple) and len(names) != len(tg.elts)):
                    raise TranslateError(f'{where}: line {s.lineno}: unsupported loop target')
                if not isinstance(s.iter, (ast.Tuple, ast.List)):
                    raise TranslateError(f'{where}: line {s.lineno}: exec loop does not run over a literal sequence')
                for item in s.iter.elts:
                    vals = [item] if isinstance(tg, ast.Name) else list(getattr(item, 'elts', []))
                    if len(vals) != len(names) or not all(isinstance(v, ast.Constant) and isinstance(v.value, str) for v in vals):
                        raise TranslateError(f'{where}: line {s.lineno}: exec loop item is not a tuple of string literals')
                    env2 = {**env, **{n: v.value for n, v in zip(names, vals)}}
                    from_text(_exec_template(execs[0], env2, strings, where), f'exec template line {s.lineno}', s.lineno)
                continue
            # any other statement: no hidden definitions
            for c in _calls(s):
                if isinstance(c.func, ast.Name) and c.func.id in ('exec', 'eval', 'setattr', 'delattr'):
                    if c.func.id == 'exec' and isinstance(s, ast.Expr) and s.value is c:
                        from_text(_exec_template(c, env, strings, where), f'exec template line {s.lineno}', s.lineno)
                    else:
                        raise TranslateError(f'{where}: line {s.lineno}: {c.func.id}() in the class body')
            if isinstance(s, (ast.Assign, ast.AnnAssign, ast.AugAssign, ast.Delete)):
                tgts = s.targets if isinstance(s, (ast.Assign, ast.Delete)) else [s.target]
                for t in tgts:
                    for sub in ast.walk(t):
                        if isinstance(sub, ast.Name) and sub.id in INPLACE_NAMES:
                            raise TranslateError(f'{where}: line {s.lineno}: in-place method {sub.id} is assigned or deleted')
            if isinstance(s, (ast.With, ast.Try, ast.While, ast.ClassDef)):
                for sub in ast.walk(s):
                    if isinstance(sub, ast.FunctionDef) and sub.name in INPLACE_NAMES:
                        raise TranslateError(f'{where}: line {sub.lineno}: in-place method defined inside a {type(s).__name__}')
    stmts(cdef.body, {})
    return out


def _returns_its_argument(C: tr.Classes, meth: str, argpos: int) -> bool:
    """Every `return` of MatrixBase.<meth> returns its parameter number argpos (e.g. `_to_angle(self, ang)` returns ang)."""
    found = C.method('MatrixBase', meth)
    if found is None:
        return False
    fn = found[1]
    ps = tr._params(fn)
    if len(ps) <= argpos:
        return False
    rets = [n for n in ast.walk(fn) if isinstance(n, ast.Return)]
    return bool(rets) and all(isinstance(r.value, ast.Name) and r.value.id == ps[argpos] for r in rets) and \
        not any(isinstance(n, ast.Name) and n.id == ps[argpos] and isinstance(n.ctx, ast.Store) for n in ast.walk(fn))


def classify_path(C: tr.Classes, fn: ast.FunctionDef, stmts: list[ast.stmt]) -> tuple[str, int, str]:
    ps = [a.arg for a in fn.args.posonlyargs + fn.args.args]
    if not ps:
        raise TranslateError(f'{fn.name}: no receiver parameter')
    me = ps[0]
    rebound = False
    stores = 0

    def is_me(n: ast.AST) -> bool:
        return isinstance(n, ast.Name) and n.id == me

    for s in stmts[:-1] if stmts and isinstance(stmts[-1], ast.Return) else stmts:
        tgts: list[ast.AST] = []
        if isinstance(s, ast.Assign):
            tgts = list(s.targets)
        elif isinstance(s, (ast.AugAssign, ast.AnnAssign)):
            tgts = [s.target]
        for t in tgts:
            for sub in ([t] + list(getattr(t, 'elts', []))):
                if isinstance(sub, ast.Attribute) and is_me(sub.value):
                    stores += 1
                if is_me(sub):
                    rebound = True
        if isinstance(s, ast.AugAssign) and isinstance(s.target, ast.Name) and not is_me(s.target):
            pass
        if isinstance(s, ast.Expr) and isinstance(s.value, ast.Call) and isinstance(s.value.func, ast.Attribute):
            f = s.value.func
            if f.attr in STORE_HELPERS_ON_SELF and is_me(f.value):
                stores += 1
            if f.attr in STORE_HELPERS_ON_ARG and len(s.value.args) == 1 and is_me(s.value.args[0]):
                stores += 1
            if f.attr.startswith('__i') and f.attr in INPLACE_NAMES and is_me(f.value):
                stores += 1
    if not stmts or not isinstance(stmts[-1], ast.Return) or stmts[-1].value is None:
        return 'POther', 0, 'falls off the end / returns None'
    v = stmts[-1].value
    if isinstance(v, ast.Name) and v.id == 'NotImplemented':
        if stores:
            # Python would now apply the pure operator to the half-updated receiver
            return 'POther', 0, f'returns NotImplemented after {stores} store(s) into the receiver'
        return 'PNotImplemented', 0, ''
    if rebound:
        return 'POther', 0, f'the receiver name `{me}` is rebound'
    if is_me(v):
        return 'PSelf', stores, ''
    if isinstance(v, ast.Call) and isinstance(v.func, ast.Attribute) and v.func.attr == '_to_angle' and len(v.args) == 1 \
            and not v.keywords and is_me(v.args[0]) and _returns_its_argument(C, '_to_angle', 1):
        return 'PSelf', stores + 1, ''
    return 'POther', 0, f'returns `{ast.unparse(v)[:80]}`'


_CACHE: dict[str, Any] = {}


def analyse() -> dict[str, Any]:
    text = src_text('math.py')
    if _CACHE.get('text') == text:
        return _CACHE
    tree = ast.parse(text)
    C = tr.Classes(tree)
    strings = _module_strings(tree)
    for c in CLASSES:
        if c not in C.cls:
            raise TranslateError(f'class {c} not found in math.py')
    # no in-place method may be installed from outside the class bodies
    for n in ast.walk(tree):
        if isinstance(n, ast.Call) and isinstance(n.func, ast.Name) and n.func.id in ('setattr', 'delattr') and len(n.args) >= 2 \
                and isinstance(n.args[1], ast.Constant) and n.args[1].value in INPLACE_NAMES:
            raise TranslateError(f'line {n.lineno}: an in-place method is installed with {n.func.id}')
        if isinstance(n, (ast.Assign, ast.AugAssign, ast.AnnAssign, ast.Delete)):
            tgts = n.targets if isinstance(n, (ast.Assign, ast.Delete)) else [n.target]
            for t in tgts:
                for sub in ast.walk(t):
                    if isinstance(sub, ast.Attribute) and sub.attr in INPLACE_NAMES:
                        raise TranslateError(f'line {n.lineno}: an in-place method is assigned or deleted')
    defs: dict[str, dict[str, tuple[ast.FunctionDef, str]]] = {}
    for c in CLASSES:
        d: dict[str, tuple[ast.FunctionDef, str]] = {}
        for fn, origin in class_defs(C.cls[c], strings):
            if fn.name in INPLACE_NAMES:
                if fn.decorator_list:
                    raise TranslateError(f'{c}.{fn.name} is decorated')
                d[fn.name] = (fn, origin)        # a later definition replaces an earlier one, as in Python
        defs[c] = d
    known = {id(fn) for d in defs.values() for fn, o in d.values() if o == 'def'}
    stubs: set[int] = set()
    for c in CLASSES:
        for p in ast.walk(C.cls[c]):
            if isinstance(p, ast.If) and isinstance(p.test, ast.Name) and p.test.id == 'TYPE_CHECKING':
                for s in p.body:
                    stubs.update(id(x) for x in ast.walk(s) if isinstance(x, ast.FunctionDef))
    shadowed = {id(fn) for c in CLASSES for fn, o in class_defs(C.cls[c], strings) if o == 'def'}
    for n in ast.walk(tree):
        if isinstance(n, (ast.FunctionDef, ast.AsyncFunctionDef)) and n.name in INPLACE_NAMES and id(n) not in known \
                and id(n) not in stubs and id(n) not in shadowed and not (isinstance(n, ast.FunctionDef) and _is_overload(n)):
            raise TranslateError(f'line {n.lineno}: {n.name} is defined outside the bodies of the nine operand classes')
    rows: list[dict] = []
    for c in CLASSES:
        for name, (fn, origin) in sorted(defs[c].items()):
            paths = []
            for _conds, stmts in tr.enum_paths(fn.body, f'{c}.{name}'):
                kind, n, why = classify_path(C, fn, stmts)
                paths.append({'kind': kind, 'stores': n, 'why': why})
            reach = [k for k in (MUTABLE + FROZEN) if c in C.mro(k)]
            rows.append({'cls': c, 'name': name, 'origin': origin, 'paths': paths,
                         'mutable': bool(reach) and all(k in MUTABLE for k in reach), 'reached_from': reach,
                         'frozen_reach': any(k in FROZEN for k in reach)})
    runtime = {c: sorted(defs[c]) for c in CLASSES}
    _CACHE.update(text=text, rows=rows, runtime=runtime)
    return _CACHE


def coq_path(p: dict) -> str:
    return f'(PSelf {p["stores"]})' if p['kind'] == 'PSelf' else p['kind']


def translate_inplace() -> tuple[str, dict]:
    A = analyse()
    out = ['(* GENERATED by translate/c04_inplace.py from src/srctools/math.py (in-place operator census). Do not edit. *)',
           'From Coq Require Import List String.', 'From SV Require Import Rot.RotInplace.', 'Import ListNotations.',
           'Open Scope string_scope.', '', 'Definition inplace_census : list imeth := [']
    items = []
    for r in A['rows']:
        items.append(f'  IMeth "{r["cls"]}" "{r["name"]}" {"true" if r["mutable"] else "false"} '
                     f'{"true" if r["frozen_reach"] else "false"} [' + '; '.join(coq_path(p) for p in r['paths']) + ']')
    out.append(';\n'.join(items))
    out += ['].', '']
    return '\n'.join(out), {'inplace_methods': [{k: v for k, v in r.items()} for r in A['rows']], 'per_class': A['runtime']}


GEN = {'RotInplace_gen': translate_inplace}


# =============================================================================================== in-place rotation methods
# Vec.localise / Vec.transform() / Angle.transform() / Vec.rotate, executed symbolically with the object language of the @
# dispatch (translate/c04_formulas.py: Dispatch) plus: module-level helper functions (to_matrix) inlined, `x is None`,
# parameters bound to concrete booleans, `yield m` (the body of the with block is `m @= rot`, run through the real
# Matrix.__imatmul__), `self.__iadd__(origin)`, Matrix(), m.to_angle(), and field-by-field copies `self._f = other._f`.
# Output: Gen/RotMethods_gen.v, one row per (method, kind of the rotation argument) with the final value of the receiver.
class MethodExec(tr.Dispatch):
    def __init__(self, C: tr.Classes, F: dict[str, Any], tree: ast.Module) -> None:
        super().__init__(C, F)
        self.funcs = {n.name: n for n in tree.body if isinstance(n, ast.FunctionDef)}
        self.yielded: list[Any] = []
        self.rot: Any = None
        self.stores: dict[int, dict[str, tuple[Any, str]]] = {}

    def cond(self, n: ast.expr, env: dict) -> bool:
        if isinstance(n, ast.Compare) and len(n.ops) == 1 and isinstance(n.ops[0], (ast.Is, ast.IsNot)) \
                and isinstance(n.comparators[0], ast.Constant) and n.comparators[0].value is None:
            v = self.ev(n.left, env)
            return (v == ('none',)) == isinstance(n.ops[0], ast.Is)
        if isinstance(n, ast.Name) and isinstance(env.get(n.id), bool):
            return env[n.id]
        if isinstance(n, ast.Call) and isinstance(n.func, ast.Name) and n.func.id == 'isinstance' and len(n.args) == 2:
            o = self.ev(n.args[0], env)
            if o == ('none',):
                return False
        return super().cond(n, env)

    def ev(self, n: ast.expr, env: dict) -> Any:
        if isinstance(n, ast.Name) and n.id in env:
            return env[n.id]
        if isinstance(n, ast.Call) and not n.keywords:
            f = n.func
            if isinstance(f, ast.Name) and f.id in self.funcs and f.id not in env:
                return self.call_function(self.funcs[f.id], [self.ev(a, env) for a in n.args], n)
            if isinstance(f, ast.Name) and self.C.name(f.id) == 'Matrix' and not n.args:
                return self.fresh('Matrix', ('Ident',))
            if isinstance(f, ast.Name) and self.C.name(f.id) == 'Angle' and len(n.args) == 3:
                vals = [self.ev(a, env) for a in n.args]
                if vals == [('float', 'pitch'), ('float', 'yaw'), ('float', 'roll')]:
                    return self.rot             # Angle(pitch, yaw, roll) of the three float parameters: the rotation argument
                self.err(n, 'Angle(...) of something else than the pitch, yaw, roll parameters')
            if isinstance(f, ast.Attribute) and f.attr == 'to_angle' and not n.args:
                recv = self.obj(f.value, env)
                if tr.KIND.get(recv.cls) == 'M':
                    return self.call(recv, 'to_angle', [], n)
        return super().ev(n, env)

    def call_function(self, fn: ast.FunctionDef, args: list[Any], at: ast.AST) -> Any:
        ps = tr._params(fn)
        if len(ps) != len(args):
            self.err(at, f'{fn.name}: arity')
        env0 = dict(zip(ps, args))
        chosen = None
        for conds, stmts in tr.enum_paths(fn.body, fn.name):
            try:
                ok = all(self.cond(t, env0) == taken for t, taken in conds)
            except TranslateError:
                ok = False
            if ok:
                if chosen is not None:
                    self.err(fn, 'two paths are enabled')
                chosen = stmts
        if chosen is None:
            self.err(fn, f'{fn.name}: no path enabled')
        self.trace.append(fn.name)
        return self.run(chosen, env0)

    def run_method(self, stmts: list[ast.stmt], env: dict, me: tr.DObj) -> Any:
        """Like Dispatch.run, plus yield / __iadd__ / field copies; a method may fall off its end (returns None)."""
        for s in stmts:
            if isinstance(s, ast.Expr) and isinstance(s.value, ast.Yield) and s.value.value is not None:
                m = self.obj(s.value.value, env)
                self.yielded.append(m)
                if self.rot is not None:                       # the with block: `m @= rot`
                    res = self.binop('imatmul', m, self.rot, s)
                    if res is not m:
                        self.err(s, 'the yielded matrix is not updated in place by @=')
                continue
            if isinstance(s, ast.Expr) and isinstance(s.value, ast.Call) and isinstance(s.value.func, ast.Attribute) \
                    and s.value.func.attr == '__iadd__' and len(s.value.args) == 1:
                recv, arg = self.obj(s.value.func.value, env), self.obj(s.value.args[0], env)
                if tr.KIND.get(recv.cls) != 'V' or tr.KIND.get(arg.cls) != 'V':
                    self.err(s, '__iadd__ of non-vectors')
                recv.val = ('VecAdd', recv.val, arg.val)
                continue
            if isinstance(s, ast.AugAssign) and isinstance(s.op, ast.Add) and isinstance(s.target, ast.Name):
                recv, arg = self.obj(s.target, env), self.obj(s.value, env)      # `v += origin` is v.__iadd__(origin)
                if tr.KIND.get(recv.cls) != 'V' or recv.cls != 'Vec' or tr.KIND.get(arg.cls) != 'V':
                    self.err(s, '+= of something else than a mutable vector and a vector')
                recv.val = ('VecAdd', recv.val, arg.val)
                continue
            if isinstance(s, ast.Assign) and len(s.targets) == 1 and isinstance(s.targets[0], ast.Attribute) \
                    and isinstance(s.value, ast.Attribute):
                tgt, src = self.obj(s.targets[0].value, env), self.obj(s.value.value, env)
                self.stores.setdefault(id(tgt), {})[tr._fld(s.targets[0].attr)] = (src, tr._fld(s.value.attr))
                fields = tr.ANG_FIELDS if tr.KIND.get(tgt.cls) == 'A' else tr.VEC_FIELDS
                got = self.stores[id(tgt)]
                if set(got) == set(fields):
                    if all(got[f][0] is src and got[f][1] == f for f in fields) and tr.KIND.get(src.cls) == tr.KIND.get(tgt.cls):
                        tgt.val = src.val
                        tgt.partial = False        # type: ignore[attr-defined]
                    else:
                        self.err(s, 'field-by-field copy mixes fields or sources')
                else:
                    tgt.partial = True             # type: ignore[attr-defined]
                continue
            if isinstance(s, ast.If):
                branch = s.body if self.cond(s.test, env) else s.orelse
                r = self.run_method(list(branch), env, me)
                if r is not None:
                    return r
                continue
            if isinstance(s, ast.Return):
                return ('returned', self.ev(s.value, env) if s.value is not None else ('none',))
            if tr._is_docstring(s):
                continue
            # everything else: one statement of the dispatch language
            try:
                self.run([s, ast.Return(value=ast.Name(id='NotImplemented', ctx=ast.Load()))], env)
            except TranslateError:
                raise
        return None


METHODS = [('Vec', 'localise', 'MLocalise', ['Matrix', 'FrozenMatrix', 'Angle', 'FrozenAngle', 'None']),
           ('Vec', 'transform', 'MVecTransform', ['Matrix', 'FrozenMatrix', 'Angle', 'FrozenAngle']),
           ('Angle', 'transform', 'MAngTransform', ['Matrix', 'FrozenMatrix', 'Angle', 'FrozenAngle']),
           ('Vec', 'rotate', 'MRotate', ['Angle'])]


def mterm_coq(t: Any, names: dict[int, str]) -> str:
    k = t[0]
    if k in ('L', 'R', 'O'):
        return {'L': 'MSelf', 'R': 'MRot', 'O': 'MOrigin'}[k]
    if k == 'Ident':
        return 'MIdent'
    if k in ('FromAngle', 'ToAngle'):
        return f'(M{k} {mterm_coq(t[1], names)})'
    if k in ('MatMul', 'VecRot', 'VecAdd'):
        return f'(M{k} {mterm_coq(t[1], names)} {mterm_coq(t[2], names)})'
    raise TranslateError(f'in-place methods: term {t!r} is outside the method language')


def method_rows() -> list[dict]:
    text = src_text('math.py')
    tree = ast.parse(text)
    C = tr.Classes(tree)
    F = tr.analyse()['F']
    rows = []
    for cls, name, coq, kinds in METHODS:
        found = C.method(cls, name)
        if found is None:
            raise TranslateError(f'{cls}.{name} not found')
        fn = found[1]
        for d in fn.decorator_list:
            dn = ast.unparse(d)
            if not (dn.startswith('deprecated(') or dn in ('contextlib.contextmanager', 'contextmanager')):
                raise TranslateError(f'{cls}.{name}: unknown decorator {dn}')
        is_cm = any(ast.unparse(d).endswith('contextmanager') for d in fn.decorator_list)
        ps = [a.arg for a in fn.args.posonlyargs + fn.args.args]
        for rc in kinds:
            ex = MethodExec(C, F, tree)
            me = tr.DObj(cls, ('L',), 'L')
            rot = ('none',) if rc == 'None' else tr.DObj(rc, ('R',), 'R')
            ex.rot = None if rc == 'None' else rot
            env: dict[str, Any] = {ps[0]: me}
            if name == 'localise':
                if ps[1:] != ['origin', 'angles']:
                    raise TranslateError(f'Vec.localise: parameters {ps}')
                env.update(origin=tr.DObj('Vec', ('O',), 'O'), angles=rot)
            elif name == 'rotate':
                if ps[1:] != ['pitch', 'yaw', 'roll', 'round_vals']:
                    raise TranslateError(f'Vec.rotate: parameters {ps}')
                env.update(pitch=('float', 'pitch'), yaw=('float', 'yaw'), roll=('float', 'roll'), round_vals=False)
            elif len(ps) != 1:
                raise TranslateError(f'{cls}.{name}: parameters {ps}')
            body = [s for s in fn.body if not tr._is_docstring(s)]
            res = ex.run_method(body, env, me)
            if getattr(me, 'partial', False):
                raise TranslateError(f'{cls}.{name}: the receiver is updated field by field and not all fields are stored')
            if is_cm:
                result_ok = len(ex.yielded) == 1 and res is None
            elif name == 'rotate':
                result_ok = res == ('returned', me)
            else:
                result_ok = res is None or res == ('returned', ('none',))
            rows.append({'cls': cls, 'name': name, 'coq': coq, 'rot': rc, 'result_ok': result_ok, 'final_self': me.val,
                         'final_rot': ('R',) if rc == 'None' else rot.val})
    return rows


def translate_methods() -> tuple[str, dict]:
    rows = method_rows()
    out = ['(* GENERATED by translate/c04_inplace.py from src/srctools/math.py (in-place rotation methods). Do not edit. *)',
           'From Coq Require Import List.', 'From SV Require Import Rot.RotMethods.', 'Import ListNotations.', '',
           'Definition method_table : list mrow := [']
    items = []
    side = []
    for r in rows:
        k = {'M': 'RMatrix', 'A': 'RAngle'}.get(tr.KIND.get(r['rot'], ''), 'RNone')
        s, f = mterm_coq(r['final_self'], {}), mterm_coq(r['final_rot'], {})
        items.append(f'  MRow {r["coq"]} {k} {"true" if r["result_ok"] else "false"} {s} {f}')
        side.append({'method': f'{r["cls"]}.{r["name"]}', 'rotation_argument': r['rot'], 'receiver_finally': s, 'result_ok': r['result_ok']})
    out.append(';\n'.join(items))
    out += ['].', '']
    return '\n'.join(out), {'rows': side}


GEN['RotMethods_gen'] = translate_methods


# =============================================================================================== matrix copies / conversions
COPY_METHODS = [('Matrix', 'copy', 'CCopy'), ('FrozenMatrix', 'copy', 'CCopy'), ('Matrix', '__deepcopy__', 'CDeepcopy'),
                ('FrozenMatrix', '__deepcopy__', 'CDeepcopy'), ('Matrix', 'freeze', 'CFreeze'), ('FrozenMatrix', 'thaw', 'CThaw'),
                ('Matrix', '_new_copy', 'CNewCopy'), ('FrozenMatrix', '_new_copy', 'CNewCopy')]


def translate_copies() -> tuple[str, dict]:
    """copy / __deepcopy__ / freeze / thaw / _new_copy of the two matrix classes, each classified by symbolic execution
    (translate/c04_formulas.py: classify_copy): `return self`, or a new matrix with the receiver's nine slots field for field
    (anything else fails closed)."""
    tree = ast.parse(src_text('math.py'))
    C = tr.Classes(tree)
    F = {'copy_kind': {}}
    rows, side = [], []
    for cls, meth, coq in COPY_METHODS:
        for a in C.cls[cls].body:       # `__copy__ = copy` style aliases are fine; an assignment to the method itself is not
            if isinstance(a, ast.Assign) and any(isinstance(t, ast.Name) and t.id == meth for t in a.targets):
                raise TranslateError(f'{cls}.{meth} is assigned, not defined')
        how, k = tr.classify_copy(C, F, cls, meth)
        rows.append(f'  CRow {"true" if cls == "FrozenMatrix" else "false"} {coq} {"true" if how == "alias" else "false"} '
                    f'{"true" if k == "FrozenMatrix" else "false"}')
        side.append({'method': f'{cls}.{meth}', 'returns': how, 'class': k})
    out = ['(* GENERATED by translate/c04_inplace.py from src/srctools/math.py (matrix copies). Do not edit. *)',
           'From Coq Require Import List.', 'From SV Require Import Rot.RotCopies.', 'Import ListNotations.', '',
           'Definition copy_table : list crow := [', ';\n'.join(rows), '].', '']
    return '\n'.join(out), {'rows': side}


GEN['RotCopies_gen'] = translate_copies
