"""C07 translator: Entity.__delitem__ as written  ->  Gen/IndexDel_gen.v
(types and semantics: rocq/SM/IndexDel.v; theorem: rocq/SM/IndexDelProofs.v [del_item_pg_ok]).

  gen_delitem_maint   the statements between `key = key.casefold()` and the lookup loop as a maintenance program
                      (SM/IndexMaint.v [mprog], translated by the same continuation-passing walk as the maintenance
                      part of __setitem__): the by_target update of the targetname branch (the removal key must be the
                      entity's current targetname read through __getitem__, folded, `or None`; the addition goes to
                      by_target[None]), its membership test, `raise KeyError` for the classname.  The order of
                      independent `if`s does not matter (path obligations).
  gen_delitem_loop    the lookup loop `for k in self._keys: if <k> == <key>: <pop>; ...; break` as a shape: is the
                      stored key folded, is the key folded, which spelling is popped.

  gen_clear           Entity.clear as a straight-line list of steps (SM/IndexClear.v [cstep]): the classname reset through
                      __setitem__ (value: 'worldspawn' if self is self.map.spawn else 'info_null'), `del self['<key>']`
                      statements, `self._keys.clear()`, the direct store of the classname.

Fail-closed: the tuple form must be exactly `if isinstance(key, tuple): for k in key: del self[k]; return`; a `return`
before the loop, a store through `self[...]`, a use of `_keys` before the loop, a statement after the loop that is not
irrelevant to the indexes, or any unrecognised statement raises TranslateError.
"""
from __future__ import annotations

import ast

from harness.common import SRC, TranslateError
from translate.c07_index_shapes import _MaintTr, _coq_str, _find, _strip_doc, _is_self, _is_self_keys, _mentions_keys


class _DelTr(_MaintTr):
    def __init__(self, where: str, key_param: str, folded: bool) -> None:   # noqa: super().__init__ is for __setitem__
        self.where = where
        self.key_param = key_param
        self.folded = folded
        self.ov = None          # type: ignore[assignment]
        self.newvar = None
        self.conds = {}
        self.keys = {}

    def _is_key_fold(self, e: ast.expr) -> bool:
        if isinstance(e, ast.Name) and e.id == self.key_param:
            return self.folded
        if isinstance(e, ast.Call) and isinstance(e.func, ast.Attribute) and e.func.attr == 'casefold' and not e.args \
                and not e.keywords and isinstance(e.func.value, ast.Name) and e.func.value.id == self.key_param:
            return True
        return False

    def _is_new_fold(self, e: ast.expr) -> bool:
        return False

    @staticmethod
    def _current(e: ast.expr, want: str) -> bool:
        """self['<want>'] / self['<want>', ''] / self.get('<want>'[, ''])"""
        k = None
        if isinstance(e, ast.Subscript) and _is_self(e.value):
            k = e.slice
            if isinstance(k, ast.Tuple) and len(k.elts) == 2 and isinstance(k.elts[1], ast.Constant) and k.elts[1].value == '':
                k = k.elts[0]
        elif isinstance(e, ast.Call) and isinstance(e.func, ast.Attribute) and e.func.attr == 'get' and _is_self(e.func.value) \
                and not e.keywords and 1 <= len(e.args) <= 2 and (len(e.args) == 1 or (isinstance(e.args[1], ast.Constant) and e.args[1].value == '')):
            k = e.args[0]
        return isinstance(k, ast.Constant) and k.value == want

    def key(self, e: ast.expr, target: bool, w: str) -> str:
        if isinstance(e, ast.Name) and e.id in self.keys:
            kind, k = self.keys[e.id]
            if kind != ('t' if target else 'c'):
                raise TranslateError(f'{w}: key local {e.id} used for the wrong index')
            return k
        if not target:
            raise TranslateError(f'{w}: __delitem__ updates by_class ({ast.unparse(e)})')
        if isinstance(e, ast.Constant) and e.value is None:
            return '(MKLit [])'
        if isinstance(e, ast.BoolOp) and isinstance(e.op, ast.Or) and len(e.values) == 2 \
                and isinstance(e.values[1], ast.Constant) and e.values[1].value is None:
            v = self._folded(e.values[0])
            if v is not None and self._current(v, 'targetname'):
                return 'MKOrig'          # the current targetname plays the part of the previous value
        raise TranslateError(f'{w}: by_target key is neither None nor `self["targetname"].casefold() or None`: {ast.unparse(e)}')

    def block(self, stmts: list[ast.stmt], k: str, other: bool) -> str:
        if stmts:
            st = stmts[0]
            w = f'{self.where}:{st.lineno}'
            if isinstance(st, ast.Return):
                raise TranslateError(f'{w}: return before the lookup loop')
            if _mentions_keys(st) and not isinstance(st, ast.If):
                raise TranslateError(f'{w}: _keys used before the lookup loop')
            if isinstance(st, ast.If) and _mentions_keys(st.test):
                raise TranslateError(f'{w}: _keys used before the lookup loop')
            if isinstance(st, (ast.Assign, ast.AugAssign, ast.Delete)):
                tg = st.targets if isinstance(st, (ast.Assign, ast.Delete)) else [st.target]
                if any(isinstance(t, ast.Subscript) and _is_self(t.value) for t in tg):
                    raise TranslateError(f'{w}: a keyvalue is stored / deleted through self[...] before the lookup loop')
        return super().block(stmts, k, other)


def _delitem(fn: ast.FunctionDef) -> tuple[str, dict]:
    where = f'Entity.__delitem__:{fn.lineno}'
    params = [a.arg for a in fn.args.args]
    if len(params) != 2 or params[0] != 'self' or fn.args.vararg or fn.args.kwarg or fn.args.kwonlyargs:
        raise TranslateError(f'{where}: unexpected parameters {params}')
    kp = params[1]
    body = _strip_doc(fn.body)

    def is_kp(e: ast.AST) -> bool:
        return isinstance(e, ast.Name) and e.id == kp

    # -- the tuple form: each key through __delitem__, then return
    tuple_form = False
    if body and isinstance(body[0], ast.If) and any(isinstance(n, ast.Name) and n.id == 'isinstance' for n in ast.walk(body[0].test)):
        st = body[0]
        t = st.test
        ok = (isinstance(t, ast.Call) and isinstance(t.func, ast.Name) and t.func.id == 'isinstance' and len(t.args) == 2
              and is_kp(t.args[0]) and isinstance(t.args[1], ast.Name) and t.args[1].id == 'tuple' and not st.orelse
              and len(st.body) == 2 and isinstance(st.body[1], ast.Return) and st.body[1].value is None
              and isinstance(st.body[0], ast.For) and not st.body[0].orelse and isinstance(st.body[0].target, ast.Name)
              and is_kp(st.body[0].iter) and len(st.body[0].body) == 1 and isinstance(st.body[0].body[0], ast.Delete)
              and len(st.body[0].body[0].targets) == 1)
        if ok:
            d = st.body[0].body[0].targets[0]      # type: ignore[union-attr]
            ok = isinstance(d, ast.Subscript) and _is_self(d.value) and isinstance(d.slice, ast.Name) and d.slice.id == st.body[0].target.id   # type: ignore[union-attr]
        if not ok:
            raise TranslateError(f'{where}: the tuple form is not `for k in key: del self[k]` followed by `return`')
        tuple_form = True
        body = body[1:]
    # -- key = key.casefold()
    folded = False
    if body and isinstance(body[0], ast.Assign) and len(body[0].targets) == 1 and is_kp(body[0].targets[0]):
        v = body[0].value
        if not (isinstance(v, ast.Call) and isinstance(v.func, ast.Attribute) and v.func.attr == 'casefold' and not v.args
                and not v.keywords and is_kp(v.func.value)):
            raise TranslateError(f'{where}: unrecognised assignment to {kp}: {ast.unparse(v)}')
        folded = True
        body = body[1:]
    for st in body:
        for n in ast.walk(st):
            if isinstance(n, (ast.Assign, ast.AugAssign, ast.AnnAssign, ast.For, ast.NamedExpr)):
                tg = n.targets if isinstance(n, ast.Assign) else [n.target]
                if any(is_kp(x) for t in tg for x in ast.walk(t)):
                    raise TranslateError(f'{where}:{n.lineno}: {kp} is re-assigned')
    # -- the lookup loop
    loops = [i for i, st in enumerate(body) if isinstance(st, ast.For) and _is_self_keys(st.iter)]
    if len(loops) != 1:
        raise TranslateError(f'{where}: expected exactly one `for k in self._keys` loop, found {len(loops)}')
    li = loops[0]
    loop: ast.For = body[li]   # type: ignore[assignment]
    w = f'{where}:{loop.lineno}'
    if not isinstance(loop.target, ast.Name) or loop.orelse or len(loop.body) != 1 or not isinstance(loop.body[0], ast.If) or loop.body[0].orelse:
        raise TranslateError(f'{w}: the lookup loop is not `for k in self._keys: if ...:`')
    kvar = loop.target.id
    test = loop.body[0].test
    if not (isinstance(test, ast.Compare) and len(test.ops) == 1 and isinstance(test.ops[0], ast.Eq)):
        raise TranslateError(f'{w}: lookup test is not an equality')

    def side(e: ast.expr) -> tuple[str, bool]:
        f = False
        if isinstance(e, ast.Call) and isinstance(e.func, ast.Attribute) and e.func.attr == 'casefold' and not e.args and not e.keywords:
            e, f = e.func.value, True
        if isinstance(e, ast.Name) and e.id == kvar:
            return 'stored', f
        if is_kp(e):
            return 'key', f or folded
        raise TranslateError(f'{w}: unrecognised test operand {ast.unparse(e)}')
    s0, s1 = side(test.left), side(test.comparators[0])
    if {s0[0], s1[0]} != {'stored', 'key'}:
        raise TranslateError(f'{w}: lookup test does not compare a stored key with the given key')
    fold_stored = s0[1] if s0[0] == 'stored' else s1[1]
    key_folded = s0[1] if s0[0] == 'key' else s1[1]
    hit = list(loop.body[0].body)
    if not hit or not isinstance(hit[-1], ast.Break):
        raise TranslateError(f'{w}: the matching branch of the lookup loop does not end in `break`')
    pops: list[str] = []
    for st in hit[:-1]:
        popped: ast.expr | None = None
        val = st.value if isinstance(st, (ast.Expr, ast.Assign, ast.AnnAssign)) else None
        if isinstance(val, ast.Call) and isinstance(val.func, ast.Attribute) and val.func.attr == 'pop' and _is_self_keys(val.func.value):
            if not val.args or val.keywords:
                raise TranslateError(f'{w}: unrecognised _keys.pop call')
            if isinstance(st, (ast.Assign, ast.AnnAssign)):
                tg = st.targets if isinstance(st, ast.Assign) else [st.target]
                if not all(isinstance(t, ast.Name) and t.id not in (kp, kvar) for t in tg):
                    raise TranslateError(f'{w}: unrecognised target of the popped value')
            popped = val.args[0]
        elif isinstance(st, ast.Delete) and len(st.targets) == 1 and isinstance(st.targets[0], ast.Subscript) and _is_self_keys(st.targets[0].value):
            popped = st.targets[0].slice
        if popped is not None:
            if isinstance(popped, ast.Name) and popped.id == kvar:
                pops.append('KStored')
            elif is_kp(popped):
                pops.append('KCaller')
            else:
                raise TranslateError(f'{w}: unrecognised popped key {ast.unparse(popped)}')
            continue
        if _mentions_keys(st) or not _MaintTr._irrelevant(st) or any(isinstance(n, (ast.Break, ast.Continue)) for n in ast.walk(st)):
            raise TranslateError(f'{w}: unrecognised statement in the matching branch: {ast.unparse(st)[:80]}')
    if len(pops) != 1:
        raise TranslateError(f'{w}: expected exactly one pop of the matching key, found {len(pops)}')
    for st in body[li + 1:]:
        if _mentions_keys(st) or not _MaintTr._irrelevant(st):
            raise TranslateError(f'{where}:{st.lineno}: unrecognised statement after the lookup loop: {ast.unparse(st)[:80]}')
    tr = _DelTr(where, kp, folded)
    prog = tr.block(list(body[:li]), 'MSkip', False)
    b = lambda x: 'true' if x else 'false'   # noqa: E731
    coq = (f'Definition gen_delitem_maint : mprog :=\n  {prog}.\n'
           f'Definition gen_delitem_loop : del_loop := DL {b(fold_stored)} {b(key_folded)} {pops[0]}.\n'
           f'Definition gen_delitem_tuple_form : bool := {b(tuple_form)}.\n')
    return coq, dict(prog=prog, fold_stored=fold_stored, key_folded=key_folded, pop_by=pops[0], tuple_form=tuple_form)


def _clear(fn: ast.FunctionDef) -> tuple[str, dict]:
    """Entity.clear as a straight-line list of steps (SM/IndexClear.v [cstep])."""
    where = f'Entity.clear:{fn.lineno}'
    params = [a.arg for a in fn.args.args]
    if params != ['self'] or fn.args.vararg or fn.args.kwarg or fn.args.kwonlyargs:
        raise TranslateError(f'{where}: unexpected parameters {params}')
    cvar: str | None = None
    steps: list[str] = []

    def lit(e: ast.AST, s: str) -> bool:
        return isinstance(e, ast.Constant) and e.value == s

    def is_spawn_test(t: ast.expr) -> bool | None:
        """True: `self is self.map.spawn`, False: its negation, None: something else"""
        if isinstance(t, ast.Compare) and len(t.ops) == 1 and isinstance(t.ops[0], (ast.Is, ast.IsNot)):
            a, b = t.left, t.comparators[0]
            sp = lambda x: (isinstance(x, ast.Attribute) and x.attr == 'spawn' and isinstance(x.value, ast.Attribute)   # noqa: E731
                            and x.value.attr == 'map' and _is_self(x.value.value))
            if (_is_self(a) and sp(b)) or (_is_self(b) and sp(a)):
                return isinstance(t.ops[0], ast.Is)
        return None

    def is_class_value(e: ast.expr) -> bool:
        """the name bound to 'worldspawn' if self is self.map.spawn else 'info_null' (or that expression itself)"""
        if isinstance(e, ast.Name):
            return cvar is not None and e.id == cvar
        if isinstance(e, ast.IfExp):
            s = is_spawn_test(e.test)
            if s is True:
                return lit(e.body, 'worldspawn') and lit(e.orelse, 'info_null')
            if s is False:
                return lit(e.body, 'info_null') and lit(e.orelse, 'worldspawn')
        return False

    for st in _strip_doc(fn.body):
        w = f'{where}:{st.lineno}'
        if isinstance(st, ast.Pass):
            continue
        if isinstance(st, ast.AnnAssign) and st.value is not None:
            st = ast.Assign(targets=[st.target], value=st.value, lineno=st.lineno)
        if isinstance(st, ast.Assign) and len(st.targets) == 1:
            t, v = st.targets[0], st.value
            if isinstance(t, ast.Name) and cvar is None and isinstance(v, ast.IfExp) and is_class_value(v):
                cvar = t.id
                continue
            if isinstance(t, ast.Subscript) and _is_self(t.value):
                if lit(t.slice, 'classname') and is_class_value(v):
                    steps.append('CSetClass')
                    continue
                raise TranslateError(f'{w}: unrecognised store through self[...]: {ast.unparse(st)[:80]}')
            if isinstance(t, ast.Subscript) and _is_self_keys(t.value):
                if lit(t.slice, 'classname') and is_class_value(v):
                    steps.append('CStoreClass')
                    continue
                raise TranslateError(f'{w}: unrecognised direct store into _keys: {ast.unparse(st)[:80]}')
        if isinstance(st, ast.Delete):
            for t in st.targets:
                if isinstance(t, ast.Subscript) and _is_self(t.value) and isinstance(t.slice, ast.Constant) and isinstance(t.slice.value, str) \
                        and t.slice.value.isascii():
                    steps.append('CDelKey ' + _coq_str(t.slice.value))
                else:
                    raise TranslateError(f'{w}: unrecognised del statement {ast.unparse(st)[:80]}')
            continue
        if isinstance(st, ast.Expr) and isinstance(st.value, ast.Call) and isinstance(st.value.func, ast.Attribute) \
                and st.value.func.attr == 'clear' and _is_self_keys(st.value.func.value) and not st.value.args and not st.value.keywords:
            steps.append('CKeysClear')
            continue
        if _mentions_keys(st) or not _MaintTr._irrelevant(st) or any(isinstance(n, ast.Name) and n.id == cvar for n in ast.walk(st) if isinstance(getattr(n, 'ctx', None), ast.Store)):
            raise TranslateError(f'{w}: unrecognised statement {ast.unparse(st)[:80]}')
    lst = '[' + '; '.join(f'({s})' if ' ' in s else s for s in steps) + ']'
    return f'Definition gen_clear : list cstep := {lst}.\n', dict(steps=steps)


def translate() -> tuple[str, dict]:
    path = SRC / 'vmf.py'
    try:
        tree = ast.parse(path.read_text(encoding='utf8'))
    except SyntaxError as e:
        raise TranslateError(f'vmf.py: {e}') from None
    c, s = _delitem(_find(tree, 'Entity', '__delitem__'))
    c2, s2 = _clear(_find(tree, 'Entity', 'clear'))
    text = ('(* GENERATED by translate/c07_index_del.py from /repo/src/srctools/vmf.py. Do not edit. *)\n'
            'From stdpp Require Import list.\nFrom Coq Require Import NArith.\n'
            'From SV Require Import SM.IndexModel SM.IndexShapes SM.IndexMaint SM.IndexDel SM.IndexClear.\n\n' + c + '\n' + c2)
    return text, {'delitem': s, 'clear': s2}


GEN = {'IndexDel_gen': translate}
