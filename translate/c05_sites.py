"""C05 translator: math.py -> Gen/AngleSites_gen.v.

Regenerated on every run (fail-closed):

  * angle_sites      every store to an attribute `_pitch` / `_yaw` / `_roll` anywhere under src/srctools, with its
                     right-hand side classified  Double360 | Single360 | CopyFromAngle | ConstZero | Other
                     (plus every setattr/__setattr__/__setstate__/__dict__ use that could write such a slot);
  * format_float_cfg the shape of the format_float pipeline (x+0.0?, '.{places}f', default places, zero stripping,
                     the '-0' -> '0' repair) and whether VecBase.__str__/AngleBase.__str__/join/repr use it with
                     default places and plain separators;
  * mut_events       census of object mutations in every method of Vec/Angle/Matrix and their base/frozen classes
                     (including the exec()-templates): which object is written (receiver, parameter, result of
                     self.copy(), fresh object ...) -> obligations "no method that can run on a frozen receiver
                     writes it" and "no method writes a parameter or the result of copy() of one".
"""
from __future__ import annotations

import ast
import re

from harness.common import SRC, TranslateError, ast_digest, src_text

FIELDS = ('_pitch', '_yaw', '_roll')
CLASSES = ('VecBase', 'FrozenVec', 'Vec', 'MatrixBase', 'FrozenMatrix', 'Matrix', 'AngleBase', 'FrozenAngle', 'Angle')
FROZEN_REACHABLE = ('VecBase', 'FrozenVec', 'MatrixBase', 'FrozenMatrix', 'AngleBase', 'FrozenAngle')
MUTABLE_CTORS = {'Py_Vec', 'Vec', 'Py_Angle', 'Angle', 'Py_Matrix', 'Matrix'}
FROZEN_CTORS = {'Py_FrozenVec', 'FrozenVec', 'Py_FrozenAngle', 'FrozenAngle', 'Py_FrozenMatrix', 'FrozenMatrix'}
FRESH_CLASSMETHODS = {'from_angle', 'from_basis', 'from_pitch', 'from_yaw', 'from_roll', 'axis_angle', 'from_angstr',
                      '_from_raw', 'from_str', 'with_axes'}
FRESH_METHODS = {'to_angle', 'thaw', 'freeze', 'transpose', 'inverse', 'norm', 'cross', 'forward', 'left', 'up', '_new_copy', '_rotate_angle'}
# methods that write their receiver / their first argument (the call is then a mutation event in the caller)
MUT_RECV = {'_mat_mul', '__iadd__', '__isub__', '__imul__', '__itruediv__', '__ifloordiv__', '__imod__', '__imatmul__',
            'min', 'max', 'localise', 'rotate', 'rotate_by_str', '__setitem__'}
MUT_ARG0 = {'_vec_rot', '_to_angle'}


def _is360(n: ast.AST) -> bool:
    return isinstance(n, ast.Constant) and type(n.value) in (int, float) and n.value == 360


def _single_bindings(fn: ast.AST | None) -> dict[str, ast.AST]:
    """Local names of a function that are bound exactly once, by a plain `name = expr` (not a parameter, no
    augmented assignment, not a loop/with/tuple target): their value can be substituted at a use."""
    if fn is None:
        return {}
    count: dict[str, int] = {}
    val: dict[str, ast.AST] = {}
    params = {a.arg for a in fn.args.posonlyargs + fn.args.args + fn.args.kwonlyargs}
    for node in ast.walk(fn):
        if isinstance(node, (ast.Global, ast.Nonlocal)):
            for n in node.names:
                count[n] = count.get(n, 0) + 2
        for t in _targets(node):
            if isinstance(t, ast.Name):
                count[t.id] = count.get(t.id, 0) + 1
                if isinstance(node, ast.Assign) and len(node.targets) == 1 and node.targets[0] is t:
                    val[t.id] = node.value
                elif isinstance(node, ast.AnnAssign) and node.target is t and node.value is not None:
                    val[t.id] = node.value
                else:
                    count[t.id] += 1
    return {n: v for n, v in val.items() if count.get(n) == 1 and n not in params}


def classify_rhs(v: ast.AST, env: dict[str, ast.AST] | None = None, depth: int = 0) -> str:
    if isinstance(v, ast.Name) and env and v.id in env and depth < 4:
        return classify_rhs(env[v.id], env, depth + 1)      # `p = e % 360 % 360; ang._pitch = p`
    if isinstance(v, ast.BinOp) and isinstance(v.op, ast.Mod) and _is360(v.right):
        inner = v.left
        if isinstance(inner, ast.BinOp) and isinstance(inner.op, ast.Mod) and _is360(inner.right):
            return 'Double360'
        return 'Single360'
    if isinstance(v, ast.Attribute) and v.attr in FIELDS and isinstance(v.value, ast.Name):
        return 'CopyFromAngle'
    if isinstance(v, ast.Constant) and type(v.value) in (int, float) and v.value == 0:
        return 'ConstZero'
    return 'Other'


def _walk_funcs(tree: ast.AST):
    """Yield (class_name or None, outermost function name or None, innermost function node or None, node)."""
    def walk(node, cls, fn, inner):
        for ch in ast.iter_child_nodes(node):
            if isinstance(ch, ast.ClassDef):
                yield from walk(ch, ch.name, None, None)
            elif isinstance(ch, (ast.FunctionDef, ast.AsyncFunctionDef)):
                yield cls, fn, inner, ch
                yield from walk(ch, cls, ch.name if fn is None else fn, ch)
            else:
                yield cls, fn, inner, ch
                yield from walk(ch, cls, fn, inner)
    yield from walk(tree, None, None, None)


def _targets(node: ast.AST):
    if isinstance(node, ast.Assign):
        for t in node.targets:
            yield from _flat(t)
    elif isinstance(node, (ast.AugAssign, ast.AnnAssign)):
        yield from _flat(node.target)
    elif isinstance(node, ast.Delete):
        for t in node.targets:
            yield from _flat(t)
    elif isinstance(node, (ast.For, ast.AsyncFor)):
        yield from _flat(node.target)
    elif isinstance(node, (ast.With, ast.AsyncWith)):
        for it in node.items:
            if it.optional_vars is not None:
                yield from _flat(it.optional_vars)
    elif isinstance(node, ast.NamedExpr):
        yield from _flat(node.target)


def _flat(t: ast.AST):
    if isinstance(t, (ast.Tuple, ast.List)):
        for e in t.elts:
            yield from _flat(e)
    elif isinstance(t, ast.Starred):
        yield from _flat(t.value)
    else:
        yield t


# ---------------------------------------------------------------------------------------------- angle stores
def angle_sites() -> tuple[list[tuple[str, str, int]], dict]:
    sites: list[tuple[str, str, int]] = []
    info: dict = {'other_files_with_angle_slots': []}
    files = sorted(p for p in SRC.rglob('*.py'))
    for p in files:
        text = p.read_text(encoding='utf8')
        rel = str(p.relative_to(SRC))
        if rel != 'math.py' and not re.search(r'_(pitch|yaw|roll)\b', text) and 'AngleBase' not in text:
            continue
        tree = ast.parse(text)
        if rel != 'math.py':
            info['other_files_with_angle_slots'].append(rel)
        envs: dict[int, dict[str, ast.AST]] = {}
        for cls, fn, fnode, node in _walk_funcs(tree):
            if id(fnode) not in envs:
                envs[id(fnode)] = _single_bindings(fnode)
            for t in _targets(node):
                if isinstance(t, ast.Attribute) and t.attr in FIELDS:
                    where = f'{rel}:{cls}.{fn}:{t.attr}'
                    if isinstance(node, ast.Assign) and len(node.targets) == 1 and node.targets[0] is t:
                        sites.append((where, classify_rhs(node.value, envs[id(fnode)]), node.lineno))
                    elif isinstance(node, ast.AnnAssign) and node.value is None:
                        continue        # a bare annotation `_pitch: float` in a class body stores nothing
                    else:
                        sites.append((where, 'Other', node.lineno))
            if rel == 'math.py' and isinstance(node, ast.Call):
                f = node.func
                nm = f.id if isinstance(f, ast.Name) else f.attr if isinstance(f, ast.Attribute) else None
                if nm in ('setattr', '__setattr__', 'delattr', '__delattr__'):
                    # only the matrix cell setter is known: setattr(self, _IND_TO_SLOT[item], ...)
                    ok = (nm == 'setattr' and len(node.args) == 3 and isinstance(node.args[1], ast.Subscript)
                          and isinstance(node.args[1].value, ast.Name) and node.args[1].value.id == '_IND_TO_SLOT')
                    if not ok:
                        sites.append((f'{rel}:{cls}.{fn}:{nm}', 'Other', node.lineno))
            if rel == 'math.py' and isinstance(node, ast.Attribute) and node.attr in ('__dict__', '__setstate__'):
                sites.append((f'{rel}:{cls}.{fn}:{node.attr}', 'Other', node.lineno))
            if rel == 'math.py' and isinstance(node, ast.FunctionDef) and node.name == '__setstate__':
                sites.append((f'{rel}:{cls}.__setstate__', 'Other', node.lineno))
        if rel == 'math.py':
            # _IND_TO_SLOT must only name matrix cells
            found = False
            for n in tree.body:
                tgt = n.target if isinstance(n, ast.AnnAssign) else n.targets[0] if isinstance(n, ast.Assign) else None
                if isinstance(tgt, ast.Name) and tgt.id == '_IND_TO_SLOT':
                    found = True
                    if not isinstance(n.value, ast.Dict):
                        raise TranslateError('_IND_TO_SLOT is not a dict literal')
                    for v in n.value.values:
                        if not (isinstance(v, ast.Constant) and isinstance(v.value, str) and re.fullmatch(r'_[abc][abc]', v.value)):
                            raise TranslateError(f'_IND_TO_SLOT has a value that is not a matrix cell (line {v.lineno})')
            if not found:
                raise TranslateError('_IND_TO_SLOT not found')
    if not any(s[0].startswith('math.py:') for s in sites):
        raise TranslateError('no store to _pitch/_yaw/_roll found in math.py')
    return sites, info


# ---------------------------------------------------------------------------------------------- angle creations
ANGLE_CTORS = {'Angle', 'Py_Angle', 'FrozenAngle', 'Py_FrozenAngle'}
ANGLE_CLASSES = ('AngleBase', 'Angle', 'FrozenAngle')
SLOT_OF_PROP = {'pitch': '_pitch', 'yaw': '_yaw', 'roll': '_roll'}


def _stored_slot(t: ast.AST, name: str, setters: set[str]) -> str | None:
    """`name._pitch = ...` or (through a property setter of Angle that stores the slot) `name.pitch = ...`."""
    if isinstance(t, ast.Attribute) and isinstance(t.value, ast.Name) and t.value.id == name:
        if t.attr in FIELDS:
            return t.attr
        if t.attr in setters:
            return SLOT_OF_PROP[t.attr]
    return None


def must_store(stmts: list[ast.stmt], name: str, setters: set[str], have: frozenset[str], exits: list[tuple[ast.AST | None, frozenset[str]]]):
    """Slots of `name` definitely stored on every path through stmts.  Returns the set at fall-through or None when
    every path leaves; every `return e` is appended to exits as (e, set).  Stores inside loops / try / with bodies do not
    count (they may not execute); a `raise` ends its path."""
    for st in stmts:
        if isinstance(st, ast.Return):
            exits.append((st.value, have))
            return None
        if isinstance(st, ast.Raise):
            return None
        if isinstance(st, ast.If):
            a = must_store(st.body, name, setters, have, exits)
            b = must_store(st.orelse, name, setters, have, exits)
            if a is None and b is None:
                return None
            have = b if a is None else a if b is None else (a & b)
            continue
        if isinstance(st, (ast.Assign, ast.AnnAssign)):
            for t in _targets(st):
                sl = _stored_slot(t, name, setters)
                if sl:
                    have = have | {sl}
                if isinstance(t, ast.Name) and t.id == name and have:
                    have = frozenset()           # the name is rebound: earlier stores went to another object
            continue
        if isinstance(st, (ast.For, ast.While, ast.Try, ast.With, ast.AsyncFor, ast.AsyncWith, ast.Match)):
            sub: list = []
            for f in ('body', 'orelse', 'finalbody'):
                must_store(getattr(st, f, []) or [], name, setters, have, sub)
            for h in getattr(st, 'handlers', []):
                must_store(h.body, name, setters, have, sub)
            for c in getattr(st, 'cases', []):
                must_store(c.body, name, setters, have, sub)
            exits.extend(sub)
            continue
    return have


def _all_functions(tree: ast.Module):
    """(class name or None, function node) for every function of math.py, nested ones included."""
    def walk(node, cls):
        for ch in ast.iter_child_nodes(node):
            if isinstance(ch, ast.ClassDef):
                yield from walk(ch, ch.name)
            elif isinstance(ch, (ast.FunctionDef, ast.AsyncFunctionDef)):
                yield cls, ch
                yield from walk(ch, cls)
            else:
                yield from walk(ch, cls)
    yield from walk(tree, None)


def _own_nodes(fn: ast.AST):
    """Nodes of a function body, not descending into nested functions/classes."""
    stack = list(ast.iter_child_nodes(fn))
    while stack:
        n = stack.pop()
        yield n
        if not isinstance(n, (ast.FunctionDef, ast.AsyncFunctionDef, ast.ClassDef, ast.Lambda)):
            stack.extend(ast.iter_child_nodes(n))


def angle_creations(tree: ast.Module) -> tuple[list[tuple[str, str, int]], dict]:
    """Every expression of math.py that creates an Angle/FrozenAngle object, classified:
         ViaCtor     Angle(...)/FrozenAngle(...)/cls(...)/type(self)(...): slots are written by the constructor's store sites
         RawToAngle  X.__new__(X) handed directly to MatrixBase._to_angle(), which stores all three slots on every path
         RawStored   X.__new__(X) bound to a local name whose three slots are stored on every path to `return name`
         CreateOther anything else (an uninitialised or partly initialised angle may escape)
       plus the facts `_to_angle` / `Angle.__init__` / `FrozenAngle.__new__` store all three slots on every path."""
    out: list[tuple[str, str, int]] = []
    info: dict = {}
    ang = next((c for c in tree.body if isinstance(c, ast.ClassDef) and c.name == 'Angle'), None)
    if ang is None:
        raise TranslateError('class Angle not found')
    # property setters of Angle that store exactly their own slot
    setters: set[str] = set()
    for f in ang.body:
        if isinstance(f, ast.FunctionDef) and any(isinstance(d, ast.Attribute) and d.attr == 'setter' for d in f.decorator_list):
            stores = [t.attr for n in ast.walk(f) for t in _targets(n) if isinstance(t, ast.Attribute) and t.attr in FIELDS]
            if f.name in SLOT_OF_PROP and stores == [SLOT_OF_PROP[f.name]]:
                setters.add(f.name)
    info['angle_property_setters'] = sorted(setters)

    def is_raw_new(e: ast.AST, cls: str | None) -> bool:
        """X.__new__(X) for an angle class X, cls.__new__(cls) / object.__new__(cls) inside an angle class"""
        if not (isinstance(e, ast.Call) and isinstance(e.func, ast.Attribute) and e.func.attr == '__new__' and len(e.args) == 1
                and isinstance(e.args[0], ast.Name)):
            return False
        a = e.args[0].id
        if a in ANGLE_CTORS:
            return True
        return a == 'cls' and cls in ANGLE_CLASSES

    def is_ctor(e: ast.AST, cls: str | None) -> bool:
        if not isinstance(e, ast.Call):
            return False
        f = e.func
        if isinstance(f, ast.Name):
            return f.id in ANGLE_CTORS or (f.id == 'cls' and cls in ANGLE_CLASSES)
        if isinstance(f, ast.Call) and isinstance(f.func, ast.Name) and f.func.id == 'type' and cls in ANGLE_CLASSES:
            return True
        return False

    complete: dict[str, bool] = {}
    for cls, fn in _all_functions(tree):
        where = f'{cls}.{fn.name}' if cls else fn.name
        # the initialisers themselves
        target = None
        if (cls, fn.name) == ('MatrixBase', '_to_angle'):
            target = fn.args.args[1].arg if len(fn.args.args) > 1 else None
        elif (cls, fn.name) == ('Angle', '__init__'):
            target = fn.args.args[0].arg
        if target is not None:
            exits: list = []
            fall = must_store(fn.body, target, setters, frozenset(), exits)
            sets = [h for e, h in exits if e is None or (isinstance(e, ast.Name) and e.id == target)]
            if fall is not None:
                sets.append(fall)
            complete[where] = bool(sets) and all(h >= set(FIELDS) for h in sets)
        raw_used: set[int] = set()
        parent: dict[int, ast.AST] = {}
        for n in _own_nodes(fn):
            for ch in ast.iter_child_nodes(n):
                parent[id(ch)] = n
        for n in _own_nodes(fn):
            if is_ctor(n, cls):
                out.append((where, 'ViaCtor', n.lineno))
            elif is_raw_new(n, cls):
                par = parent.get(id(n))
                kind = 'CreateOther'
                if isinstance(par, ast.Call) and isinstance(par.func, ast.Attribute) and par.func.attr == '_to_angle' \
                        and par.args and par.args[0] is n:
                    kind = 'RawToAngle'
                elif isinstance(par, ast.Assign) and len(par.targets) == 1 and isinstance(par.targets[0], ast.Name) and par.value is n:
                    nm = par.targets[0].id
                    exits = []
                    fall = must_store(fn.body, nm, setters, frozenset(), exits)
                    rets = [h for e, h in exits if isinstance(e, ast.Name) and e.id == nm]
                    # the object may only leave through `return name`; any other use of the name (argument, store
                    # elsewhere) besides attribute stores on it is not understood
                    uses = [u for u in _own_nodes(fn) if isinstance(u, ast.Name) and u.id == nm and isinstance(u.ctx, ast.Load)]
                    ok_uses = all(isinstance(parent.get(id(u)), (ast.Attribute, ast.Return)) for u in uses)
                    if rets and all(h >= set(FIELDS) for h in rets) and ok_uses and fall is None:
                        kind = 'RawStored'
                out.append((where, kind, n.lineno))
    for need in ('MatrixBase._to_angle', 'Angle.__init__'):
        if need not in complete:
            raise TranslateError(f'{need} not found')
    info['stores_all_slots_on_every_path'] = complete
    if not out:
        raise TranslateError('no expression creating an Angle found in math.py')
    return out, info


# ---------------------------------------------------------------------------------------------- format_float
def format_cfg(tree: ast.Module) -> dict:
    """The pipeline shape, or - when format_float is written in a way this translator does not know - a configuration
    marked `recognised: False` (all flags off), so that the named obligation `format_float_pipeline_recognised` fails
    while the other generated objects are still checked."""
    try:
        cfg = _format_cfg(tree)
        cfg['recognised'] = True
        cfg['reason'] = ''
        return cfg
    except TranslateError as e:
        fn = next((n for n in tree.body if isinstance(n, ast.FunctionDef) and n.name == 'format_float'), None)
        return {'places': 0, 'adds_zero': False, 'strips': False, 'neg_zero_fix': False, 'recognised': False,
                'reason': str(e), 'digest': ast_digest(fn) if fn is not None else ''}


def _format_cfg(tree: ast.Module) -> dict:
    fn = next((n for n in tree.body if isinstance(n, ast.FunctionDef) and n.name == 'format_float'), None)
    if fn is None:
        raise TranslateError('format_float not found')
    args = fn.args
    if [a.arg for a in args.args] != ['x', 'places'] or len(args.defaults) != 1 or not isinstance(args.defaults[0], ast.Constant) \
            or type(args.defaults[0].value) is not int:
        raise TranslateError('format_float: signature not (x, places=<int>)')
    cfg = {'places': args.defaults[0].value, 'adds_zero': None, 'strips': False, 'neg_zero_fix': False,
           'digest': ast_digest(fn)}
    body = [s for s in fn.body if not (isinstance(s, ast.Expr) and isinstance(s.value, ast.Constant))]
    if not body:
        raise TranslateError('format_float: empty body')
    # 1. result = f'{x+0.0:.{places}f}'  |  f'{x:.{places}f}'
    s0 = body[0]
    if not (isinstance(s0, ast.Assign) and len(s0.targets) == 1 and isinstance(s0.targets[0], ast.Name)
            and isinstance(s0.value, ast.JoinedStr) and len(s0.value.values) == 1
            and isinstance(s0.value.values[0], ast.FormattedValue)):
        raise TranslateError(f'format_float: first statement is not `result = f"{{...}}"` (line {s0.lineno})')
    var = s0.targets[0].id
    fv = s0.value.values[0]
    e = ast.unparse(fv.value).replace(' ', '')
    if e == 'x':
        cfg['adds_zero'] = False
    elif e in ('x+0.0', '0.0+x', 'x+0', '0+x'):
        cfg['adds_zero'] = True
    else:
        raise TranslateError(f'format_float: formatted expression `{e}` not recognised')
    if fv.conversion != -1 or fv.format_spec is None or ast.unparse(fv.format_spec) not in ("f'.{places}f'",):
        raise TranslateError(f'format_float: format spec {ast.unparse(fv.format_spec) if fv.format_spec else None} not `.{{places}}f`')
    rest = body[1:]
    # 2. if '.' in result: result = result.rstrip('0').rstrip('.')
    if rest and isinstance(rest[0], ast.If) and ast.unparse(rest[0].test) == f"'.' in {var}":
        st = rest[0]
        if len(st.body) != 1 or st.orelse or ast.unparse(st.body[0]) != f"{var} = {var}.rstrip('0').rstrip('.')":
            raise TranslateError(f'format_float: unrecognised stripping statement (line {st.lineno})')
        cfg['strips'] = True
        rest = rest[1:]
    # 3. optional `if result == '-0': return '0'` / `result = '0'`
    if rest and isinstance(rest[0], ast.If):
        st = rest[0]
        if ast.unparse(st.test) in (f"{var} == '-0'", f"'-0' == {var}") and len(st.body) == 1 and not st.orelse \
                and ast.unparse(st.body[0]) in ("return '0'", f"{var} = '0'"):
            cfg['neg_zero_fix'] = True
            rest = rest[1:]
        else:
            raise TranslateError(f'format_float: unrecognised if statement (line {st.lineno})')
    # 4. return result | return '0' if result == '-0' else result
    if len(rest) != 1 or not isinstance(rest[0], ast.Return):
        raise TranslateError('format_float: unrecognised tail')
    r = ast.unparse(rest[0].value)
    if r == var:
        pass
    elif r in (f"'0' if {var} == '-0' else {var}", f"{var} if {var} != '-0' else '0'"):
        cfg['neg_zero_fix'] = True
    else:
        raise TranslateError(f'format_float: unrecognised return expression `{r}`')
    return cfg


def str_templates(tree: ast.Module) -> dict:
    """__str__/join/__repr__ of the vector and angle classes: every interpolation must be format_float(self._f)
    with default places (or the delimiter parameter); literal pieces are recorded."""
    out = {}
    want = {('VecBase', '__str__'), ('VecBase', 'join'), ('AngleBase', '__str__'), ('AngleBase', 'join'),
            ('Vec', '__repr__'), ('FrozenVec', '__repr__'), ('Angle', '__repr__'), ('FrozenAngle', '__repr__')}
    for c in tree.body:
        if not isinstance(c, ast.ClassDef):
            continue
        for f in c.body:
            if isinstance(f, ast.FunctionDef) and (c.name, f.name) in want:
                ret = [s for s in f.body if isinstance(s, ast.Return)]
                if len(ret) != 1 or not isinstance(ret[0].value, ast.JoinedStr):
                    raise TranslateError(f'{c.name}.{f.name}: not a single f-string return')
                pieces = []
                for v in ret[0].value.values:
                    if isinstance(v, ast.Constant):
                        pieces.append(['lit', v.value])
                    elif isinstance(v, ast.FormattedValue) and v.format_spec is None and v.conversion == -1:
                        src = ast.unparse(v.value)
                        m = re.fullmatch(r'format_float\(self\.(_[a-z]+)\)', src)
                        if m:
                            pieces.append(['num', m.group(1)])
                        elif src == 'delim':
                            pieces.append(['delim', ''])
                        else:
                            raise TranslateError(f'{c.name}.{f.name}: interpolation `{src}` is not format_float(self._f)')
                    else:
                        raise TranslateError(f'{c.name}.{f.name}: unrecognised f-string piece')
                out[f'{c.name}.{f.name}'] = pieces
    missing = want - {tuple(k.split('.')) for k in out}
    if missing:
        raise TranslateError(f'string methods not found: {sorted(missing)}')
    return out


# ---------------------------------------------------------------------------------------------- parse_vec_str / from_str
def _nodoc(body: list[ast.stmt]) -> list[ast.stmt]:
    return [s for s in body if not (isinstance(s, ast.Expr) and isinstance(s.value, ast.Constant) and isinstance(s.value.value, str))]


def _parse_cfg(tree: ast.Module) -> dict:
    fn = next((n for n in tree.body if isinstance(n, ast.FunctionDef) and n.name == 'parse_vec_str'), None)
    if fn is None:
        raise TranslateError('parse_vec_str not found')
    params = [a.arg for a in fn.args.args]
    if len(params) != 4 or fn.args.vararg or fn.args.kwarg or fn.args.kwonlyargs:
        raise TranslateError('parse_vec_str: signature not (val, x, y, z)')
    v, dx, dy, dz = params
    defaults = f'return ({dx}, {dy}, {dz})'
    body = _nodoc(fn.body)
    cfg = {'strips_ws': False, 'opens': '', 'closes': '', 'splits_ws': False, 'uses_float': False, 'passthrough': False}
    u = lambda n: ast.unparse(n)
    i = 0
    # 1. dispatch on the type of the argument: strings continue, vectors/angles are passed through, others give the defaults
    if i < len(body) and isinstance(body[i], ast.If) and u(body[i].test) == f'isinstance({v}, str)':
        st = body[i]
        chain = []
        cur: ast.stmt | None = st
        while isinstance(cur, ast.If):
            chain.append((u(cur.test), [u(x) for x in cur.body]))
            if len(cur.orelse) == 1 and isinstance(cur.orelse[0], ast.If):
                cur = cur.orelse[0]
            else:
                chain.append(('else', [u(x) for x in cur.orelse]))
                cur = None
        want = [(f'isinstance({v}, str)', ['pass']),
                (f'isinstance({v}, VecBase)', [f'return ({v}.x, {v}.y, {v}.z)']),
                (f'isinstance({v}, AngleBase)', [f'return ({v}.pitch, {v}.yaw, {v}.roll)']),
                ('else', [defaults])]
        if chain != want:
            raise TranslateError(f'parse_vec_str: unrecognised type dispatch (line {st.lineno}): {chain}')
        cfg['passthrough'] = True
        i += 1
    # 2. val = val.strip()
    if i < len(body) and u(body[i]) == f'{v} = {v}.strip()':
        cfg['strips_ws'] = True
        i += 1
    # 3./4. the bracket removals, in this order
    for which, idx, sl in (('opens', '0', '1:'), ('closes', '-1', ':-1')):
        if i < len(body) and isinstance(body[i], ast.If):
            st = body[i]
            t = st.test
            ok = (isinstance(t, ast.BoolOp) and isinstance(t.op, ast.And) and len(t.values) == 2 and u(t.values[0]) == v
                  and isinstance(t.values[1], ast.Compare) and len(t.values[1].ops) == 1 and isinstance(t.values[1].ops[0], ast.In)
                  and u(t.values[1].left) == f'{v}[{idx}]' and isinstance(t.values[1].comparators[0], ast.Constant)
                  and isinstance(t.values[1].comparators[0].value, str)
                  and not st.orelse and len(st.body) == 1 and u(st.body[0]) == f'{v} = {v}[{sl}]')
            if not ok:
                raise TranslateError(f'parse_vec_str: unrecognised bracket statement (line {st.lineno})')
            cfg[which] = t.values[1].comparators[0].value
            i += 1
    # 5. try: a, b, c = val.split()  except ValueError: return defaults
    def is_try(st, body_pred):
        return (isinstance(st, ast.Try) and len(st.body) == 1 and body_pred(st.body[0]) and not st.orelse and not st.finalbody
                and len(st.handlers) == 1 and st.handlers[0].type is not None and u(st.handlers[0].type) == 'ValueError'
                and [u(x) for x in st.handlers[0].body] == [defaults])
    names: list[str] = []
    def split_stmt(x):
        if isinstance(x, ast.Assign) and len(x.targets) == 1 and isinstance(x.targets[0], ast.Tuple) and u(x.value) == f'{v}.split()' \
                and all(isinstance(e, ast.Name) for e in x.targets[0].elts) and len(x.targets[0].elts) == 3:
            names.extend(e.id for e in x.targets[0].elts)
            return True
        return False
    if i < len(body) and is_try(body[i], split_stmt):
        cfg['splits_ws'] = True
        i += 1
    else:
        raise TranslateError('parse_vec_str: `try: a, b, c = val.split()` not found where expected')
    # 6. try: return (float(a), float(b), float(c))  except ValueError: return defaults
    def float_stmt(x):
        return isinstance(x, ast.Return) and u(x.value) == '(' + ', '.join(f'float({n})' for n in names) + ')'
    if i < len(body) and is_try(body[i], float_stmt):
        cfg['uses_float'] = True
        i += 1
    if i != len(body):
        raise TranslateError(f'parse_vec_str: unrecognised statement (line {body[i].lineno})')
    return cfg


def parse_cfg(tree: ast.Module) -> dict:
    """Shape of parse_vec_str, or `recognised: False` (all flags off) when it is written in an unknown way."""
    try:
        cfg = _parse_cfg(tree)
        cfg.update(recognised=True, reason='')
    except TranslateError as e:
        cfg = {'strips_ws': False, 'opens': '', 'closes': '', 'splits_ws': False, 'uses_float': False, 'passthrough': False,
               'recognised': False, 'reason': str(e)}
    # from_str of the vector and angle base classes: `a, b, c = Py_parse_vec_str(val, a, b, c); return cls(a, b, c)`
    alias = any(isinstance(n, ast.Assign) and len(n.targets) == 1 and isinstance(n.targets[0], ast.Name)
                and n.targets[0].id == 'Py_parse_vec_str' and isinstance(n.value, ast.Name) and n.value.id == 'parse_vec_str'
                for n in tree.body)
    for cname in ('VecBase', 'AngleBase'):
        ok = False
        c = next((c for c in tree.body if isinstance(c, ast.ClassDef) and c.name == cname), None)
        f = next((f for f in (c.body if c else []) if isinstance(f, ast.FunctionDef) and f.name == 'from_str'), None)
        if f is not None and _is_classmethod(f):
            ps = [a.arg for a in f.args.args]
            body = [ast.unparse(x) for x in _nodoc(f.body)]
            if len(ps) == 5:
                k, val, a, b, d = ps
                callee = 'Py_parse_vec_str' if alias else 'parse_vec_str'
                ok = body in ([f'{a}, {b}, {d} = {fn}({val}, {a}, {b}, {d})', f'return {k}({a}, {b}, {d})']
                              for fn in {callee, 'parse_vec_str'})
        cfg[f'{cname}.from_str'] = ok
    return cfg


# ---------------------------------------------------------------------------------------------- mutation census
def _class_functions(tree: ast.Module) -> dict[str, list[ast.FunctionDef]]:
    """Methods per class, including those generated with exec(TEMPLATE.format(...)) inside the class body."""
    templates: dict[str, str] = {}
    for n in tree.body:
        if isinstance(n, ast.Assign) and len(n.targets) == 1 and isinstance(n.targets[0], ast.Name) \
                and isinstance(n.value, ast.Constant) and isinstance(n.value.value, str) and n.targets[0].id.endswith('_TEMP'):
            templates[n.targets[0].id] = n.value.value
    res: dict[str, list[ast.FunctionDef]] = {}
    for c in tree.body:
        if not isinstance(c, ast.ClassDef) or c.name not in CLASSES:
            continue
        fns: list[ast.FunctionDef] = []
        for node in ast.walk(c):
            if isinstance(node, ast.Call) and isinstance(node.func, ast.Name) and node.func.id in ('exec', 'eval'):
                a0 = node.args[0] if node.args else None
                if not (isinstance(a0, ast.Call) and isinstance(a0.func, ast.Attribute) and a0.func.attr == 'format'
                        and isinstance(a0.func.value, ast.Name) and a0.func.value.id in templates):
                    raise TranslateError(f'{c.name}: exec() of something that is not a known template (line {node.lineno})')
                code = templates[a0.func.value.id].format(func='add', op='+', pretty='add')
                for f in ast.parse(code).body:
                    if not isinstance(f, ast.FunctionDef):
                        raise TranslateError(f'template {a0.func.value.id}: non-function statement')
                    f.name = f.name.replace('add', 'OP')
                    fns.append(f)
        def collect(body):
            for f in body:
                if isinstance(f, ast.FunctionDef):
                    fns.append(f)
                elif isinstance(f, ast.If):           # `if TYPE_CHECKING:` stubs
                    collect(f.body); collect(f.orelse)
        collect(c.body)
        res[c.name] = fns
    for cn in CLASSES:
        if cn not in res:
            raise TranslateError(f'class {cn} not found in math.py')
    return res


def _is_classmethod(f: ast.FunctionDef) -> bool:
    return any(isinstance(d, ast.Name) and d.id in ('classmethod', 'staticmethod') for d in f.decorator_list)


def _origin_of_expr(e: ast.AST, origin_of_name) -> str:
    if isinstance(e, ast.Name):
        return origin_of_name(e.id)
    if isinstance(e, ast.Call):
        f = e.func
        nargs = len(e.args) + len(e.keywords)
        if isinstance(f, ast.Name):
            if f.id in MUTABLE_CTORS:
                return 'Fresh'
            if f.id in FROZEN_CTORS or f.id == 'cls':
                # FrozenX(y) returns y itself when y is already frozen; with 0 or 3 scalar arguments it is new
                return 'Fresh' if nargs != 1 else 'MaybeAlias'
            if f.id == 'to_matrix':
                return 'MaybeAlias'
        if isinstance(f, ast.Call) and isinstance(f.func, ast.Name) and f.func.id == 'type':
            return 'Fresh' if nargs != 1 else 'MaybeAlias'
        if isinstance(f, ast.Attribute):
            if f.attr == '__new__':
                return 'Fresh'
            if f.attr == 'copy' and not e.args:
                o = _origin_of_expr(f.value, origin_of_name)
                return {'Self': 'CopyOfSelf', 'Param': 'CopyOfParam', 'Fresh': 'Fresh'}.get(o, 'Unknown')
            if f.attr in FRESH_CLASSMETHODS:       # alternative constructors: always build a new object
                return 'Fresh'
            if f.attr in FRESH_METHODS:
                return 'Fresh'
    return 'Unknown'


def _origins(f: ast.FunctionDef, is_method: bool):
    """(receiver name or None, parameter names, bindings, origin_of_name) for the body of f."""
    params = [a.arg for a in f.args.posonlyargs + f.args.args + f.args.kwonlyargs]
    if f.args.vararg:
        params.append(f.args.vararg.arg)
    if f.args.kwarg:
        params.append(f.args.kwarg.arg)
    recv = params[0] if (is_method and params and not _is_classmethod(f) and f.name != '__new__') else None
    binds: dict[str, list[ast.AST | None]] = {}
    for node in ast.walk(f):
        if isinstance(node, ast.Assign) and len(node.targets) == 1 and isinstance(node.targets[0], ast.Name):
            binds.setdefault(node.targets[0].id, []).append(node.value)
        elif isinstance(node, ast.AnnAssign) and isinstance(node.target, ast.Name):
            if node.value is not None:     # a bare annotation `mat: MatrixBase` binds nothing
                binds.setdefault(node.target.id, []).append(node.value)
        elif isinstance(node, ast.AugAssign) and isinstance(node.target, ast.Name):
            pass      # `n @= x`: n stays the same object (in-place) or becomes a new one; recorded as an event below
        else:
            for t in _targets(node):
                if isinstance(t, ast.Name):
                    binds.setdefault(t.id, []).append(None)     # loop/with/tuple target: origin unknown

    def origin_of_name(n: str, depth: int = 0) -> str:
        if n in binds:
            if depth > 4:
                return 'Unknown'
            os_ = {('Unknown' if v is None else _origin_of_expr(v, lambda m: origin_of_name(m, depth + 1))) for v in binds[n]}
            if n in params:
                os_.add('Self' if n == recv else 'Param')
            if len(os_) == 1:
                return os_.pop()
            for bad in ('Unknown', 'MaybeAlias', 'CopyOfSelf', 'CopyOfParam', 'Param', 'Self'):
                if bad in os_:
                    return bad
        if n == recv:
            return 'Self'
        if n in params:
            return 'Param'
        return 'Unknown'
    return recv, params, binds, origin_of_name


def mutation_events(f: ast.FunctionDef, is_method: bool) -> list[tuple[str, str, int]]:
    """(origin, what, line) for every write to an object inside f."""
    recv, params, binds, origin_of_name = _origins(f, is_method)

    ev: list[tuple[str, str, int]] = []
    for node in ast.walk(f):
        if isinstance(node, ast.AugAssign) and isinstance(node.target, ast.Name):
            o = origin_of_name(node.target.id)
            if o == 'Unknown' and node.target.id not in params and node.target.id not in binds:
                raise TranslateError(f'{f.name}: augmented assignment to unbound name {node.target.id} (line {node.lineno})')
            if isinstance(node.op, ast.MatMult) or o not in ('Param', 'Unknown'):
                ev.append((o, f'augmented assignment {type(node.op).__name__}', node.lineno))
            # arithmetic `x += 1` on a parameter/number rebinding a float is not an object write
        for t in _targets(node):
            if isinstance(t, ast.Attribute):
                o = _origin_of_expr(t.value, origin_of_name) if isinstance(t.value, (ast.Name, ast.Call)) else 'Unknown'
                ev.append((o, f'store .{t.attr}', t.lineno))
            elif isinstance(t, ast.Subscript) and isinstance(t.value, ast.Name):
                o = origin_of_name(t.value.id)
                if t.value.id in binds and all(isinstance(v, (ast.Dict, ast.List, ast.ListComp, ast.DictComp)) for v in binds[t.value.id] if v is not None) \
                        and None not in binds[t.value.id]:
                    continue          # a local dict/list
                ev.append((o, 'store [..]', t.lineno))
        if isinstance(node, ast.Call) and isinstance(node.func, ast.Attribute):
            m = node.func.attr
            if m in MUT_RECV and isinstance(node.func.value, (ast.Name, ast.Call)):
                if m in ('min', 'max') and not isinstance(node.func.value, ast.Name):
                    continue
                ev.append((_origin_of_expr(node.func.value, origin_of_name), f'call .{m}()', node.lineno))
            elif m in MUT_ARG0:
                if not node.args:
                    raise TranslateError(f'{f.name}: {m}() without argument (line {node.lineno})')
                ev.append((_origin_of_expr(node.args[0], origin_of_name), f'arg of .{m}()', node.lineno))
        if isinstance(node, ast.Call) and isinstance(node.func, ast.Name) and node.func.id == 'setattr' and node.args:
            ev.append((_origin_of_expr(node.args[0], origin_of_name), 'setattr', node.lineno))
    return [e for e in ev if e[0] != 'Fresh']


def mutation_census(tree: ast.Module) -> list[tuple[str, str, str, str, int]]:
    out = []
    for cls, fns in _class_functions(tree).items():
        for f in fns:
            for o, what, line in mutation_events(f, True):
                out.append((cls, f.name, o, what, line))
    # module-level helpers that build objects (unpickling)
    for f in tree.body:
        if isinstance(f, ast.FunctionDef) and f.name.startswith('_mk'):
            for o, what, line in mutation_events(f, False):
                out.append(('module', f.name, o, what, line))
    return out


def method_table(tree: ast.Module) -> list[tuple[str, str]]:
    return [(cls, f.name) for cls, fns in _class_functions(tree).items() for f in fns]


# ---------------------------------------------------------------------------------------------- result kinds
CONCRETE = {'Vec': 'VecBase', 'FrozenVec': 'VecBase', 'Angle': 'AngleBase', 'FrozenAngle': 'AngleBase',
            'Matrix': 'MatrixBase', 'FrozenMatrix': 'MatrixBase'}
COPYLIKE = ('copy', '__copy__', '__deepcopy__', '__reduce__', 'freeze', 'thaw')


def _is_stub(f: ast.FunctionDef) -> bool:
    body = _nodoc(f.body)
    return (len(body) == 1 and isinstance(body[0], ast.Expr) and isinstance(body[0].value, ast.Constant) and body[0].value.value is Ellipsis) \
        or any(isinstance(d, ast.Name) and d.id == 'overload' for d in f.decorator_list)


def _own_returns(f: ast.FunctionDef) -> list[ast.Return]:
    return [n for n in _own_nodes(f) if isinstance(n, ast.Return)]


def _guarded_param_return(f: ast.FunctionDef, ret: ast.Return, cls: str) -> bool:
    """`if isinstance(p, cls|<Class>): return p` as a direct statement of the function body, p a parameter."""
    for st in f.body:
        if isinstance(st, ast.If) and len(st.body) == 1 and st.body[0] is ret and not st.orelse and isinstance(ret.value, ast.Name):
            t = st.test
            if isinstance(t, ast.Call) and isinstance(t.func, ast.Name) and t.func.id == 'isinstance' and len(t.args) == 2 \
                    and isinstance(t.args[0], ast.Name) and t.args[0].id == ret.value.id \
                    and isinstance(t.args[1], ast.Name) and t.args[1].id in ('cls', cls, 'Py_' + cls):
                return True
    return False


def _function_kind(f: ast.FunctionDef, cls: str | None, module_kinds: dict[str, str]) -> str:
    """Kind of the result of one function, from its own return statements."""
    recv, params, binds, origin_of_name = _origins(f, cls is not None)
    rets = _own_returns(f)
    if any(isinstance(n, (ast.Yield, ast.YieldFrom)) for n in _own_nodes(f)):
        return 'ROther'                 # generator / context manager
    if f.name == '__init__':
        # the object is created by type.__call__; __init__ itself returns nothing
        return 'RFresh' if all(r.value is None for r in rets) else 'RUnknown'
    kinds: set[str] = set()
    for r in rets:
        v = r.value
        if v is None or (isinstance(v, ast.Constant)) or (isinstance(v, ast.Name) and v.id == 'NotImplemented'):
            kinds.add('ROther')
            continue
        if f.name == '__reduce__':
            # (maker, (slot, slot, ...)): a new object iff the maker builds one and only slots of the receiver are passed
            ok = (isinstance(v, ast.Tuple) and len(v.elts) == 2 and isinstance(v.elts[0], ast.Name)
                  and module_kinds.get(v.elts[0].id) == 'RFresh' and isinstance(v.elts[1], ast.Tuple)
                  and all(isinstance(e, ast.Attribute) and isinstance(e.value, ast.Name) and e.value.id == recv
                          and (e.attr.startswith('_') or e.attr in ('x', 'y', 'z', 'pitch', 'yaw', 'roll'))
                          for e in v.elts[1].elts))
            kinds.add('RFresh' if ok else 'RUnknown')
            continue
        if isinstance(v, (ast.Name, ast.Call)):
            o = _origin_of_expr(v, origin_of_name)
            if isinstance(v, ast.Call) and isinstance(v.func, ast.Attribute) and v.func.attr == '_to_angle' and len(v.args) == 1:
                o = _origin_of_expr(v.args[0], origin_of_name)          # _to_angle returns the angle it was given
            if isinstance(v, ast.Call) and isinstance(v.func, ast.Attribute) and isinstance(v.func.value, ast.Name) and v.func.value.id == 'math':
                kinds.add('ROther')
                continue
            if o == 'Fresh':
                kinds.add('RFresh')
            elif o == 'Self':
                kinds.add('RSelf')
            elif o == 'Param':
                kinds.add('RArgFrozen' if (cls is not None and _guarded_param_return(f, r, cls)) else 'RArg')
            elif isinstance(v, ast.Call) and isinstance(v.func, ast.Name) and v.func.id in ('float', 'int', 'str', 'bool', 'hash', 'len', 'round', 'iter', 'tuple', 'Vec_tuple', 'abs', 'min', 'max', 'format_float', 'repr'):
                kinds.add('ROther')
            else:
                kinds.add('RUnknown')
            continue
        if isinstance(v, (ast.Tuple, ast.JoinedStr, ast.Compare, ast.BoolOp, ast.BinOp, ast.UnaryOp, ast.Attribute, ast.Subscript, ast.IfExp,
                          ast.GeneratorExp, ast.ListComp, ast.List, ast.Dict)):
            kinds.add('ROther')          # numbers, strings, tuples, slot reads: not an object of the six classes
            continue
        kinds.add('RUnknown')
    if not rets:
        return 'ROther'
    kinds.discard('ROther') if len(kinds) > 1 else None
    if kinds == {'RFresh', 'RArgFrozen'}:
        return 'RArgFrozen'
    if len(kinds) == 1:
        return kinds.pop()
    return 'RUnknown'


def result_kinds(tree: ast.Module) -> tuple[list[tuple[str, str, str]], dict]:
    """(concrete class, public method, kind) for every method of the six classes as resolved through inheritance
    (subclass first, then its base; class-level aliases `__copy__ = copy` followed; a class without __copy__/__deepcopy__
    is copied by the copy module through __reduce__)."""
    module_kinds: dict[str, str] = {}
    for f in tree.body:
        if isinstance(f, ast.FunctionDef) and f.name.startswith('_mk'):
            module_kinds[f.name] = _function_kind(f, None, {})
    fns = _class_functions(tree)
    aliases: dict[str, dict[str, str]] = {}
    for c in tree.body:
        if isinstance(c, ast.ClassDef) and c.name in CLASSES:
            for n in c.body:
                if isinstance(n, ast.Assign) and len(n.targets) == 1 and isinstance(n.targets[0], ast.Name) and isinstance(n.value, ast.Name):
                    aliases.setdefault(c.name, {})[n.targets[0].id] = n.value.id
    out: list[tuple[str, str, str]] = []
    info: dict = {'module_makers': module_kinds}
    for cls, base in CONCRETE.items():
        table: dict[str, str] = {}
        for owner in (base, cls):                       # subclass definitions override the base ones
            defs: dict[str, ast.FunctionDef] = {}
            for f in fns[owner]:
                if not _is_stub(f):
                    defs[f.name] = f                    # last real definition wins (property setter after getter)
            for name, f in defs.items():
                table[name] = _function_kind(f, cls, module_kinds)
            for name, target in aliases.get(owner, {}).items():
                if target in defs:
                    table[name] = _function_kind(defs[target], cls, module_kinds)
                elif target == 'None':
                    table.pop(name, None)
        for m in ('__copy__', '__deepcopy__'):
            if m not in table and '__reduce__' in table:
                table[m] = table['__reduce__']          # copy.copy / copy.deepcopy fall back to __reduce_ex__
        for name, k in sorted(table.items()):
            public = not name.startswith('_') or (name.startswith('__') and name.endswith('__'))
            if public:
                out.append((cls, name, k))
    return out, info


# ---------------------------------------------------------------------------------------------- emit
def _s(x: str) -> str:
    return '"' + x.replace('"', "'") + '"'


def translate() -> tuple[str, dict]:
    text = src_text('math.py')
    tree = ast.parse(text)
    sites, info = angle_sites()
    creations, cinfo = angle_creations(tree)
    info.update(cinfo)
    cfg = format_cfg(tree)
    pcfg = parse_cfg(tree)
    strs = str_templates(tree)
    muts = mutation_census(tree)
    meths = method_table(tree)
    results, rinfo = result_kinds(tree)
    info.update(rinfo)
    # __str__: three numbers separated by single spaces
    def plain3(p, sep):
        kinds = [k for k, _ in p]
        return kinds == ['num', sep[0], 'num', sep[0], 'num'] and all(v == sep[1] for k, v in p if k == sep[0])
    str_ok = plain3(strs['VecBase.__str__'], ('lit', ' ')) and plain3(strs['AngleBase.__str__'], ('lit', ' ')) \
        and plain3(strs['VecBase.join'], ('delim', '')) and plain3(strs['AngleBase.join'], ('delim', ''))
    b = lambda x: 'true' if x else 'false'
    lines = [
        '(* GENERATED by translate/c05_sites.py from src/srctools/math.py. Do not edit. *)',
        'From Coq Require Import ZArith NArith List String.',
        'From SV Require Import Num.Dec6 Num.AngleSites Num.VecText SM.FrozenOps SM.FrozenCopy.',
        'Import ListNotations.', 'Open Scope string_scope.',
        '(* every store to an _pitch/_yaw/_roll slot: (file:Class.function:slot, classification of the stored value) *)',
        'Definition angle_sites : list (string * rhs) := [',
        ';\n'.join(f'  ({_s(w)}, {k})' for w, k, _ in sites),
        '].',
        '(* every expression that creates an Angle/FrozenAngle object: (function, how its slots get written) *)',
        'Definition angle_creations : list (string * creation) := [',
        ';\n'.join(f'  ({_s(w)}, {k})' for w, k, _ in creations),
        '].',
        f'Definition to_angle_stores_all_slots : bool := {b(cinfo["stores_all_slots_on_every_path"]["MatrixBase._to_angle"])}.',
        f'Definition angle_init_stores_all_slots : bool := {b(cinfo["stores_all_slots_on_every_path"]["Angle.__init__"])}.',
        '(* the format_float pipeline *)',
        f'Definition format_float_recognised : bool := {b(cfg["recognised"])}.',
        f'Definition format_float_cfg : fmt_cfg := {{| adds_zero := {b(cfg["adds_zero"])}; places := {cfg["places"]}%N; '
        f'strips := {b(cfg["strips"])}; neg_zero_fix := {b(cfg["neg_zero_fix"])} |}}.',
        f'Definition str_uses_format_float : bool := {b(str_ok)}.',
        '(* parse_vec_str and the from_str classmethods *)',
        f'Definition parse_vec_recognised : bool := {b(pcfg["recognised"])}.',
        f'Definition parse_vec_cfg : parse_cfg := {{| strips_ws := {b(pcfg["strips_ws"])}; opens := [{"; ".join(str(ord(ch)) for ch in pcfg["opens"])}]%N; '
        f'closes := [{"; ".join(str(ord(ch)) for ch in pcfg["closes"])}]%N; splits_ws := {b(pcfg["splits_ws"])}; uses_float := {b(pcfg["uses_float"])} |}}.',
        f'Definition parse_passes_objects_through : bool := {b(pcfg["passthrough"])}.',
        f'Definition vec_from_str_uses_parse : bool := {b(pcfg["VecBase.from_str"])}.',
        f'Definition angle_from_str_uses_parse : bool := {b(pcfg["AngleBase.from_str"])}.',
        '(* writes to objects that are not freshly created inside the method: (class, method, written object, what) *)',
        'Definition mut_events : list (string * string * origin * string) := [',
        ';\n'.join(f'  ({_s(c)}, {_s(m)}, {o}, {_s(w)})' for c, m, o, w, _ in muts),
        '].',
        '(* kind of the result of every public method of the six concrete classes, resolved through inheritance *)',
        'Definition result_kinds : list (string * string * rkind) := [',
        ';\n'.join(f'  ({_s(c)}, {_s(m)}, {k})' for c, m, k in results),
        '].',
        '',
    ]
    side = {'angle_sites': [list(s) for s in sites], 'angle_creations': [list(c) for c in creations], 'format_float': cfg, 'parse_vec_str': pcfg, 'str_templates': strs,
            'mut_events': [list(m) for m in muts], 'result_kinds': [list(r) for r in results], 'n_methods': len(meths), **info,
            'digests': {'parse_vec_str': _digest(tree, 'parse_vec_str'), 'format_float': cfg['digest']}}
    return '\n'.join(lines), side


def _digest(tree: ast.Module, name: str) -> str:
    for n in tree.body:
        if isinstance(n, ast.FunctionDef) and n.name == name:
            return ast_digest(n)
    raise TranslateError(f'{name} not found')


GEN = {'AngleSites_gen': translate}
